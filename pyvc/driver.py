"""./check <ID> [--tier quick|thorough] [--replay FILE]

exit 0: every obligation discharged (known findings printed as KNOWN-FINDING)
exit 1: VIOLATION property=<id> replay=<path> [no-failing-input-found]
exit 2: UNDECIDED (some obligation neither discharged nor refuted)   -- no VIOLATION line
exit 3: engine error (unsupported syntax, missing function, vacuous contract) -- no VIOLATION line
"""
from __future__ import annotations

import argparse
import hashlib
import importlib
import json
import multiprocessing as mp
import os
import re
import subprocess
import sys
import time
import traceback

VERIF = os.path.dirname(os.path.dirname(os.path.abspath(__file__)))
sys.path.insert(0, VERIF)

REPO = os.environ.get("PYVC_REPO", "/repo")
PKG_ROOT = os.path.join(REPO, "perception_eval")

_CACHE = {}


def load_property(pid):
    """(re)build the property description in this process"""
    if pid in _CACHE:
        return _CACHE[pid]
    from pyvc.repoindex import RepoIndex
    from pyvc.api import PropertyBuilder
    index = RepoIndex(PKG_ROOT)
    mod = importlib.import_module(f"contracts.{pid}")
    P = PropertyBuilder(pid, index)
    mod.build(P)
    _CACHE[pid] = (P, mod)
    return P, mod


def gen_task(job):
    """worker: generate and serialise the obligations of one task"""
    pid, ti = job
    import z3
    from pyvc.verify import run_task
    from pyvc.solve import serialize
    from pyvc.values import EngineError
    out = dict(task_index=ti, obligations=[], error=None)
    try:
        P, mod = load_property(pid)
        task = P.tasks[ti]
        out["task"] = task.name
        t0 = time.time()
        if task.kind == "lemma":
            hyps, goal = task.builder(z3)
            from pyvc.ctx import Obligation
            o = Obligation(f"lemma.{task.name}", "lemma", "<lemma>", 0, list(hyps), goal, [])
            qf, full, triv, refute = serialize(o)
            out["obligations"].append(dict(name=o.name, kind="lemma", func="<lemma>", line=0, qf=qf, full=full, trivial=triv, refute=refute,
                                           decisions=[], note="", expect=task.expect))
            out.update(paths=1, returns=0, raises={}, functions=[], covers=[], gen_s=round(time.time() - t0, 3), externals=[])
            return out
        if task.kind == "spec_lemma":
            from pyvc.interp import Frame
            from pyvc.values import T as _T
            it = P.factory()()
            ctx = it.ctx
            ctx.reset()
            modname = task.module if task.module.startswith(P.index.package) else P.index.package + "." + task.module
            fr = Frame(P.index.modules[modname])
            for n, t in task.params.items():
                fr.vars[n] = t.fresh(ctx, n) if isinstance(t, _T) else (t(it) if callable(t) else t)
            from pyvc.verify import heap_axioms
            heap_axioms(it, [t for t in task.params.values() if isinstance(t, _T)])
            ctx.func_stack.append("<spec-lemma>")
            for h in task.hyps:
                ctx.assume(it.truth(it.eval_spec(h, fr)))
            ctx.oblige("canary.hypotheses_satisfiable", z3.BoolVal(False), None, kind="canary")
            ctx.oblige(f"lemma.{task.name}", it.truth(it.eval_spec(task.goal, fr)), None, kind="lemma")
            for o in ctx.obligations:
                qf, full, triv, refute = serialize(o)
                out["obligations"].append(dict(name=o.name, kind=o.kind, func="<spec-lemma>", line=0, qf=qf, full=full, trivial=triv, refute=refute,
                                               decisions=[], note="", expect="sat" if o.kind == "canary" else "unsat"))
            out.update(paths=1, returns=0, raises={}, functions=[], covers=[], gen_s=round(time.time() - t0, 3),
                       externals=sorted(getattr(it, "used_externals", set())))
            return out
        contract = task.contract or P.contracts[P.index.lookup(task.target).fq]
        import pyvc.interp as _interp
        budget = 1500 if os.environ.get("VERIF_TIER") == "thorough" else 300
        _interp.GEN_DEADLINE[0], _interp.GEN_DEADLINE[1] = time.time() + budget, budget
        extra = dict(task.opts.pop("extra_contracts", None) or {})
        if task.contract is not None:
            extra[P.index.lookup(task.target).fq] = task.contract
        holder = {}
        base_factory = P.factory(extra)
        def factory():
            holder["it"] = base_factory()
            return holder["it"]
        res = run_task(factory, task.target, contract, name=task.name, args_builder=task.args_builder, setup=task.setup, **task.opts)
        for o in res.obligations:
            qf, full, triv, refute = serialize(o)
            out["obligations"].append(dict(name=o.name, kind=o.kind, func=o.func, line=o.line, qf=qf, full=full, trivial=triv, refute=refute,
                                           decisions=o.decisions[-12:], note=o.note, expect="sat" if o.kind == "canary" else "unsat"))
        out.update(paths=res.paths, returns=res.returns, raises=res.raises, functions=sorted(res.functions),
                   covers=sorted([list(k) for k in res.covers]), gen_s=round(res.gen_s, 3),
                   externals=sorted(getattr(holder.get("it"), "used_externals", set())), stats=res.stats)
    except EngineError as ex:
        out["error"] = f"EngineError: {ex}"
    except Exception as ex:   # engine bug: never a pass, never a violation
        out["error"] = f"{type(ex).__name__}: {ex}\n{traceback.format_exc()[-1500:]}"
    return out


def main(argv=None):
    ap = argparse.ArgumentParser()
    ap.add_argument("pid")
    ap.add_argument("--tier", default=os.environ.get("VERIF_TIER", "quick"))
    ap.add_argument("--replay", default=None)
    ap.add_argument("--jobs", type=int, default=min(16, os.cpu_count() or 4))
    ap.add_argument("--verbose", "-v", action="store_true")
    ap.add_argument("--only", default=None, help="regex on task names (development)")
    args = ap.parse_args(argv)
    pid = args.pid
    tier = args.tier if args.tier in ("quick", "thorough") else "quick"
    os.environ["VERIF_TIER"] = tier       # read by the workers (generation budget per task)
    seed = int(os.environ.get("VERIF_SEED", "0") or 0)
    t_start = time.time()
    if args.replay:
        return run_replay_file(pid, args.replay)
    try:
        P, mod = load_property(pid)
    except Exception as ex:
        print(f"ENGINE-ERROR property={pid} cannot load contracts: {type(ex).__name__}: {ex}")
        traceback.print_exc()
        # a contract file that reads the repository's AST while it is built can fail on an edited source: no proof and no refutation; the native harness
        # is still asked for a failing input on the real code (bounded stand-in)
        pseudo = dict(task="bounded-search", func="<whole property>", name="bounded-native-search", line=0, verdict="engine-error", model=None)
        r = run_replayer(pid, None, [pseudo], seed, tier).get(obligation_key(pseudo))
        if r and r.get("found"):
            print(f"VIOLATION property={pid} replay={r['replay']}")
            print("  found by the native witness search (bounded) while the contracts could not be loaded")
            return 1
        return 3
    tasks = list(range(len(P.tasks)))
    if args.only:
        tasks = [i for i in tasks if re.search(args.only, P.tasks[i].name)]
    timeout_ms = int(os.environ.get("PYVC_TIMEOUT_MS", "20000" if tier == "quick" else "120000"))
    both = tier == "thorough"
    ctxm = mp.get_context("fork")
    with ctxm.Pool(args.jobs) as pool:
        gens = pool.map(gen_task, [(pid, i) for i in tasks], chunksize=1)
        errors = [g for g in gens if g.get("error")]
        jobs, meta = [], []
        # the solving phase of one check is bounded as a whole (an edited body can produce a thousand string obligations that each run into their budget):
        # obligations not reached by then stay `unknown` -- undecided, never a verdict
        solve_deadline = time.time() + (600 if tier == "quick" else 2400)
        for g in gens:
            for o in g["obligations"]:
                idx = len(jobs)
                jobs.append((idx, o["qf"], o["full"], o["trivial"], timeout_ms, True, both and o["expect"] == "unsat", o["expect"], o.get("refute"), solve_deadline))
                meta.append(dict(task=g.get("task", "?"), name=o["name"], kind=o["kind"], func=o["func"], line=o["line"],
                                 expect=o["expect"], decisions=o["decisions"], note=o["note"],
                                 size=len((o["full"][1] if isinstance(o["full"], tuple) else o["full"]) or "")))
        from pyvc.solve import solve_one
        # tasks with few obligations first: a task whose edited body explodes into a thousand slow obligations must not starve the others of the budget
        per_task = {}
        for m_ in meta:
            per_task[m_["task"]] = per_task.get(m_["task"], 0) + 1
        order = sorted(range(len(jobs)), key=lambda k: (per_task[meta[k]["task"]], k))
        results = pool.map(solve_one, [jobs[k] for k in order], chunksize=1) if jobs else []
    for r in results:
        meta[r["idx"]].update(verdict=r["verdict"], backend=r["backend"], stage=r["stage"], time_s=r["time_s"],
                              model=r.get("model"), reason=r.get("reason", ""), cvc5=r.get("cvc5"))
    return report(pid, tier, seed, P, mod, gens, meta, errors, t_start, args, jobs)


def obligation_key(m):
    return f"{m['task']}::{m['func']}::{re.sub(r'@.*$', '', m['name'])}"


def report(pid, tier, seed, P, mod, gens, meta, errors, t_start, args, jobs):
    canaries = [m for m in meta if m["kind"] == "canary"]
    real = [m for m in meta if m["kind"] != "canary"]
    failed = [m for m in real if m["verdict"] != m["expect"]]
    # a task is vacuous when the hypotheses are unsatisfiable on *every* entry path (argument builders may fork; a path excluded by
    # the contract's requires is not vacuity)
    by_task = {}
    for m in canaries:
        by_task.setdefault(m["task"], []).append(m)
    vacuous = [ms[0] for ms in by_task.values() if all(m["verdict"] == "unsat" for m in ms)]
    rc = 0
    lines = []
    engine_witness = []
    if errors:
        # the engine cannot read some function under contract (unsupported construct after an edit): no proof, no refutation from
        # the verifier.  The native harness is still asked for a failing input (bounded stand-in, labelled as such).
        pseudo = []
        for g in errors:
            ti = g["task_index"]
            t = P.tasks[ti]
            func = P.index.lookup(t.target).fq if getattr(t, "target", None) else "<lemma>"
            pseudo.append(dict(task=t.name, func=func, name="engine-error", line=0, verdict="engine-error", model=None,
                               expect="unsat", decisions=[], backend="-", stage="-", kind="engine", note=g["error"][:300]))
        rr = run_replayer(pid, mod, pseudo, seed, tier) if pseudo else {}
        for m in pseudo:
            r = rr.get(obligation_key(m))
            if r and r.get("found"):
                engine_witness.append((m, r["replay"]))
        for g in errors:
            lines.append(f"ENGINE-ERROR property={pid} task={g.get('task', g['task_index'])}: {g['error']}")
        rc = 3
    if vacuous:
        for m in vacuous:
            lines.append(f"ENGINE-ERROR property={pid} vacuous contract (requires unsatisfiable) in task {m['task']}")
        rc = 3
    n_obl = len(real)
    if n_obl < P.min_obligations and not args.only:
        lines.append(f"ENGINE-ERROR property={pid} only {n_obl} obligations generated, expected at least {P.min_obligations}")
        rc = 3
    known = load_known(pid)
    violations, undecided, known_hits = [], [], []
    replay_results = {}
    if failed and rc != 3:
        replay_results = run_replayer(pid, mod, failed, seed, tier)
    for m in failed:
        key = obligation_key(m)
        rr = replay_results.get(key)
        kf = match_known(known, m, rr)
        if kf is not None:
            known_hits.append((kf, m))
            continue
        if rr and rr.get("found"):
            violations.append((m, rr["replay"], ""))
        elif m["verdict"] == "sat" or (m["expect"] == "sat" and m["verdict"] == "unsat"):
            path = write_obligation_replay(pid, m)
            violations.append((m, path, " no-failing-input-found"))
        else:
            undecided.append(m)
    # bounded stand-in, always on: the property's native harness searches for a failing input on the real code even when every
    # obligation is discharged (clauses that no contract covers yet are decided only up to the harness's bound; never counted as proved)
    bounded = dict(ran=False, found=False)
    # (also when obligations stayed undecided and their own witness search found nothing: the general search may still find a failing input)
    if not violations and rc == 0 and os.path.exists(os.path.join(VERIF, "replay", f"{pid}.py")) and not args.only and not os.environ.get("PYVC_NO_BOUNDED"):
        pseudo = dict(task="bounded-search", func="<whole property>", name="bounded-native-search", line=0, verdict="none", model=None,
                      expect="unsat", decisions=[], backend="-", stage="-", kind="bounded", note="")
        t_b = time.time()
        rr_b = run_replayer(pid, mod, [pseudo], seed, tier)
        r_b = rr_b.get(obligation_key(pseudo))
        bounded = dict(ran=True, found=bool(r_b and r_b.get("found")), wall_s=round(time.time() - t_b, 1))
        if r_b is None or r_b.get("error"):
            # the harness itself failed (its own defect, or edited code it cannot drive): checker error, neither "nothing found" nor a violation
            bounded["error"] = (r_b or {}).get("error", "the harness produced no result")
        # listed findings the harness observed again (matched by witness tag; anything else it finds is a violation)
        for tag in (r_b or {}).get("known", []):
            for kf in known:
                if kf.get("witness_tag") == tag and re.fullmatch(kf["obligation"], obligation_key(pseudo)):
                    known_hits.append((kf, dict(pseudo, verdict="known", backend="native", stage="bounded")))
        if bounded["found"]:
            engine_witness.append((dict(pseudo, note=("all obligations were discharged: the failing input exercises a clause no contract covers" if not undecided else
                                                       f"{len(undecided)} obligation(s) were left undecided by the solvers")), r_b["replay"]))
    # a known finding that no longer fails is reported (informational): the entry should become 'fixed'
    printed = set()
    for kf, m in known_hits:
        if kf["id"] not in printed:
            printed.add(kf["id"])
            lines.append(f"KNOWN-FINDING: property={pid} {kf['what']}")
    seen_v = set()
    for m, path, suffix in violations:
        k = (obligation_key(m), path)
        if k in seen_v:
            continue
        seen_v.add(k)
        lines.append(f"VIOLATION property={pid} replay={path}{suffix}")
        lines.append(f"  obligation {m['func']} :: {m['name']} (task {m['task']}, line {m['line']}): verdict {m['verdict']} by {m['backend']}")
    for m, path in engine_witness:
        lines.append(f"VIOLATION property={pid} replay={path}")
        if m["kind"] == "bounded":
            lines.append(f"  found by the bounded native search on the real code; {m['note']}")
        else:
            lines.append(f"  found by the native witness search (bounded) while the engine could not read {m['func']} (task {m['task']}): {m['note'][:160]}")
    if engine_witness:
        rc = 1
    if violations and rc == 0:
        rc = 1
    if undecided and rc == 0:
        rc = 2
    if bounded.get("error") and rc == 0:
        rc = 3
        lines.append(f"ENGINE-ERROR property={pid} task=bounded-search: the native harness failed: {bounded['error']}")
    for m in undecided:
        lines.append(f"UNDECIDED property={pid} obligation {m['func']} :: {m['name']} (task {m['task']}): {m['verdict']} {m.get('reason', '')}")
    P.bounded_run = bounded
    write_evidence(pid, tier, seed, P, gens, meta, real, canaries, failed, violations, undecided, known_hits, t_start, rc)
    discharged = sum(1 for m in real if m["verdict"] == m["expect"])
    print(f"[{pid}] tier={tier} tasks={len(gens)} obligations={len(real)} discharged={discharged} "
          f"canaries={len(canaries)} failed={len(failed)} wall={time.time() - t_start:.1f}s rc={rc}")
    if args.verbose:
        for m in real:
            print(f"   {m['verdict']:8s} {m['backend']:10s} {m['stage']:9s} {m['time_s']:7.3f}s  {m['task']} :: {m['name']}")
    for l in lines:
        print(l)
    return rc


# ------------------------------------------------------------------ known findings
def load_known(pid):
    p = os.path.join(VERIF, "known_findings.json")
    if not os.path.exists(p):
        return []
    data = json.load(open(p))
    return [k for k in data.get("findings", []) if k.get("property") == pid and k.get("status", "open") == "open"]


def match_known(known, m, rr):
    """a failing obligation is a *known* finding only if task, function and obligation name match the entry and,
    when the entry carries a witness predicate, the replayed witness satisfies it"""
    key = obligation_key(m)
    for k in known:
        if re.fullmatch(k["obligation"], key):
            if k.get("requires_witness") and not (rr and rr.get("found") and rr.get("tag") == k.get("witness_tag")):
                continue
            return k
    return None


# ------------------------------------------------------------------ replay
def write_obligation_replay(pid, m):
    d = os.path.join(VERIF, "replays")
    os.makedirs(d, exist_ok=True)
    h = hashlib.sha256(obligation_key(m).encode()).hexdigest()[:10]
    path = os.path.join(d, f"{pid}-{re.sub(r'[^A-Za-z0-9_.]+', '_', m['name'])[:60]}-{h}.json")
    json.dump(dict(property=pid, kind="failed-obligation", obligation=obligation_key(m), name=m["name"], function=m["func"],
                   line=m["line"], task=m["task"], verdict=m["verdict"], backend=m["backend"], stage=m["stage"],
                   solver_reason=m.get("reason", ""), solver_model=(m.get("model") or "")[:6000], decisions=m["decisions"],
                   note="no failing input was found by the witness search; the obligation is discharged on the unchanged tree"),
              open(path, "w"), indent=1)
    return path


def run_replayer(pid, mod, failed, seed, tier):
    """ask the property's native harness (under /venv/bin/python, real code) for failing inputs"""
    script = os.path.join(VERIF, "replay", f"{pid}.py")
    if not os.path.exists(script):
        return {}
    req = dict(property=pid, seed=seed, tier=tier, repo=REPO,
               failed=[dict(key=obligation_key(m), name=m["name"], func=m["func"], line=m["line"], task=m["task"],
                            verdict=m["verdict"], model=(m.get("model") or "")[:20000]) for m in failed])
    d = os.path.join(VERIF, "replays")
    os.makedirs(d, exist_ok=True)
    reqf = os.path.join(d, f".req-{pid}-{os.getpid()}.json")
    json.dump(req, open(reqf, "w"))
    try:
        env = dict(os.environ)
        env["PYTHONPATH"] = os.path.join(REPO, "perception_eval") + os.pathsep + VERIF
        p = subprocess.run(["/venv/bin/python", script, "--search", reqf], capture_output=True, text=True, timeout=900, env=env)
        out = p.stdout.strip().splitlines()
        for l in reversed(out):
            if l.startswith("{"):
                return json.loads(l).get("results", {})
        sys.stderr.write(f"replayer produced no result: {p.stdout[-500:]} {p.stderr[-1500:]}\n")
        return {}
    except Exception as ex:
        sys.stderr.write(f"replayer failed: {ex}\n")
        return {}
    finally:
        try:
            os.unlink(reqf)
        except OSError:
            pass


def run_replay_file(pid, path):
    script = os.path.join(VERIF, "replay", f"{pid}.py")
    data = json.load(open(path))
    if data.get("kind") == "failed-obligation" or not os.path.exists(script):
        print(json.dumps(data, indent=1)[:4000])
        print(f"VIOLATION property={pid} replay={path} no-failing-input-found")
        return 1
    env = dict(os.environ)
    env["PYTHONPATH"] = os.path.join(REPO, "perception_eval") + os.pathsep + VERIF
    p = subprocess.run(["/venv/bin/python", script, "--replay", path], env=env)
    return p.returncode


# ------------------------------------------------------------------ evidence
def write_evidence(pid, tier, seed, P, gens, meta, real, canaries, failed, violations, undecided, known_hits, t_start, rc):
    from collections import Counter
    evdir = os.environ.get("PYVC_EVIDENCE_DIR") or os.path.join(VERIF, "evidence")
    os.makedirs(evdir, exist_ok=True)
    index = P.index
    funcs = {}
    for g in gens:
        for fq in g.get("functions", []):
            try:
                fi = index.lookup(fq) if ":" in fq else None
            except Exception:
                fi = None
            if fi is not None and hasattr(fi, "node"):
                funcs[fq] = dict(file=os.path.relpath(fi.module.path, REPO), lines=list(fi.span()), sha256=fi.sha256())
    under_contract = sorted({index.lookup(t.target).fq for t in P.tasks if t.kind == "verify"})
    by_backend = Counter((m["backend"] + ":" + m["stage"]) for m in real if m["verdict"] == m["expect"])
    discharged = sum(1 for m in real if m["verdict"] == m["expect"])
    known_n = sum(1 for _, m in known_hits if m.get("kind") != "bounded")
    slowest = sorted(real, key=lambda m: -m.get("time_s", 0))[:5]
    samples = []
    for m in (real[:3] + real[len(real) // 2: len(real) // 2 + 2] + real[-2:]):
        samples.append(dict(task=m["task"], function=m["func"], obligation=m["name"], line=m["line"], verdict=m["verdict"],
                            backend=m["backend"], stage=m["stage"], smt2_bytes=m["size"], path=m["decisions"][-6:]))
    externals = sorted({e for g in gens for e in g.get("externals", [])})
    ev = dict(
        property_id=pid, tier=tier, seed=seed, level="proof",
        coverage=dict(
            obligations=len(real) - known_n, discharged=discharged,
            checker_cmd=f"./check {pid} --tier {tier}",
            trusted_base=["z3 4.x/5.x (z3-solver wheel) and cvc5 1.0.3 as SMT back ends",
                          "the VC generator /verif/pyvc (symbolic interpreter of the Python subset stated in DESIGN.md 2.2)",
                          "floats treated as mathematical reals"] + P.trusted + [f"assumed external contract: {e}" for e in externals],
            samples=samples,
            functions_under_contract=under_contract,
            functions_read=funcs,
            tasks=[dict(task=g.get("task"), paths=g.get("paths"), returns=g.get("returns"), raises=g.get("raises"),
                        obligations=len(g["obligations"]), gen_s=g.get("gen_s"), error=g.get("error")) for g in gens],
            by_backend=dict(by_backend),
            solver_time_s=round(sum(m.get("time_s", 0) for m in meta), 3),
            slowest=[dict(obligation=m["name"], task=m["task"], time_s=m.get("time_s")) for m in slowest],
            vacuity_guards=dict(canaries=len(canaries), satisfiable=sum(1 for m in canaries if m["verdict"] == "sat"),
                                unknown=sum(1 for m in canaries if m["verdict"] == "unknown")),
            branch_covers=sum(len(g.get("covers", [])) for g in gens),
            failed=[dict(obligation=obligation_key(m), verdict=m["verdict"], line=m["line"]) for m in failed],
            known_findings=[dict(id=k["id"], obligation=obligation_key(m)) for k, m in known_hits],
            undecided=[obligation_key(m) for m in undecided],
            bounded=P.bounded + [dict(kind="native witness search on the real code (replay/%s.py), seeded small-scope inputs; decides nothing on a pass" % pid,
                                      **getattr(P, "bounded_run", {}))],
            uncovered_clauses=P.uncovered,
            extraction_drops=["docstrings", "type annotations", "logging.* / logger.* / warnings.warn / print calls",
                              "text of exception messages and f-strings (exception class kept)"],
            exit_code=rc,
        ),
        assumptions=P.assumptions + ["Python semantics as encoded in /verif/pyvc (DESIGN.md 2.2): unbounded ints, floats as reals, "
                                     "data-model == protocol, insertion-ordered dicts"],
        wall_s=round(time.time() - t_start, 2),
        violations=len({obligation_key(m) for m, _, _ in violations}),
    )
    json.dump(ev, open(os.path.join(evdir, f"{pid}.json"), "w"), indent=1)


if __name__ == "__main__":
    sys.exit(main())
