"""C12 — sensing counts exactly the points inside each box; every object classified once.

Point clouds are abstract sets of points (externals/cloud.py).  ONE contract is assumed, not proved: `common.point.crop_pointcloud(pc, area, inside)`
selects exactly the points of `pc` that are geometrically inside the prism `area` (inside=True) or exactly the others (inside=False) — the vectorised
numpy winding-number code behind it is outside the verifier and is checked by the bounded native harness against an independent point-in-polygon test.
Relative to that contract, the real code is verified: DynamicObject.crop_pointcloud / get_inside_pointcloud_num / point_exist (the object's own scaled
corners are what is passed), DynamicObjectWithSensingResult.__init__ (count, detected iff count >= threshold, occluded iff visibility NONE),
SensingFrameResult._evaluate_pointcloud_for_detection (each ground truth lands in exactly one of success / fail / warning, by those flags),
_evaluate_pointcloud_for_non_detection (a reported cloud holds exactly the points of its area's cloud that lie outside every scaled box, and is reported
iff it is non-empty), SensingFrameConfig.get_scale_factor, and the partition lemma.
"""
from pyvc.api import *
from pyvc.lemmas import count_fn, add_count_lemmas

PT = "common.point"
OB = "common.object"
SR = "evaluation.sensing.sensing_result"
SF = "evaluation.sensing.sensing_frame_result"
SC = "evaluation.sensing.sensing_frame_config"


def build(P):
    idx = P.index
    from pyvc.externals import cloud, vec
    P.install(cloud.install)
    P.min_obligations = 40
    add_count_lemmas(P)
    VIS = idx.lookup("common.schema:Visibility")
    P.model(ClassModel("DynamicObject", {"visibility": TEnum(VIS, nullable=True), "frame_id": TEnum(idx.lookup("common.schema:FrameID"))},
                       repo_class=idx.lookup(f"{OB}:DynamicObject")))
    res_cm = P.model(ClassModel("DynamicObjectWithSensingResult", {
        "ground_truth_object": TSObj("DynamicObject"), "inside_pointcloud": TOpaque("cloud"), "inside_pointcloud_num": TInt(),
        "is_detected": TBool(), "is_occluded": TBool(), "nearest_point": TOpaque("point")},
        repo_class=idx.lookup(f"{SR}:DynamicObjectWithSensingResult")))
    res_cm.alloc_smt = True
    DO = TSObj("DynamicObject")
    CLOUD = TOpaque("cloud")
    # ---------------------------------------------------------------- the one assumed geometric contract + the corners as functions of (object, scale)
    crop_assumed = Contract(f"{PT}:crop_pointcloud", params={}, returns=CLOUD,
                            ensures=E("exactly_the_points_on_the_requested_side_of_the_prism",
                                      "forall(p, cloud_has(result, p) == (cloud_has(pointcloud, p) and (inside_area(p, area) == inside)))"))
    corners_cut = Contract(f"{OB}:DynamicObject.get_corners", params={},
                           returns=lambda it, cf: VOpaque("corners", None, data={"rows": cloud.box_corners(it, cf.vars["self"], cf.vars["scale"])}))
    base = {idx.lookup(f"{PT}:crop_pointcloud").fq: crop_assumed, idx.lookup(f"{OB}:DynamicObject.get_corners").fq: corners_cut}
    P.trust("common.point.crop_pointcloud(pc, area, inside) returns exactly the points of pc geometrically inside the prism `area` (xy footprint and z range) when inside=True and "
            "exactly the remaining points when inside=False — ASSUMED (numpy winding-number code, checked only by the bounded harness)")
    P.trust("DynamicObject.get_corners(scale) is a function of the object and the scale (8 corner rows); its geometry is not modelled")
    # ---------------------------------------------------------------- the object's own crop: its own scaled corners, the requested side
    own = lambda side: f"forall(p, cloud_has(result, p) == (cloud_has(pointcloud, p) and (inside_box(p, self, bbox_scale) == {side})))"
    P.verify(f"{OB}:DynamicObject.crop_pointcloud", name="DynamicObject.crop_pointcloud",
             contract=Contract(f"{OB}:DynamicObject.crop_pointcloud", cut=False, params={"self": DO, "pointcloud": CLOUD, "bbox_scale": TReal(), "inside": TBool()},
                               ensures=E("points_on_the_requested_side_of_the_own_scaled_box", own("inside"))),
             extra_contracts=base)
    obj_crop = Contract(f"{OB}:DynamicObject.crop_pointcloud", params={}, returns=CLOUD,
                        ensures=E("points_on_the_requested_side_of_the_own_scaled_box", own("inside")))
    with_obj = dict(base, **{idx.lookup(f"{OB}:DynamicObject.crop_pointcloud").fq: obj_crop})
    P.verify(f"{OB}:DynamicObject.get_inside_pointcloud_num", name="DynamicObject.get_inside_pointcloud_num",
             contract=Contract(f"{OB}:DynamicObject.get_inside_pointcloud_num", cut=False, params={"self": DO, "pointcloud": CLOUD, "bbox_scale": TReal()},
                               ensures=E("positive_iff_some_point_of_the_cloud_is_inside_the_scaled_box",
                                         "(result > 0) == exists(p, cloud_has(pointcloud, p) and inside_box(p, self, bbox_scale))", "not_negative", "result >= 0")),
             extra_contracts=with_obj)
    P.verify(f"{OB}:DynamicObject.point_exist", name="DynamicObject.point_exist",
             contract=Contract(f"{OB}:DynamicObject.point_exist", cut=False, params={"self": DO, "pointcloud": CLOUD, "bbox_scale": TReal()},
                               ensures=E("true_iff_some_point_of_the_cloud_is_inside_the_scaled_box",
                                         "result == exists(p, cloud_has(pointcloud, p) and inside_box(p, self, bbox_scale))")),
             extra_contracts=with_obj)
    # partition: the inside and the outside selection of one cloud are disjoint and cover it (over the assumed contract's text)
    def partition(z3):
        I_, B_ = z3.IntSort(), z3.BoolSort()
        has_in, has_out, has_pc, ins = (z3.Function(n, I_, B_) for n in ("has_in", "has_out", "has_pc", "ins"))
        p, q = z3.Ints("p q")
        hy = [z3.ForAll([p], has_in(p) == z3.And(has_pc(p), ins(p) == True)), z3.ForAll([p], has_out(p) == z3.And(has_pc(p), ins(p) == False))]
        return hy, z3.And(z3.Not(z3.And(has_in(q), has_out(q))), z3.Or(has_in(q), has_out(q)) == has_pc(q))
    P.lemma("inside_and_outside_selections_partition_the_cloud", partition)
    # ---------------------------------------------------------------- one sensing result: count, detected, occluded
    nearest = Contract(f"{SR}:DynamicObjectWithSensingResult._get_nearest_point", params={}, returns=TOpaque("point"))
    RES = TSObj("DynamicObjectWithSensingResult")
    INB = lambda p, o, s: f"inside_box({p}, {o}, {s})"
    res_ens = E("inside_points_are_the_cloud_points_in_the_scaled_box",
                f"forall(p, cloud_has(self.inside_pointcloud, p) == (cloud_has(pointcloud, p) and {INB('p', 'ground_truth_object', 'scale_factor')}))",
                "count_is_the_size_of_that_selection", "self.inside_pointcloud_num == cloud_len(self.inside_pointcloud) and self.inside_pointcloud_num >= 0",
                "detected_iff_enough_points_inside", "self.is_detected == (self.inside_pointcloud_num >= min_points_threshold)",
                "occluded_iff_annotated_fully_occluded", "self.is_occluded == (ground_truth_object.visibility is Visibility.NONE)",
                "keeps_its_ground_truth", "self.ground_truth_object is ground_truth_object")
    P.verify(f"{SR}:DynamicObjectWithSensingResult.__init__", name="DynamicObjectWithSensingResult.__init__",
             contract=Contract(f"{SR}:DynamicObjectWithSensingResult.__init__", cut=False,
                               params={"self": RES, "ground_truth_object": DO, "pointcloud": CLOUD, "scale_factor": TReal(), "min_points_threshold": TInt()},
                               modifies=[("field", "DynamicObjectWithSensingResult", f) for f in res_cm.fields], ensures=res_ens),
             extra_contracts=dict(with_obj, **{idx.lookup(f"{SR}:DynamicObjectWithSensingResult._get_nearest_point").fq: nearest}))
    # ---------------------------------------------------------------- scale factor: linear in the distance
    CFG = idx.lookup(f"{SC}:SensingFrameConfig")
    mk_cfg = lambda it: (lambda o: (it.ctx.cell(o).update(box_scale_0m=TReal().fresh(it.ctx, "scale0"), box_scale_100m=TReal().fresh(it.ctx, "scale100"),
                                                            min_points_threshold=TInt().fresh(it.ctx, "min_points"), target_uuids=NONE), o)[1])(it.ctx.new_cell("obj", {}, CFG))
    P.verify(f"{SC}:SensingFrameConfig.__init__", name="SensingFrameConfig.__init__",
             contract=Contract(f"{SC}:SensingFrameConfig.__init__", cut=False,
                               params={"self": lambda it: it.ctx.new_cell("obj", {}, CFG), "target_uuids": NONE, "box_scale_0m": TReal(), "box_scale_100m": TReal(), "min_points_threshold": TInt()},
                               ensures=E("slope_per_metre", "self.scale_slope_ == (box_scale_100m - box_scale_0m) / 100 and self.box_scale_0m == box_scale_0m and "
                                                            "self.min_points_threshold == min_points_threshold")))

    def mk_cfg2(it):
        o = mk_cfg(it)
        c = it.ctx.cell(o)
        c["scale_slope_"] = VReal((c["box_scale_100m"].z - c["box_scale_0m"].z) / 100)
        return o
    P.verify(f"{SC}:SensingFrameConfig.get_scale_factor", name="SensingFrameConfig.get_scale_factor",
             contract=Contract(f"{SC}:SensingFrameConfig.get_scale_factor", cut=False, params={"self": mk_cfg2, "distance": TReal()},
                               ensures=E("linear_between_the_scales_at_0m_and_100m", "result == self.box_scale_0m + (self.box_scale_100m - self.box_scale_0m) * distance / 100",
                                         "scale_at_0m_and_100m", "implies(distance == 0, result == self.box_scale_0m) and implies(distance == 100, result == self.box_scale_100m)")))
    # ---------------------------------------------------------------- detection loop: each ground truth in exactly one list
    SFR = idx.lookup(f"{SF}:SensingFrameResult")
    RL = TSList(RES)

    def mk_frame(it):
        o = it.ctx.new_cell("obj", {}, SFR)
        it.ctx.cell(o).update(sensing_frame_config=mk_cfg2(it), detection_success_results=RL.fresh(it.ctx, "success"), detection_fail_results=RL.fresh(it.ctx, "fail"),
                              detection_warning_results=RL.fresh(it.ctx, "warning"), pointcloud_failed_non_detection=TSList(CLOUD).fresh(it.ctx, "failed_clouds"))
        return o
    dist_named = Contract(f"{OB}:DynamicObject.get_distance", params={}, returns=TReal(), ensures=E("named", "result == uf_real('distance_from_ego', self)"))
    # the scale of an object: get_scale_factor (verified above to be the linear interpolation) of its distance, as a named function inside the loops
    scale_named = Contract(f"{SC}:SensingFrameConfig.get_scale_factor", params={}, returns=TReal(), ensures=E("named", "result == uf_real('scale_at', self, distance)"))
    SCALE = lambda o: f"uf_real('scale_at', self.sensing_frame_config, uf_real('distance_from_ego', {o}))"
    ctor_cut = Contract(f"{SR}:DynamicObjectWithSensingResult.__init__", params={},
                        modifies=[("fieldof", "self", f) for f in res_cm.fields], ensures=res_ens)
    G = "ground_truth_objects"
    occl = lambda k: f"({G}[{k}].visibility is Visibility.NONE)"
    cnt_in = lambda k: f"uf_int('points_inside', {G}[{k}], pointcloud_for_detection, {SCALE(G + '[' + k + ']')})"
    det = lambda k: f"({cnt_in(k)} >= self.sensing_frame_config.min_points_threshold)"
    gw, dw = count_fn("warned_before")
    gs, ds = count_fn("succeeded_before")
    gf, df = count_fn("failed_before")
    W, S_, F_ = "self.detection_warning_results", "self.detection_success_results", "self.detection_fail_results"
    nG = f"len({G})"
    lists_ok = (f"not is_old({W}) or True")
    inv_det = E("list_lengths_count_each_class", f"len({W}) == old(len({W})) + warned_before(i) and len({S_}) == old(len({S_})) + succeeded_before(i) and "
                                                  f"len({F_}) == old(len({F_})) + failed_before(i)",
                "same_three_lists", f"{W} is old({W}) and {S_} is old({S_}) and {F_} is old({F_})",
                "warning_results_are_the_occluded_ground_truths",
                f"forall(k, 0, i, implies({occl('k')}, {W}[old(len({W})) + warned_before(k)].ground_truth_object is {G}[k]))",
                "success_results_are_the_detected_visible_ground_truths",
                f"forall(k, 0, i, implies((not {occl('k')}) and {det('k')}, {S_}[old(len({S_})) + succeeded_before(k)].ground_truth_object is {G}[k]))",
                "fail_results_are_the_undetected_visible_ground_truths",
                f"forall(k, 0, i, implies((not {occl('k')}) and not {det('k')}, {F_}[old(len({F_})) + failed_before(k)].ground_truth_object is {G}[k]))",
                "entries_exist", f"forall(k, 0, len({W}), allocated({W}[k])) and forall(k, 0, len({S_}), allocated({S_}[k])) and forall(k, 0, len({F_}), allocated({F_}[k]))",
                "earlier_entries_untouched", f"forall(k, 0, old(len({W})), {W}[k] is old({W}[k])) and forall(k, 0, old(len({S_})), {S_}[k] is old({S_}[k])) and "
                                             f"forall(k, 0, old(len({F_})), {F_}[k] is old({F_}[k]))",
                "input_untouched", f"len({G}) == old(len({G})) and forall(k, 0, len({G}), {G}[k] is old({G}[k]))")
    ctor_named = Contract(f"{SR}:DynamicObjectWithSensingResult.__init__", params={},
                          modifies=[("fieldof", "self", f) for f in res_cm.fields],
                          ensures=E("count_named", "self.inside_pointcloud_num == uf_int('points_inside', ground_truth_object, pointcloud, scale_factor)",
                                    "detected_iff_enough_points_inside", "self.is_detected == (self.inside_pointcloud_num >= min_points_threshold)",
                                    "occluded_iff_annotated_fully_occluded", "self.is_occluded == (ground_truth_object.visibility is Visibility.NONE)",
                                    "keeps_its_ground_truth", "self.ground_truth_object is ground_truth_object"))
    P.verify(f"{SF}:SensingFrameResult._evaluate_pointcloud_for_detection", name="SensingFrameResult._evaluate_pointcloud_for_detection",
             contract=Contract(f"{SF}:SensingFrameResult._evaluate_pointcloud_for_detection", cut=False,
                               params={"self": mk_frame, G: TSList(DO), "pointcloud_for_detection": CLOUD},
                               ghosts={"warned_before": gw, "succeeded_before": gs, "failed_before": gf},
                               defs=dw(occl, nG) + ds(lambda k: f"((not {occl(k)}) and {det(k)})", nG) + df(lambda k: f"((not {occl(k)}) and not {det(k)})", nG) +
                               [("classes.lemma.exhaustive_and_exclusive", f"forall(k, 0, {nG} + 1, warned_before(k) + succeeded_before(k) + failed_before(k) == k)")],
                               requires=E("three_separate_result_lists", f"distinct({W}, {S_}, {F_})",
                                          "existing_entries_exist", f"forall(k, 0, len({W}), allocated({W}[k])) and forall(k, 0, len({S_}), allocated({S_}[k])) and "
                                                                    f"forall(k, 0, len({F_}), allocated({F_}[k]))"),
                               modifies=[W, S_, F_],
                               loops={1: LoopSpec(index="i", invariants=inv_det, modifies=[W, S_, F_])},
                               ensures=E("every_ground_truth_lands_in_exactly_one_list",
                                         f"(len({W}) - old(len({W}))) + (len({S_}) - old(len({S_}))) + (len({F_}) - old(len({F_}))) == {nG}",
                                         "warning_iff_occluded_success_iff_detected_fail_otherwise",
                                         f"len({W}) == old(len({W})) + warned_before({nG}) and len({S_}) == old(len({S_})) + succeeded_before({nG}) and "
                                         f"len({F_}) == old(len({F_})) + failed_before({nG})",
                                         "each_result_carries_its_ground_truth",
                                         f"forall(k, 0, {nG}, implies({occl('k')}, {W}[old(len({W})) + warned_before(k)].ground_truth_object is {G}[k])) and "
                                         f"forall(k, 0, {nG}, implies((not {occl('k')}) and {det('k')}, {S_}[old(len({S_})) + succeeded_before(k)].ground_truth_object is {G}[k])) and "
                                         f"forall(k, 0, {nG}, implies((not {occl('k')}) and not {det('k')}, {F_}[old(len({F_})) + failed_before(k)].ground_truth_object is {G}[k]))")),
             extra_contracts={idx.lookup(f"{OB}:DynamicObject.get_distance").fq: dist_named, idx.lookup(f"{SC}:SensingFrameConfig.get_scale_factor").fq: scale_named,
                              idx.lookup(f"{SR}:DynamicObjectWithSensingResult.__init__").fq: ctor_named})

    # ---------------------------------------------------------------- non-detection loop: what remains of each area's cloud outside every scaled box
    from pyvc.lemmas import pred_fn
    PCS = "pointcloud_for_non_detection"
    FAILED = "self.pointcloud_failed_non_detection"
    outside_first = lambda p, k: f"forall(m, 0, {k}, not inside_box({p}, {G}[m], {SCALE(G + '[m]')}))"
    gr, dr = pred_fn("remains", 1)
    remains_x = lambda j: f"exists(p, cloud_has({PCS}[{j}], p) and {outside_first('p', nG)})"
    gk, dk = count_fn("reported_before")
    nP = f"len({PCS})"
    rep_at = lambda j: f"{FAILED}[old(len({FAILED})) + reported_before({j})]"
    exact = lambda c, j: f"forall(p, cloud_has({c}, p) == (cloud_has({PCS}[{j}], p) and {outside_first('p', nG)}))"
    inv_outer = E("reported_count", f"len({FAILED}) == old(len({FAILED})) + reported_before(j) and {FAILED} is old({FAILED})",
                  "reported_clouds_are_the_remainders", f"forall(c, 0, j, implies(remains(c), {exact(rep_at('c'), 'c')}))",
                  "earlier_entries_untouched", f"forall(c, 0, old(len({FAILED})), same_cloud({FAILED}[c], old({FAILED}[c])))",
                  "inputs_untouched", f"len({PCS}) == old(len({PCS})) and len({G}) == old(len({G})) and forall(c, 0, len({G}), {G}[c] is old({G}[c]))")
    inv_inner = E("outer_state", f"0 <= j and j < {nP} and len({FAILED}) == old(len({FAILED})) + reported_before(j) and {FAILED} is old({FAILED})",
                  "points_left_are_those_outside_the_boxes_seen_so_far",
                  f"forall(p, cloud_has(point_non_detection, p) == (cloud_has({PCS}[j], p) and {outside_first('p', 'k')}))",
                  "reported_clouds_are_the_remainders", f"forall(c, 0, j, implies(remains(c), {exact(rep_at('c'), 'c')}))",
                  "earlier_entries_untouched", f"forall(c, 0, old(len({FAILED})), same_cloud({FAILED}[c], old({FAILED}[c])))",
                  "inputs_untouched", f"len({PCS}) == old(len({PCS})) and len({G}) == old(len({G})) and forall(c, 0, len({G}), {G}[c] is old({G}[c]))")
    P.verify(f"{SF}:SensingFrameResult._evaluate_pointcloud_for_non_detection", name="SensingFrameResult._evaluate_pointcloud_for_non_detection",
             contract=Contract(f"{SF}:SensingFrameResult._evaluate_pointcloud_for_non_detection", cut=False,
                               params={"self": mk_frame, G: TSList(DO), PCS: TSList(CLOUD)},
                               locals={"point_non_detection": CLOUD},
                               ghosts={"remains": gr, "reported_before": gk}, defs=dr(remains_x, nP) + dk(lambda j: f"remains({j})", nP),
                               requires=E("the_report_list_is_not_the_input_list", f"{FAILED} is not {PCS}"),
                               modifies=[FAILED],
                               loops={1: LoopSpec(index="j", invariants=inv_outer, modifies=[FAILED]), 2: LoopSpec(index="k", invariants=inv_inner, modifies=[FAILED])},
                               ensures=E("one_report_per_area_with_points_outside_every_box", f"len({FAILED}) == old(len({FAILED})) + reported_before({nP})",
                                         "a_report_holds_exactly_the_area_points_outside_every_scaled_box",
                                         f"forall(c, 0, {nP}, implies(remains(c), {exact(rep_at('c'), 'c')}))")),
             extra_contracts=dict(base, **{idx.lookup(f"{OB}:DynamicObject.get_distance").fq: dist_named,
                                           idx.lookup(f"{SC}:SensingFrameConfig.get_scale_factor").fq: scale_named}))

    # ---------------------------------------------------------------- the manager's pre-crop: per area, the cloud's points inside the area and outside EVERY scaled box
    MGR = idx.lookup("manager.sensing_evaluation_manager:SensingEvaluationManager")
    AREAS, CR = "non_detection_areas", "cropped_pointcloud"

    def mk_mgr(it):
        cfg = it.ctx.new_cell("obj", {}, idx.lookup("config.sensing_evaluation_config:SensingEvaluationConfig"))
        it.ctx.cell(cfg).update(metrics_params=it.ctx.new_cell("dict", ([VStr("box_scale_0m"), VStr("box_scale_100m")],
                                                                        [VReal(it.ctx.fresh("scale0", R)), VReal(it.ctx.fresh("scale100", R))])))
        o = it.ctx.new_cell("obj", {}, MGR)
        it.ctx.cell(o).update(evaluator_config=cfg)
        return o
    B0, B100 = "self.evaluator_config.metrics_params['box_scale_0m']", "self.evaluator_config.metrics_params['box_scale_100m']"
    MSCALE = lambda o: f"(0.01 * ({B100} - {B0}) * uf_real('distance_from_ego', {o}) + {B0})"
    m_outside = lambda p, k: f"forall(m, 0, {k}, not inside_box({p}, {G}[m], {MSCALE(G + '[m]')}))"
    in_area = lambda c, j: f"forall(p, cloud_has({c}, p) == (cloud_has(pointcloud, p) and inside_area(p, {AREAS}[{j}])))"
    done = lambda c, j: f"forall(p, cloud_has({c}, p) == (cloud_has(pointcloud, p) and inside_area(p, {AREAS}[{j}]) and {m_outside('p', nG)}))"
    m_untouched = f"len({AREAS}) == old(len({AREAS})) and len({G}) == old(len({G})) and forall(c, 0, len({G}), {G}[c] is old({G}[c]))"
    P.verify("manager.sensing_evaluation_manager:SensingEvaluationManager.crop_pointcloud", name="SensingEvaluationManager.crop_pointcloud",
             contract=Contract("manager.sensing_evaluation_manager:SensingEvaluationManager.crop_pointcloud", cut=False,
                               params={"self": mk_mgr, G: TSList(DO), "pointcloud": CLOUD, AREAS: TSList(TOpaque("area")), "transforms": NONE},
                               locals={CR: TSList(CLOUD), "outside_points": CLOUD, "points": CLOUD},
                               loops={1: LoopSpec(index="a", invariants=E(
                                          "one_cloud_per_area_so_far", f"not is_old({CR}) and allocated({CR}) and len({CR}) == a",
                                          "each_holds_the_points_inside_its_area", f"forall(c, 0, a, {in_area(CR + '[c]', 'c')})", "inputs_untouched", m_untouched)),
                                      2: LoopSpec(index="i", invariants=E(
                                          "one_cloud_per_area", f"not is_old({CR}) and allocated({CR}) and len({CR}) == len({AREAS})",
                                          "finished_areas_hold_the_points_outside_every_scaled_box", f"forall(c, 0, i, {done(CR + '[c]', 'c')})",
                                          "the_others_still_hold_the_points_inside_their_area", f"forall(c, i, len({AREAS}), {in_area(CR + '[c]', 'c')})", "inputs_untouched", m_untouched)),
                                      3: LoopSpec(index="k", invariants=E(
                                          "one_cloud_per_area", f"not is_old({CR}) and allocated({CR}) and len({CR}) == len({AREAS}) and 0 <= i and i < len({AREAS})",
                                          "points_left_are_those_outside_the_boxes_seen_so_far",
                                          f"forall(p, cloud_has(outside_points, p) == (cloud_has(pointcloud, p) and inside_area(p, {AREAS}[i]) and {m_outside('p', 'k')}))",
                                          "finished_areas_hold_the_points_outside_every_scaled_box", f"forall(c, 0, i, {done(CR + '[c]', 'c')})",
                                          "the_others_still_hold_the_points_inside_their_area", f"forall(c, i, len({AREAS}), {in_area(CR + '[c]', 'c')})", "inputs_untouched", m_untouched))},
                               ensures=E("one_cloud_per_area", f"len(result) == len({AREAS})",
                                         "each_holds_exactly_the_points_inside_its_area_and_outside_every_scaled_box", f"forall(c, 0, len({AREAS}), {done('result[c]', 'c')})")),
             extra_contracts=dict(with_obj, **{idx.lookup(f"{OB}:DynamicObject.get_distance").fq: dist_named}))

    # ---------------------------------------------------------------- the manager's add_frame_result: who gets which objects and clouds
    # the pre-crop sees EVERY annotated object of the frame (a box of an object outside target_uuids still shields its points), the frame evaluation the
    # filtered ones; detection is evaluated on the whole cloud, non-detection on the pre-cropped clouds
    SEM = "manager.sensing_evaluation_manager:SensingEvaluationManager"
    FGT = idx.lookup("common.dataset:FrameGroundTruth")

    def mk_mgr2(it):
        o = mk_mgr(it)
        it.ctx.cell(o).update(frame_results=it.ctx.new_cell("list", []))
        return o

    def mk_gt_frame(it):
        o = it.ctx.new_cell("obj", {}, FGT)
        it.ctx.cell(o).update(objects=TSList(DO).fresh(it.ctx, "annotated"), transforms=VOpaque("transformdict", it.ctx.fresh("tf", I)), frame_name=VStr("7"), unix_time=VInt(it.ctx.fresh("t", I)))
        return o

    def sfr_cut(it, cf):
        o = it.ctx.new_cell("obj", {}, SFR)
        it.ctx.cell(o).update(sensing_frame_config=cf.vars["sensing_frame_config"], unix_time=cf.vars["unix_time"], frame_name=cf.vars["frame_name"],
                              seen_gt=NONE, seen_det=NONE, seen_nondet=NONE)
        return o
    wiring = {
        idx.lookup(f"{SEM}.crop_pointcloud").fq: Contract(f"{SEM}.crop_pointcloud", params={}, returns=TSList(CLOUD),
                                                          ensures=E("named", "uf_bool('pre_cropped', result, ground_truth_objects, pointcloud, non_detection_areas, transforms) and is_new(result)")),
        idx.lookup(f"{SEM}._filter_objects").fq: Contract(f"{SEM}._filter_objects", params={}, returns=TSList(DO),
                                                          ensures=E("named", "uf_bool('targets_of', result, frame_ground_truth.objects, sensing_frame_config) and is_new(result)")),
        SFR.fq: Contract(f"{SF}:SensingFrameResult", returns=sfr_cut),
        idx.lookup(f"{SF}:SensingFrameResult.evaluate_frame").fq: Contract(f"{SF}:SensingFrameResult.evaluate_frame", params={},
                                                                           assigns={"self.seen_gt": "ground_truth_objects", "self.seen_det": "pointcloud_for_detection",
                                                                                    "self.seen_nondet": "pointcloud_for_non_detection"}),
    }
    P.verify(f"{SEM}.add_frame_result", name="SensingEvaluationManager.add_frame_result",
             contract=Contract(f"{SEM}.add_frame_result", cut=False,
                               params={"self": mk_mgr2, "unix_time": TInt(), "ground_truth_now_frame": mk_gt_frame, "pointcloud": CLOUD, AREAS: TSList(TOpaque("area")),
                                       "sensing_frame_config": lambda it: mk_cfg2(it)},
                               modifies=[("attrs", "self.frame_results")],
                               ensures=E("boxes_of_all_annotated_objects_shield_the_non_detection_clouds",
                                         f"uf_bool('pre_cropped', result.seen_nondet, ground_truth_now_frame.objects, pointcloud, {AREAS}, ground_truth_now_frame.transforms)",
                                         "the_frame_is_evaluated_on_the_target_objects_and_the_whole_cloud",
                                         "uf_bool('targets_of', result.seen_gt, ground_truth_now_frame.objects, sensing_frame_config) and result.seen_det is pointcloud",
                                         "stamped_and_configured", "result.unix_time == unix_time and result.frame_name == ground_truth_now_frame.frame_name and result.sensing_frame_config is sensing_frame_config",
                                         "recorded_once", "len(self.frame_results) == 1 and self.frame_results[0] is result",
                                         "the_frame_is_only_read", "ground_truth_now_frame.objects is old(ground_truth_now_frame.objects) and len(ground_truth_now_frame.objects) == old(len(ground_truth_now_frame.objects))")),
             extra_contracts=wiring)

    # ---------------------------------------------------------------- evaluate_frame: both evaluations always run, on the arguments given
    def mk_frame2(it):
        o = mk_frame(it)
        it.ctx.cell(o).update(seen_det=NONE, seen_det_cloud=NONE, seen_nondet=NONE, seen_nondet_clouds=NONE)
        return o
    det_cut = Contract(f"{SF}:SensingFrameResult._evaluate_pointcloud_for_detection", params={},
                       assigns={"self.seen_det": "ground_truth_objects", "self.seen_det_cloud": "pointcloud_for_detection"})
    nondet_cut = Contract(f"{SF}:SensingFrameResult._evaluate_pointcloud_for_non_detection", params={},
                          assigns={"self.seen_nondet": "ground_truth_objects", "self.seen_nondet_clouds": "pointcloud_for_non_detection"})
    P.verify(f"{SF}:SensingFrameResult.evaluate_frame", name="SensingFrameResult.evaluate_frame",
             contract=Contract(f"{SF}:SensingFrameResult.evaluate_frame", cut=False,
                               params={"self": mk_frame2, G: TSList(DO), "pointcloud_for_detection": CLOUD, PCS: TSList(CLOUD)},
                               modifies=[("attr", "self", a) for a in ("seen_det", "seen_det_cloud", "seen_nondet", "seen_nondet_clouds")],
                               ensures=E("objects_are_classified_against_the_detection_cloud",
                                         f"implies(len({G}) > 0, self.seen_det is {G} and same_cloud(self.seen_det_cloud, pointcloud_for_detection))",
                                         "non_detection_areas_are_always_evaluated_against_the_same_objects",
                                         f"self.seen_nondet is {G} and self.seen_nondet_clouds is {PCS}")),
             extra_contracts={idx.lookup(f"{SF}:SensingFrameResult._evaluate_pointcloud_for_detection").fq: det_cut,
                              idx.lookup(f"{SF}:SensingFrameResult._evaluate_pointcloud_for_non_detection").fq: nondet_cut})

    def one_of_three(z3):
        # the three classes are exhaustive and exclusive, so the three counts add up to the number of ground truths (induction step)
        I_, B_ = z3.IntSort(), z3.BoolSort()
        cw, cs, cf = (z3.Function(n, I_, I_) for n in ("cw", "cs", "cf"))
        oc, dt = z3.Function("oc", I_, B_), z3.Function("dt", I_, B_)
        k = z3.Int("k")
        hy = [k >= 0, cw(k) + cs(k) + cf(k) == k, cw(k + 1) == cw(k) + z3.If(oc(k), 1, 0),
              cs(k + 1) == cs(k) + z3.If(z3.And(z3.Not(oc(k)), dt(k)), 1, 0), cf(k + 1) == cf(k) + z3.If(z3.And(z3.Not(oc(k)), z3.Not(dt(k))), 1, 0)]
        return hy, cw(k + 1) + cs(k + 1) + cf(k + 1) == k + 1
    P.lemma("warned_plus_succeeded_plus_failed_is_every_ground_truth.step", one_of_three)
    P.lemma("warned_plus_succeeded_plus_failed_is_every_ground_truth.base", lambda z3: ([], z3.IntVal(0) + 0 + 0 == 0))
    P.uncover("crop_pointcloud's numpy body (winding number with a uint8 counter, z range), get_corners geometry, 'enlarging the scale never removes an inside point', "
              "and SensingEvaluationManager.crop_pointcloud: bounded native harness only")
    P.bounded.append(dict(what="the assumed contract of crop_pointcloud and the end-to-end clauses on the real code: inside selection = independent ray-casting test + z range (boxes at any "
                               "pose / scale, polygonal prisms in both vertex orders, extra intensity column), inside/outside partition, enlarging the scale keeps inside points, "
                               "SensingFrameResult.evaluate_frame classification and non-detection remainders",
                          bound="150 random boxes x up to 40 points + 60 random frames (0-3 objects) per run; points within 1e-6 of a boundary are skipped", where="replay/C12.py"))
    P.assume("point clouds are sets of point ids: duplicates and the order of rows are not modelled; len(cloud) is non-zero iff the set is non-empty")
