"""pyquaternion.Quaternion as an abstract sort (assumed contracts).

yaw_pitch_roll: ZYX Euler angles of the rotation, yaw in (-pi, pi], pitch in [-pi/2, pi/2], roll in (-pi, pi]; q and -q denote
the same rotation and have the same angles.  `radians` is the signed rotation angle about the quaternion's own axis in (-pi, pi]
(for a yaw-only quaternion sgn(w)*|yaw|): only its range is assumed."""
import z3
from ..values import *

YAW = z3.Function("quat_yaw", I, R)
PITCH = z3.Function("quat_pitch", I, R)
ROLL = z3.Function("quat_roll", I, R)
RADIANS = z3.Function("quat_radians", I, R)
PI = z3.Real("pi")


def pi_facts(ctx):
    if "pi" not in ctx.literals:
        ctx.literals.add("pi")
        ctx.add_definition(z3.And(PI > z3.RealVal("3.14159265358979"), PI < z3.RealVal("3.14159265358980")))


def _ypr(interp, q, node):
    ctx = interp.ctx
    pi_facts(ctx)
    y, p, r = YAW(q.z), PITCH(q.z), ROLL(q.z)
    ctx.assume(z3.And(-PI < y, y <= PI, -PI / 2 <= p, p <= PI / 2, -PI < r, r <= PI))
    return VTuple((VReal(y), VReal(p), VReal(r)))


def _radians(interp, q, node):
    pi_facts(interp.ctx)
    a = RADIANS(q.z)
    interp.ctx.assume(z3.And(-PI < a, a <= PI))
    return VReal(a)


HANDLERS = {}
ATTRS = {("quaternion", "yaw_pitch_roll"): _ypr, ("quaternion", "radians"): _radians}


def spec_yaw(interp, e, fr):
    q = interp.ev(e.args[0], fr)
    return _ypr(interp, q, e).items[0]


def spec_wrap(interp, e, fr):
    """wrap_pi(x): x brought into [-pi, pi] by at most one turn (x is a difference/sum of two angles)"""
    x = interp.ev(e.args[0], fr).z
    pi_facts(interp.ctx)
    return VReal(z3.If(x > PI, x - 2 * PI, z3.If(x < -PI, x + 2 * PI, x)))


def spec_pi(interp, e, fr):
    pi_facts(interp.ctx)
    return VReal(PI)


SPEC_FUNCS = {"yaw_of": spec_yaw, "wrap_pi": spec_wrap, "PI": spec_pi}
