"""Builtin functions, builtin types' methods, and the dispatch to external (assumed) contracts."""
from __future__ import annotations

import ast

import z3

from .values import *
from .ctx import NeedFork, PathEnd
from .ops import vconst, is_num, to_real_z, to_int_z


import math as _math

STR_IS_INT = z3.Function("py_str_is_int_literal", S, B)
STR_TO_INT = z3.Function("py_int_of_str", S, I)


class Builtins:
    ext_attrs_plain = {
        "numpy.nan": lambda it, node: vconst(float("nan")),
        "numpy.inf": lambda it, node: vconst(float("inf")),
        "math.inf": lambda it, node: vconst(float("inf")),
        "numpy.pi": lambda it, node: it.pi_value(),
        "math.pi": lambda it, node: it.pi_value(),
    }

    def pi_value(self):
        """pi as a symbolic real constant constrained to a rational enclosure (trigonometry is uninterpreted anyway)"""
        pi = z3.Real("pi")
        f = z3.And(pi > z3.RealVal("3.14159265358979"), pi < z3.RealVal("3.14159265358980"))
        if "pi" not in self.ctx.literals:
            self.ctx.literals.add("pi")
            self.ctx.add_definition(f)
        return VReal(pi)

    # ------------------------------------------------------------------ dict / set helpers
    def key_eq_static(self, a, b, node):
        """python bool: are the (concrete) keys a and b equal? symbolic keys are rejected"""
        r = z3.simplify(self.py_eq(a, b, node))
        if z3.is_true(r):
            return True
        if z3.is_false(r):
            return False
        raise NeedFork("symbolic dict key") if self.ctx.no_branch else _SymKey(r)

    def dict_set_raw(self, keys, vals, k, v, node):
        for i, kk in enumerate(keys):
            try:
                same = self.key_eq_static(kk, k, node)
            except _SymKey as sk:
                # equality of the two keys depends on symbolic data: a branch of the path (not available in spec / merged evaluation)
                if self.spec or self.ctx.no_branch:
                    raise EngineError(f"dict store with a symbolic key (line {getattr(node, 'lineno', '?')})")
                same = self.ctx.branch(sk.cond, f"dictkey@{getattr(node, 'lineno', 0)}")
            if same:
                vals[i] = v
                return
        keys.append(k)
        vals.append(v)

    def dict_get(self, d, k, node, default=None, has_default=False):
        keys, vals = self.ctx.cell(d)
        # keys are compared in insertion order; a comparison that depends on symbolic data is a branch of the path
        # (merged into an if-then-else in spec / merged evaluation)
        merged = self.spec or self.ctx.no_branch
        pending = []
        for kk, v in zip(keys, vals):
            c = z3.simplify(self.py_eq(kk, k, node))
            if z3.is_true(c):
                if not pending:
                    return v
                pending.append((c, v))
                break
            if z3.is_false(c):
                continue
            if merged:
                pending.append((c, v))
            elif self.ctx.branch(c, f"dictkey@{getattr(node, 'lineno', 0)}"):
                return v
        else:
            if not pending:
                if has_default:
                    return default
                if not self.spec:
                    self.ctx.oblige("safety.key_present", z3.BoolVal(False), node)
                raise self.PyRaise(VExc("KeyError"), node)
        if has_default:
            res = default
        else:
            res = None
            if not self.spec and not z3.is_true(pending[-1][0]):
                anyc = z3.Or(*[c for c, _ in pending])
                self.ctx.oblige("safety.key_present", anyc, node)
                self.ctx.assume(anyc)
        for c, v in reversed(pending):
            res = v if res is None else self.merge(c, v, res)
        return res

    def make_set(self, items, node):
        """concrete-spine set; elements whose equality is symbolic are kept side by side (only membership / inclusion are used)"""
        out = []
        for x in items:
            dup = False
            for y in out:
                r = z3.simplify(self.py_eq(y, x, node))
                if z3.is_true(r):
                    dup = True
                    break
            if not dup:
                out.append(x)
        return self.ctx.new_cell("set", out)

    def set_compare(self, op, a, b, node):
        A, Bs = self.ctx.cell(a), self.ctx.cell(b)
        def sub(X, Y):
            return z3.And(*[z3.Or(*[self.py_eq(y, x, node) for y in Y]) if Y else z3.BoolVal(False) for x in X]) if X else z3.BoolVal(True)
        le, ge = sub(A, Bs), sub(Bs, A)
        r = {ast.LtE: le, ast.GtE: ge, ast.Lt: z3.And(le, z3.Not(ge)), ast.Gt: z3.And(ge, z3.Not(le))}[type(op)]
        return VBool(z3.simplify(r))

    # ------------------------------------------------------------------ class of a value (isinstance / type)
    def static_classes(self, v):
        """set of class names (and ClassInfo) a value is an instance of, when statically known"""
        k = v.kind
        if k == "bool":
            return {"bool", "int", "object"}
        if k == "int":
            return {"int", "object"}
        if k == "real":
            return {"float", "object"}
        if k == "str":
            return {"str", "object"}
        if k == "none":
            return {"NoneType", "object"}
        if k == "tuple":
            return {"tuple", "object", "Sequence"}
        if k == "slist":
            return {"list", "object", "Sequence"}
        if k == "ref":
            if v.rkind == "obj":
                return {c.name for c in v.cls.mro(self.index)} | {"object"} | {b for c in v.cls.mro(self.index) for b in c.bases(self.index) if isinstance(b, str)}
            return {v.rkind, "object"} | ({"Sequence"} if v.rkind == "list" else set())
        if k == "enum":
            return {c.name for c in v.ecls.mro(self.index)} | {"Enum", "object"}
        if k == "sobj":
            cm = self.class_models.get(v.cname)
            if cm is not None and cm.repo_class is not None:
                return {c.name for c in cm.repo_class.mro(self.index)} | {"object"}
            return {v.cname, "object"}
        if k == "opaque":
            return {{"ndarray": "ndarray", "quaternion": "Quaternion", "polygon": "Polygon"}.get(v.tag, v.tag), "object", "np.ndarray"}
        if k == "exc":
            return {v.cname, "Exception", "object"}
        if k == "opaque" and v.tag == "symiter":
            return {"range", "object"}
        if k in ("func", "lambda", "ext"):
            return {"function", "object"}
        if k == "class":
            return {"type", "object"}
        raise EngineError(f"static class of {v}")

    def class_name_of(self, c):
        if c.kind == "class":
            return c.cls if isinstance(c.cls, str) else c.cls.name
        if c.kind == "ext":
            d = c.dotted
            return {"numpy.ndarray": "ndarray", "np.ndarray": "ndarray", "pyquaternion.Quaternion": "Quaternion",
                    "pyquaternion.quaternion.Quaternion": "Quaternion", "shapely.geometry.Polygon": "Polygon",
                    "float": "float", "numbers.Number": "Number", "typing.Sequence": "Sequence"}.get(d, d.split(".")[-1])
        if c.kind == "none":
            return "NoneType"
        raise EngineError(f"class argument {c}")

    def isinstance_z(self, v, c, node):
        if c.kind == "tuple":
            return z3.Or(*[self.isinstance_z(v, x, node) for x in c.items]) if c.items else z3.BoolVal(False)
        name = self.class_name_of(c)
        if v.kind == "opt":
            inner = self.isinstance_z(v.inner, c, node)
            return z3.And(z3.Not(v.isnone), inner) if name != "NoneType" else v.isnone
        if v.kind == "dyn":
            return self.dyn_isinstance(v, name, node)
        if v.kind in ("sobj", "slist") and v.nullable:
            nz = v.z != 0
            if name == "NoneType":
                return z3.Not(nz)
            return z3.And(nz, z3.BoolVal(name in self.static_classes(v)))
        if v.kind == "enum" and not isinstance(v.idx, int):
            return z3.And(v.idx >= 0, z3.BoolVal(name in self.static_classes(v)))
        return z3.BoolVal(name in self.static_classes(v))

    # ------------------------------------------------------------------ builtin classes called as functions
    def call_builtin_class(self, name, args, kwargs, node):
        if name in ("ValueError", "TypeError", "KeyError", "RuntimeError", "NotImplementedError", "AssertionError",
                    "IndexError", "Exception", "AttributeError", "FileNotFoundError"):
            return VExc(name, tuple(args))
        if name == "list":
            if not args:
                return self.ctx.new_cell("list", [])
            if args[0].kind == "slist":
                return self.slist_copy(args[0], node)
            return self.ctx.new_cell("list", self.iter_concrete(args[0], node))
        if name == "tuple":
            return VTuple(self.iter_concrete(args[0], node)) if args else VTuple(())
        if name == "set":
            return self.make_set(self.iter_concrete(args[0], node) if args else [], node)
        if name == "dict":
            if args:
                ks, vs = self.ctx.cell(args[0])
                return self.ctx.new_cell("dict", (list(ks), list(vs)))
            return self.ctx.new_cell("dict", ([VStr(k) for k in kwargs], list(kwargs.values())))
        if name == "float":
            v = self.unwrap(args[0], node)
            if v.kind == "real":
                return v
            if v.kind in ("int", "bool"):
                return VReal(to_real_z(v))
            if v.kind == "str" and v.const is not None:
                return vconst(float(v.const))
            if v.kind == "opaque":
                return self.call_ext("numpy.item", [v], {}, node)
        if name == "int":
            v = self.unwrap(args[0], node)
            if v.kind == "int":
                return v
            if v.kind == "bool":
                return VInt(to_int_z(v))
            if v.kind == "real":
                # truncation toward zero
                f = z3.ToInt(v.z)
                return VInt(z3.If(v.z >= 0, f, z3.If(z3.ToReal(f) == v.z, f, f + 1)))
            if v.kind == "str":
                # int(str): an uninterpreted parse; ValueError where the text is not an integer literal (a branch of the caller)
                if v.const is not None:
                    try:
                        return VInt(int(v.const))
                    except ValueError:
                        from .interp import PyRaise
                        raise PyRaise(VExc("ValueError"), node)
                ok = STR_IS_INT(v.z)
                if not self.spec:
                    if self.ctx.no_branch:
                        self.ctx.oblige("safety.int_of_integer_literal", ok, node)
                        self.ctx.assume(ok)
                    elif not self.ctx.branch(ok, f"int_of_str@{getattr(node, 'lineno', 0)}"):
                        from .interp import PyRaise
                        raise PyRaise(VExc("ValueError"), node)
                return VInt(STR_TO_INT(v.z))
        if name == "bool":
            return VBool(z3.simplify(self.truth(args[0], node)))
        if name == "str":
            v = args[0]
            if v.kind == "str":
                return v
            if v.kind == "enum" or (v.kind == "ref" and v.rkind == "obj"):
                cls = v.ecls if v.kind == "enum" else v.cls
                f = cls.find_method(self.index, "__str__")
                if f is not None:
                    return self.call_function(f, [v], {}, node)
                if v.kind == "enum" and v.const is not None:
                    return VStr(f"{cls.name}.{self.ctx.enum_members(cls)[v.const][0]}")
            if v.kind == "int":
                if v.const is not None:
                    return VStr(str(v.const))
                return VStr(z3.IntToStr(v.z))
            return VStr(self.ctx.fresh("str_of", S))
        if name == "range":
            vals = [self.unwrap(a, node) for a in args]
            if all(v.kind == "int" and v.const is not None for v in vals):
                return VTuple([VInt(i) for i in range(*[v.const for v in vals])])
            if len(vals) == 1:
                n = to_int_z(vals[0])
                n0 = z3.If(n > 0, n, z3.IntVal(0))
                return VOpaque("symiter", data={"sym": (n0, lambda k: VInt(k), [])})
            if len(vals) == 2:
                lo, hi = to_int_z(vals[0]), to_int_z(vals[1])
                n0 = z3.If(hi > lo, hi - lo, z3.IntVal(0))
                return VOpaque("symiter", data={"sym": (n0, lambda k: VInt(lo + k), [])})
            raise EngineError("symbolic range with step")
        if name == "enumerate":
            start = kwargs.get("start", args[1] if len(args) > 1 else VInt(0))
            sym = self.symbolic_iter(args[0], node)
            if sym is None:
                items = self.iter_concrete(args[0], node)
                return VTuple([VTuple((self.binop(ast.Add(), start, VInt(i), node), x)) for i, x in enumerate(items)])
            n, at, ls = sym
            sz = to_int_z(start)
            return VOpaque("symiter", data={"sym": (n, lambda k: VTuple((VInt(sz + k), at(k))), ls)})
        if name == "zip":
            syms = [self.symbolic_iter(a, node) for a in args]
            if all(s is None for s in syms):
                cols = [self.iter_concrete(a, node) for a in args]
                return VTuple([VTuple(t) for t in zip(*cols)])
            if any(s is None for s in syms):
                raise EngineError("zip of concrete and symbolic iterables")
            n = syms[0][0]
            for s in syms[1:]:
                n = z3.If(s[0] < n, s[0], n)
            return VOpaque("symiter", data={"sym": (n, lambda k: VTuple([s[1](k) for s in syms]), [l for s in syms for l in s[2]])})
        if name == "reversed":
            sym = self.symbolic_iter(args[0], node)
            if sym is None:
                return VTuple(list(reversed(self.iter_concrete(args[0], node))))
            n, at, ls = sym
            return VOpaque("symiter", data={"sym": (n, lambda k: at(n - 1 - k), ls)})
        if name == "type":
            v = args[0]
            return self.type_of(v, node)
        if name == "object":
            return self.ctx.new_cell("obj", {}, None)
        raise EngineError(f"builtin class call {name}({args}) (line {getattr(node, 'lineno', '?')})")

    def type_of(self, v, node):
        if v.kind == "ref" and v.rkind == "obj":
            return VClass(v.cls)
        if v.kind == "enum":
            return VClass(v.ecls)
        if v.kind == "sobj":
            cm = self.class_models.get(v.cname)
            if cm is not None and getattr(cm, "dynamic_type", None):
                return cm.dynamic_type(self, v)
            return VClass(cm.repo_class if cm and cm.repo_class else v.cname)
        names = {"int": "int", "real": "float", "str": "str", "bool": "bool", "tuple": "tuple", "slist": "list", "none": "NoneType"}
        if v.kind in names:
            return VClass(names[v.kind])
        if v.kind == "ref":
            return VClass(v.rkind)
        if v.kind == "opaque":
            return VClass(v.tag)
        raise EngineError(f"type() of {v}")

    # ------------------------------------------------------------------ externals / builtin functions
    def call_ext(self, dotted, args, kwargs, node):
        h = self.externals.get(dotted)
        if h is not None:
            return h(self, args, kwargs, node)
        m = getattr(self, "bi_" + dotted.replace(".", "_"), None)
        if m is not None:
            return m(args, kwargs, node)
        if dotted.startswith(("typing.", "abc.")):
            return VExt(dotted)
        raise EngineError(f"no contract for external call {dotted} (line {getattr(node, 'lineno', '?')})")

    @property
    def PyRaise(self):
        from .interp import PyRaise
        return PyRaise

    def bi_object___eq__(self, args, kwargs, node):
        # object.__eq__: True when identical, else NotImplemented
        c = z3.simplify(self.identical_or_false(args[0], args[1]))
        if z3.is_true(c):
            return VBool(True)
        if z3.is_false(c):
            return NOTIMPL
        if args[0].kind == "enum" and args[1].kind == "enum" and args[0].ecls is args[1].ecls:
            # both sides run the same __eq__: NotImplemented on both ends in identity, i.e. the answer is `is`
            return VBool(c)
        if self.ctx.no_branch or self.spec:
            # merged evaluation: NotImplemented falls through to reflected operand / identity, i.e. False here
            # only when the other operand defines no __eq__ of its own
            if self.user_eq(args[1]) is None:
                return VBool(c)
            raise NeedFork("object.__eq__")
        return VBool(True) if self.ctx.branch(c, f"objeq@{getattr(node, 'lineno', 0)}") else NOTIMPL

    def bi_object___init__(self, args, kwargs, node):
        return NONE

    def bi_object___hash__(self, args, kwargs, node):
        return self.bi_id(args[:1], {}, node)

    def bi_len(self, args, kwargs, node):
        v = args[0]
        if v.kind == "opt":
            v = self.unwrap(v, node)
        if v.kind == "tuple":
            return VInt(len(v.items))
        if v.kind == "ref":
            if v.rkind in ("list", "set"):
                return VInt(len(self.ctx.cell(v)))
            if v.rkind == "dict":
                return VInt(len(self.ctx.cell(v)[0]))
            f = v.cls.find_method(self.index, "__len__") if v.cls else None
            if f is not None:
                return self.call_function(f, [v], {}, node)
        if v.kind == "slist":
            if v.nullable and not self.spec:
                self.ctx.oblige("safety.not_none.len", v.z != 0, node)
                self.ctx.assume(v.z != 0)
            return VInt(self.ctx.slen(v.z))
        if v.kind == "str":
            return VInt(z3.Length(v.z)) if v.const is None else VInt(len(v.const))
        if v.kind == "sobj":
            cm = self.class_models.get(v.cname)
            f = cm.repo_class.find_method(self.index, "__len__") if cm and cm.repo_class else None
            if f is not None:
                return self.call_function(f, [v], {}, node)
        if v.kind == "opaque":
            return self.call_ext(f"{v.tag}.__len__", [v], {}, node)
        if v.kind == "dyn":
            return self.dyn_len(v, node)
        if v.kind == "none":
            if not self.spec:
                self.ctx.oblige("safety.len_of_none", z3.BoolVal(False), node)
            raise self.PyRaise(VExc("TypeError"), node)
        raise EngineError(f"len of {v} (line {getattr(node, 'lineno', '?')})")

    def bi_abs(self, args, kwargs, node):
        v = self.unwrap(args[0], node)
        if v.kind == "int":
            return VInt(z3.simplify(z3.If(v.z >= 0, v.z, -v.z)))
        if v.kind == "real":
            return VReal(z3.simplify(z3.If(v.z >= 0, v.z, -v.z)))
        if v.kind == "opaque":
            return self.call_ext("numpy.abs", [v], {}, node)
        raise EngineError(f"abs of {v}")

    def bi_isinstance(self, args, kwargs, node):
        return VBool(z3.simplify(self.isinstance_z(args[0], args[1], node)))

    def bi_issubclass(self, args, kwargs, node):
        a, b = args
        if a.kind == "class" and b.kind == "class" and not isinstance(a.cls, str) and not isinstance(b.cls, str):
            return VBool(a.cls.is_subclass_of(self.index, b.cls))
        raise EngineError("issubclass")

    def bi_hasattr(self, args, kwargs, node):
        o, n = args
        if o.kind == "ref" and o.rkind == "obj" and n.const is not None:
            if n.const in self.ctx.cell(o):
                return VBool(True)
            return VBool(o.cls.find_method(self.index, n.const) is not None or o.cls.find_class_attr(self.index, n.const)[1] is not None)
        raise EngineError("hasattr on symbolic object")

    def bi_getattr(self, args, kwargs, node):
        o, n = args[0], args[1]
        if n.const is None:
            raise EngineError("getattr with symbolic name")
        return self.getattr(o, n.const, node)

    def bi_hash(self, args, kwargs, node):
        v = args[0]
        if v.kind == "str":
            return VInt(z3.Function("py_hash_str", S, I)(v.z))
        if v.kind == "tuple":
            hs = [self.bi_hash([x], {}, node) for x in v.items]
            f = z3.Function(f"py_hash_tuple{len(hs)}", *([I] * len(hs)), I)
            return VInt(f(*[h.z for h in hs]))
        if v.kind == "enum" or (v.kind == "ref" and v.rkind == "obj"):
            cls = v.ecls if v.kind == "enum" else v.cls
            f = cls.find_method(self.index, "__hash__")
            if f is not None:
                return self.call_function(f, [v], {}, node)
            if v.kind == "enum":
                return VInt(z3.Function("py_hash_enum_" + cls.name, I, I)(v.z))
        if v.kind == "int":
            return v
        raise EngineError(f"hash of {v}")

    def _minmax(self, args, kwargs, node, is_min):
        key = kwargs.get("key")
        if len(args) == 1:
            a0 = args[0]
            if a0.kind == "slist" or (a0.kind == "opaque" and a0.tag in ("symiter", "ndarray")):
                return self.call_ext("sym.min" if is_min else "sym.max", args, kwargs, node)
            items = self.iter_concrete(a0, node)
        else:
            items = list(args)
        if not items:
            if "default" in kwargs:
                return kwargs["default"]
            if not self.spec:
                self.ctx.oblige("safety.min_max_nonempty", z3.BoolVal(False), node)
            raise self.PyRaise(VExc("ValueError"), node)
        best = items[0]
        bk = self.call_value(key, [best], {}, node) if key is not None else best
        for x in items[1:]:
            xk = self.call_value(key, [x], {}, node) if key is not None else x
            c = self.compare(ast.Lt() if is_min else ast.Gt(), xk, bk, node).z
            best = self.merge(c, x, best)
            bk = self.merge(c, xk, bk)
        return best

    def bi_min(self, args, kwargs, node):
        return self._minmax(args, kwargs, node, True)

    def bi_max(self, args, kwargs, node):
        return self._minmax(args, kwargs, node, False)

    def bi_sum(self, args, kwargs, node):
        a0 = args[0]
        if a0.kind == "slist" or a0.kind == "opaque":
            return self.call_ext("sym.sum", args, kwargs, node)
        items = self.iter_concrete(a0, node)
        acc = args[1] if len(args) > 1 else VInt(0)
        for x in items:
            acc = self.binop(ast.Add(), acc, x, node)
        return acc

    def _anyall(self, args, node, is_any):
        a0 = args[0]
        if a0.kind == "slist":
            k = self.ctx.bound("k_q")
            n = self.ctx.slen(a0.z)
            t = self.truth(self.ctx.sitem(a0, k), node)
            rng = z3.And(0 <= k, k < n)
            return VBool(z3.Exists([k], z3.And(rng, t)) if is_any else z3.ForAll([k], z3.Implies(rng, t)))
        items = self.iter_concrete(a0, node)
        ts = [self.truth(x, node) for x in items]
        if not ts:
            return VBool(not is_any)
        return VBool(z3.simplify(z3.Or(*ts) if is_any else z3.And(*ts)))

    def bi_any(self, args, kwargs, node):
        return self._anyall(args, node, True)

    def bi_all(self, args, kwargs, node):
        return self._anyall(args, node, False)

    def bi_round(self, args, kwargs, node):
        v = self.unwrap(args[0], node)
        if len(args) > 1 or "ndigits" in kwargs:
            return self.call_ext("round_ndigits", args, kwargs, node)
        if v.kind == "int":
            return v
        raise EngineError("round() to int on symbolic real")

    def bi_sorted(self, args, kwargs, node):
        return self.call_ext("sym.sorted", args, kwargs, node)

    def bi_id(self, args, kwargs, node):
        v = args[0]
        if v.kind in ("sobj", "slist"):
            return VInt(v.z)
        if v.kind == "ref":
            return VInt(-v.addr)
        raise EngineError("id()")

    def bi_callable(self, args, kwargs, node):
        return VBool(args[0].kind in ("func", "lambda", "ext", "class"))

    # ------------------------------------------------------------------ str methods
    def bi_str_lower(self, args, kwargs, node):
        v = args[0]
        if v.const is not None:
            return VStr(v.const.lower())
        r = self.ctx.lower_fn(v.z)
        self.ctx.assume(self.ctx.lower_fn(r) == r)       # idempotent
        return VStr(r)

    def bi_str_upper(self, args, kwargs, node):
        v = args[0]
        if v.const is not None:
            return VStr(v.const.upper())
        r = self.ctx.upper_fn(v.z)
        self.ctx.assume(self.ctx.upper_fn(r) == r)
        return VStr(r)

    def bi_str_startswith(self, args, kwargs, node):
        return VBool(z3.PrefixOf(args[1].z, args[0].z))

    def bi_str_endswith(self, args, kwargs, node):
        return VBool(z3.SuffixOf(args[1].z, args[0].z))

    def bi_str_format(self, args, kwargs, node):
        return VStr(self.ctx.fresh("fmt", S))

    def bi_str_join(self, args, kwargs, node):
        return VStr(self.ctx.fresh("joined", S))

    # ------------------------------------------------------------------ concrete list methods
    def _clist(self, v, node):
        if not (v.kind == "ref" and v.rkind == "list"):
            raise EngineError(f"list method on {v} (line {getattr(node, 'lineno', '?')})")
        return self.ctx.cell(v)

    def bi_list_append(self, args, kwargs, node):
        if args[0].kind == "slist":
            return self.slist_append(args[0], args[1], node)
        self.ctx.mutating()
        self._clist(args[0], node).append(args[1])
        self.ctx.cell_write(args[0].addr, "append", node)
        return NONE

    def bi_list_extend(self, args, kwargs, node):
        if args[0].kind == "slist":
            return self.slist_extend(args[0], args[1], node)
        self.ctx.mutating()
        self._clist(args[0], node).extend(self.iter_concrete(args[1], node))
        self.ctx.cell_write(args[0].addr, "extend", node)
        return NONE

    def bi_list_copy(self, args, kwargs, node):
        if args[0].kind == "slist":
            return self.slist_copy(args[0], node)
        return self.ctx.new_cell("list", list(self._clist(args[0], node)))

    def bi_list_pop(self, args, kwargs, node):
        if args[0].kind == "slist":
            return self.slist_pop(args[0], args[1] if len(args) > 1 else None, node)
        self.ctx.mutating()
        self.ctx.cell_write(args[0].addr, "pop", node)
        items = self._clist(args[0], node)
        i = args[1] if len(args) > 1 else VInt(-1)
        idx = self.norm_index(i, len(items), node)
        if not z3.is_int_value(idx):
            raise EngineError("pop with symbolic index on concrete list")
        return items.pop(idx.as_long())

    def bi_list_insert(self, args, kwargs, node):
        self.ctx.mutating()
        items = self._clist(args[0], node)
        if args[1].const is None:
            raise EngineError("insert with symbolic index")
        items.insert(args[1].const, args[2])
        return NONE

    def bi_list_remove(self, args, kwargs, node):
        if args[0].kind == "slist":
            return self.slist_remove(args[0], args[1], node)
        self.ctx.mutating()
        items = self._clist(args[0], node)
        for i, x in enumerate(items):
            c = z3.Or(self.identical_or_false(x, args[1]), self.py_eq(x, args[1], node))
            if self.ctx.branch(c, f"remove@{getattr(node, 'lineno', 0)}"):
                items.pop(i)
                return NONE
        if not self.spec:
            self.ctx.oblige("safety.remove_present", z3.BoolVal(False), node)
        raise self.PyRaise(VExc("ValueError"), node)

    def bi_list_index(self, args, kwargs, node):
        if args[0].kind == "slist":
            return self.slist_index(args[0], args[1], node)
        items = self._clist(args[0], node) if args[0].kind == "ref" else list(args[0].items)
        conds = [z3.simplify(z3.Or(self.identical_or_false(x, args[1]), self.py_eq(x, args[1], node))) for x in items]
        if not self.spec:
            anyc = z3.Or(*conds) if conds else z3.BoolVal(False)
            self.ctx.oblige("safety.index_value_present", anyc, node)
            self.ctx.assume(anyc)
        res = VInt(len(items))   # unreachable sentinel
        for i in reversed(range(len(items))):
            res = self.merge(conds[i], VInt(i), res)
        return res

    bi_tuple_index = bi_list_index

    def bi_list_sort(self, args, kwargs, node):
        return self.call_ext("sym.list_sort", args, kwargs, node)

    def bi_list_count(self, args, kwargs, node):
        items = self._clist(args[0], node)
        acc = VInt(0)
        for x in items:
            acc = self.binop(ast.Add(), acc, VInt(z3.If(self.py_eq(x, args[1], node), 1, 0)), node)
        return acc

    # ------------------------------------------------------------------ dict methods
    def bi_dict_get(self, args, kwargs, node):
        return self.dict_get(args[0], args[1], node, default=args[2] if len(args) > 2 else NONE, has_default=True)

    def bi_dict_keys(self, args, kwargs, node):
        return self.ctx.new_cell("list", list(self.ctx.cell(args[0])[0]))

    def bi_dict_values(self, args, kwargs, node):
        return self.ctx.new_cell("list", list(self.ctx.cell(args[0])[1]))

    def bi_dict_items(self, args, kwargs, node):
        ks, vs = self.ctx.cell(args[0])
        return self.ctx.new_cell("list", [VTuple((k, v)) for k, v in zip(ks, vs)])

    def bi_dict_copy(self, args, kwargs, node):
        ks, vs = self.ctx.cell(args[0])
        return self.ctx.new_cell("dict", (list(ks), list(vs)))

    def bi_dict_update(self, args, kwargs, node):
        self.ctx.mutating()
        self.ctx.cell_write(args[0].addr, "update", node)
        ks, vs = self.ctx.cell(args[0])
        oks, ovs = self.ctx.cell(args[1])
        for k, v in zip(oks, ovs):
            self.dict_set_raw(ks, vs, k, v, node)
        return NONE

    def bi_dict_pop(self, args, kwargs, node):
        self.ctx.mutating()
        ks, vs = self.ctx.cell(args[0])
        for i, k in enumerate(ks):
            if self.key_eq_static(k, args[1], node):
                ks.pop(i)
                return vs.pop(i)
        if len(args) > 2:
            return args[2]
        raise self.PyRaise(VExc("KeyError"), node)

    def bi_set_add(self, args, kwargs, node):
        self.ctx.mutating()
        items = self.ctx.cell(args[0])
        for y in items:
            r = z3.simplify(self.py_eq(y, args[1], node))
            if z3.is_true(r):
                return NONE
            if not z3.is_false(r):
                raise EngineError("set.add with symbolic element")
        items.append(args[1])
        return NONE

    # ------------------------------------------------------------------ SMT lists
    def slist_append(self, lst, x, node):
        n = self.ctx.slen(lst.z)
        self.ctx.set_list(lst, n + 1, ("store", n, x))
        self.ctx.written.append(("list", lst.z, node))
        return NONE

    def slist_copy(self, lst, node):
        new = self.new_slist(lst.elem, "copy")
        n = self.ctx.slen(lst.z)
        self.ctx.set_list(new, n, ("fn", lambda k: self.ctx.item_terms(lst, k)))
        return new

    def slist_pop(self, lst, i, node):
        n = self.ctx.slen(lst.z)
        idx = self.norm_index(i if i is not None else VInt(-1), n, node)
        item = self.ctx.sitem(lst, idx)
        old_terms = lambda k: self.ctx.item_terms(VSList(lst.z, lst.elem), k)
        snap = {key: m for key, m in self.ctx.sheap.items()}
        def shifted(k):
            cur = self.ctx.sheap
            self.ctx.sheap = snap
            try:
                a, b = self.ctx.item_terms(lst, k), self.ctx.item_terms(lst, k + 1)
            finally:
                self.ctx.sheap = cur
            return [z3.If(k < idx, x, y) for x, y in zip(a, b)]
        self.ctx.set_list(lst, n - 1, ("fn", shifted))
        if getattr(self.ctx, "append_carry", False):
            # carry-over facts triggered by reads of the OLD list: a witness position known for the old list (the Skolem constant of an
            # existential invariant such as "x is still in the working copy") becomes a term of the new list; both follow from the definition above
            self.ctx.counter += 1
            kc = z3.Int(f"k!pc{self.ctx.counter}")
            cur = self.ctx.sheap
            self.ctx.sheap = snap
            try:
                olds = self.ctx.item_terms(lst, kc)
            finally:
                self.ctx.sheap = cur
            for o, lo, hi in zip(olds, self.ctx.item_terms(lst, kc), self.ctx.item_terms(lst, kc - 1)):
                if z3.is_app(o) and o.decl().kind() == z3.Z3_OP_SELECT:
                    carry = z3.ForAll([kc], z3.And(z3.Implies(kc < idx, lo == o), z3.Implies(kc > idx, hi == o)), patterns=[o])
                    self.ctx.pc.append(carry)
                    self.ctx.keep_ids.add(carry.get_id())
        self.ctx.written.append(("list", lst.z, node))
        return item

    def slist_extend(self, lst, other, node):
        n = self.ctx.slen(lst.z)
        if other.kind == "slist":
            m = self.ctx.slen(other.z)
            snap = dict(self.ctx.sheap)
            def cat(k):
                cur = self.ctx.sheap
                self.ctx.sheap = snap
                try:
                    a, b = self.ctx.item_terms(lst, k), self.ctx.item_terms(other, k - n)
                finally:
                    self.ctx.sheap = cur
                return [z3.If(k < n, x, y) for x, y in zip(a, b)]
            self.ctx.set_list(lst, n + m, ("fn", cat))
            self.ctx.written.append(("list", lst.z, node))
            return NONE
        for x in self.iter_concrete(other, node):
            self.slist_append(lst, x, node)
        return NONE

    def slist_concat(self, a, b, node):
        if a.kind != "slist":
            if a.kind == "ref" and a.rkind == "list":
                new = self.new_slist(b.elem, "concat")
                for x in self.ctx.cell(a):
                    self.slist_append(new, x, node)
                self.slist_extend(new, b, node)
                return new
            raise EngineError(f"+ of {a} and SMT list")
        new = self.slist_copy(a, node)
        self.slist_extend(new, b, node)
        return new

    def slist_slice(self, o, lo, hi, st, node):
        """o[lo:hi] of an SMT list: a new list (CPython clamps the bounds; negative bounds count from the end)"""
        if st is not None and not (st.kind == "none" or (st.kind == "int" and st.const == 1)):
            raise EngineError(f"slice of SMT list with a step (line {getattr(node, 'lineno', '?')})")
        n = self.ctx.slen(o.z)
        mx = lambda a, b: z3.If(a >= b, a, b)
        mn = lambda a, b: z3.If(a <= b, a, b)

        def norm(v, default):
            if v is None or v.kind == "none":
                return default
            z = to_int_z(self.unwrap(v, node))
            return z3.simplify(z3.If(z < 0, mx(z + n, z3.IntVal(0)), mn(z, n)))
        a, b = norm(lo, z3.IntVal(0)), norm(hi, n)
        new = self.new_slist(o.elem, "slice")
        self.ctx.set_list(new, z3.simplify(mx(b - a, z3.IntVal(0))), ("fn", lambda k: self.ctx.item_terms(o, a + k)))
        return new

    def slist_remove(self, lst, x, node):
        """list.remove(x): deletes the FIRST item that is x or == x (data-model ==); ValueError when there is none (a safety obligation here)"""
        idx = self.slist_index(lst, x, node)
        self.slist_pop(lst, idx, node)
        return NONE

    def slist_index(self, lst, x, node):
        """first index whose item equals x"""
        n = self.ctx.slen(lst.z)
        r = self.ctx.fresh("index_res", I)
        k = self.ctx.bound("k_idx")
        eq_plain = lambda j: z3.Or(self.identical_or_false(self.ctx.sitem(lst, j), x), self.py_eq(self.ctx.sitem(lst, j), x, node))

        def eq_bound(j, rng):
            # comparison at a bound index: evaluated parametrically (see Ops.contains)
            self.ctx.push_param(j, rng)
            self.ctx.no_branch += 1
            try:
                return eq_plain(j)
            finally:
                self.ctx.no_branch -= 1
                self.ctx.pop_param()
        rng_k = z3.And(0 <= k, k < n)
        present = z3.Exists([k], z3.And(rng_k, eq_bound(k, rng_k)))
        if not self.spec:
            self.ctx.oblige("safety.index_value_present", present, node)
            self.ctx.assume(present)
        self.ctx.assume(z3.And(0 <= r, r < n, eq_plain(r)))
        k2 = self.ctx.bound("k_idx2")
        rng2 = z3.And(0 <= k2, k2 < r)
        self.ctx.assume(z3.ForAll([k2], z3.Implies(rng2, z3.Not(eq_bound(k2, rng2)))))
        return VInt(r)

    def slist_comprehension(self, e, first, cf):
        """[f(x) for x in L] over an SMT list, f evaluated without branching"""
        g = e.generators[0]
        if g.ifs:
            raise EngineError(f"filtered comprehension over SMT list (line {e.lineno}): needs a contract")
        sym = self.symbolic_iter(first, e)
        n, at, _ = sym
        c = self.contracts.get(cf.fi.fq) if cf.fi else None
        ordn = self.comp_ordinal(cf.fi, e) if cf.fi else 0
        elem_t = c.locals.get(f"#comp{ordn}") if c else None
        holder = {"t": elem_t}
        def item(k):
            self.ctx.push_param(k, z3.And(0 <= k, k < n))
            self.ctx.no_branch += 1
            try:
                self.assign(g.target, at(k), cf)
                v = self.ev(e.elt, cf)
            finally:
                self.ctx.no_branch -= 1
                self.ctx.pop_param()
            if holder["t"] is None:
                holder["t"] = self.type_of_val(v)     # element type inferred from the element expression
            return holder["t"].pack(v, self.ctx)
        self.ctx.counter += 1
        k0 = z3.Int(f"k!lr{self.ctx.counter}")
        terms = item(k0)
        new = self.new_slist(holder["t"], "comp")
        self.ctx.set_list(new, n, ("fn", lambda k: [z3.substitute(t, (k0, k)) for t in terms]))
        return new

    def comp_ordinal(self, fi, node):
        import ast as _ast
        comps = [x for x in _ast.walk(fi.node) if isinstance(x, (_ast.ListComp, _ast.GeneratorExp, _ast.SetComp, _ast.DictComp))]
        comps.sort(key=lambda x: (x.lineno, x.col_offset))
        return [id(x) for x in comps].index(id(node)) + 1

    def list_repeat_sym(self, a, b, node):
        """[x] * n with symbolic n -> SMT list (element type from the single element)"""
        items = self.ctx.cell(a)
        if len(items) != 1:
            raise EngineError("symbolic repetition of a multi-element list")
        x = items[0]
        t = self.type_of_val(x)
        new = self.new_slist(t, "rep")
        n = to_int_z(b)
        zs = t.pack(x, self.ctx)
        self.ctx.set_list(new, z3.If(n > 0, n, 0), ("fn", lambda k: zs))
        return new

    def type_of_val(self, v):
        k = v.kind
        if k == "int":
            return TInt()
        if k == "real":
            return TReal()
        if k == "bool":
            return TBool()
        if k == "str":
            return TStr()
        if k == "enum":
            return TEnum(v.ecls)
        if k == "sobj":
            return TSObj(v.cname, v.nullable)
        if k == "slist":
            return TSList(v.elem, v.nullable)
        if k == "tuple":
            return TTuple(*[self.type_of_val(x) for x in v.items])
        if k == "opt":
            return TOpt(self.type_of_val(v.inner))
        if k == "dyn":
            from .dyn import TDyn
            return TDyn()
        raise EngineError(f"no SMT type for {v}")

    def instantiate_smt(self, cls, cm, args, kwargs, node):
        """allocate an object of a modelled class in the SMT heap and run its __init__ on it"""
        r = self.ctx.new_sref("new_" + cls.name)
        self.ctx.assume(REF_TYPE(r) == TSObj(cm.name).tag())
        o = VSObj(r, cm.name)
        init = cls.find_method(self.index, "__init__")
        if init is not None:
            self.call_function(init, [o] + list(args), kwargs, node)
        return o

    # hooks for opaque values; overridden / extended by externals
    def ext_binop(self, op, a, b, node):
        return self.call_ext("opaque.binop", [a, b], {"op": op}, node)

    def ext_compare(self, op, a, b, node):
        return self.call_ext("opaque.compare", [a, b], {"op": op}, node)

    def ext_getitem(self, o, i, node):
        return self.call_ext("opaque.getitem", [o, i], {}, node)

    def ext_setitem(self, o, i, v, node):
        return self.call_ext("opaque.setitem", [o, i, v], {}, node)

    def ext_slice(self, o, lo, hi, st, node):
        return self.call_ext("opaque.slice", [o, lo or NONE, hi or NONE, st or NONE], {}, node)

    def ext_unpack(self, v, node):
        if "items" in v.data:
            return list(v.data["items"])
        r = self.call_ext("opaque.unpack", [v], {}, node)
        return list(r.items)

    def ext_fresh_like(self, v, name, node):
        r = self.call_ext("opaque.fresh_like", [v], {"name": name}, node)
        return r


class _SymKey(Exception):
    def __init__(self, cond):
        self.cond = cond
