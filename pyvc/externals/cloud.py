"""Point clouds as abstract sets of points (assumed contracts; installed by the property that needs them).

A cloud is an element of an uninterpreted universe with a membership predicate HAS(cloud, point) over point ids and a size CLEN(cloud);
len(cloud) != 0 iff some point belongs to it.  A 3-D prism (list of corner tuples) is known through INSIDE(point, corner coordinates...).
Box corners are uninterpreted functions CORNER(object, scale, k, axis) of the object and the scale.
"""
import z3

from ..values import *
from ..ops import to_real_z, to_int_z

HAS = z3.Function("cloud_has", I, I, B)
CLEN = z3.Function("cloud_len", I, I)
CORNER = z3.Function("box_corner", I, R, I, I, R)
_INSIDE = {}


def inside_fn(n):
    if n not in _INSIDE:
        _INSIDE[n] = z3.Function(f"inside_prism_{n}", I, *([R] * n), B)
    return _INSIDE[n]


def cloud(z):
    return VOpaque("cloud", z)


def _len(interp, args, kwargs, node):
    c = args[0]
    p = z3.Int("p!cl")
    interp.ctx.assume(z3.And(CLEN(c.z) >= 0, (CLEN(c.z) != 0) == z3.Exists([p], HAS(c.z, p))))
    return VInt(CLEN(c.z))


def box_corners(interp, obj, scale):
    s = to_real_z(scale)
    rows = [VTuple([VReal(CORNER(obj.z, s, z3.IntVal(k), z3.IntVal(a))) for a in range(3)]) for k in range(8)]
    return rows


def _tolist(interp, args, kwargs, node):
    return interp.ctx.new_cell("list", list(args[0].data["rows"]))


def flatten_area(interp, area, node):
    items = area.items if area.kind == "tuple" else interp.ctx.cell(area)
    out = []
    for row in items:
        vals = row.items if row.kind == "tuple" else interp.ctx.cell(row)
        out.extend(to_real_z(interp.unwrap(v, node)) for v in vals)
    return out


def _spec_has(interp, e, fr):
    c, p = interp.ev(e.args[0], fr), interp.ev(e.args[1], fr)
    return VBool(HAS(c.z, to_int_z(p)))


INSIDE_AREA_ID = z3.Function("inside_area_id", I, I, B)


def _spec_inside_area(interp, e, fr):
    p, area = interp.ev(e.args[0], fr), interp.ev(e.args[1], fr)
    if area.kind == "opaque":
        # an area known only by name (an element of a list of arbitrarily many areas)
        return VBool(INSIDE_AREA_ID(to_int_z(p), area.z))
    xs = flatten_area(interp, area, e)
    return VBool(inside_fn(len(xs))(to_int_z(p), *xs))


def _spec_inside_box(interp, e, fr):
    p, obj, scale = (interp.ev(a, fr) for a in e.args)
    xs = flatten_area(interp, VTuple(box_corners(interp, obj, scale)), e)
    return VBool(inside_fn(len(xs))(to_int_z(p), *xs))


def _spec_len(interp, e, fr):
    return VInt(CLEN(interp.ev(e.args[0], fr).z))


def _fresh_like(interp, args, kwargs, node):
    v = args[0]
    if v.tag == "cloud":
        return cloud(interp.ctx.fresh(kwargs.get("name", "cloud"), I))
    raise EngineError(f"fresh_like of opaque {v.tag}")


def _copy(interp, args, kwargs, node):
    """points.copy(): a cloud with the same points (another array)"""
    c = args[0]
    r = interp.ctx.fresh("cloud_copy", I)
    p = z3.Int("p!cc")
    f = z3.ForAll([p], HAS(r, p) == HAS(c.z, p), patterns=[HAS(r, p), HAS(c.z, p)])
    interp.ctx.assume(f)
    interp.ctx.keep_ids.add(f.get_id())
    return cloud(r)


HANDLERS = {
    "cloud.copy": (_copy, "cloud.copy() holds the same points"),
    "opaque.fresh_like": (_fresh_like, "a cloud reassigned in a loop is some cloud"),
    "cloud.__len__": (_len, "len(cloud) >= 0, and it is non-zero iff some point belongs to the cloud"),
    "corners.tolist": (_tolist, "get_corners(scale).tolist() is the list of the 8 corner rows"),
}
def _spec_same(interp, e, fr):
    a, b = interp.ev(e.args[0], fr), interp.ev(e.args[1], fr)
    return VBool(a.z == b.z)


SPEC_FUNCS = {"same_cloud": _spec_same, "cloud_has": _spec_has, "inside_area": _spec_inside_area, "inside_box": _spec_inside_box, "cloud_len": _spec_len}


def install(it):
    from . import _wrap
    for dotted, (fn, doc) in HANDLERS.items():
        it.externals[dotted] = _wrap(it, dotted, fn, doc)
    it.spec_funcs.update(SPEC_FUNCS)
