"""C11 native harness: exhaustive small-scope check of the identity-based pairing on the real functions, and the accuracy metrics."""
import itertools
import sys

from common import main, budget

LABELS = ["green", "red", "yellow"]
CAMS = ["cam_traffic_light_near", "cam_traffic_light_far"]


def obj(uuid, label, cam, tl=True, raw_variant=False):
    from perception_eval.common.label import Label, TrafficLightLabel, AutowareLabel
    from perception_eval.common.object2d import DynamicObject2D
    from perception_eval.common.schema import FrameID
    # "fp": the false-positive label of either family (a ground truth may carry it; an estimate reported with the same label agrees with it)
    # ground truths (str uuid ending in no marker is fine): the raw spelling a label was converted from differs between sources ("red" / "crosswalk_red")
    raw = ("crosswalk_" + label) if (raw_variant and label != "fp") else label
    lab = (Label(TrafficLightLabel({"fp": "false_positive"}.get(label, label)), raw, ["x"] if raw_variant else []) if tl else
           Label(AutowareLabel({"green": "car", "red": "pedestrian", "yellow": "bicycle", "fp": "false_positive"}[label]), raw, ["x"] if raw_variant else []))
    return DynamicObject2D(0, FrameID.from_value(cam), 0.9, lab, roi=None, uuid=uuid)


def check(case):
    from perception_eval.common.evaluation_task import EvaluationTask
    from perception_eval.evaluation.result.object_result import get_object_results
    est = [obj(*e, tl=case["tl"]) for e in case["est"]]
    gt = [obj(*g, tl=case["tl"], raw_variant=case.get("raw_variant", False)) for g in case["gt"]]
    e0, g0 = list(est), list(gt)
    try:
        res = get_object_results(EvaluationTask.CLASSIFICATION2D, est, gt, uuid_matching_first=case["uuid_first"])
    except Exception as ex:
        return f"get_object_results raised {type(ex).__name__}: {ex}"
    if est != e0 or gt != g0:
        return "the caller's lists were modified"
    used_e, used_g, correct = [], [], 0
    for r in res:
        e, g = r.estimated_object, r.ground_truth_object
        if any(e is x for x in used_e) or (g is not None and any(g is x for x in used_g)):
            return "an object is used in two pairs"
        used_e.append(e)
        if g is None:
            continue
        used_g.append(g)
        if e.frame_id != g.frame_id:
            return "a pair spans two camera frames"
        same_label, same_id = e.semantic_label.label is g.semantic_label.label, e.uuid == g.uuid
        if case["tl"]:
            if not (same_id or (same_label and not case["uuid_first"])):
                return f"traffic lights paired without equal uuid / label: {e.uuid}:{e.semantic_label.label} with {g.uuid}:{g.semantic_label.label}"
        elif not same_id:
            return f"generic objects paired although their uuids differ: {e.uuid} / {g.uuid}"
        correct += same_label
    # maximal number of label-correct pairs under the rule (brute force over all partial injective pairings allowed by the rule)
    def allowed(e, g):
        if e.frame_id != g.frame_id:
            return False
        if not case["tl"]:
            return e.uuid == g.uuid
        return e.uuid == g.uuid or (e.semantic_label.label is g.semantic_label.label and not case["uuid_first"])
    best = 0
    idx_g = list(range(len(gt)))
    for k in range(0, min(len(est), len(gt)) + 1):
        for es in itertools.combinations(range(len(est)), k):
            for gs in itertools.permutations(idx_g, k):
                if all(allowed(est[a], gt[b]) for a, b in zip(es, gs)):
                    best = max(best, sum(est[a].semantic_label.label is gt[b].semantic_label.label for a, b in zip(es, gs)))
    if correct != best:
        return f"{correct} label-correct pairs, the largest possible number under the pairing rule is {best}"
    from perception_eval.evaluation.metrics.classification.accuracy import ClassificationAccuracy
    acc = ClassificationAccuracy(res, len(gt), [])
    n_ok = sum(1 for r in res if r.ground_truth_object is not None and r.estimated_object.semantic_label.label is r.ground_truth_object.semantic_label.label)
    if acc.num_tp != n_ok or acc.num_tp + acc.num_fp != len(res):
        return f"accuracy counts TP {acc.num_tp} / FP {acc.num_fp} for {len(res)} pairs of which {n_ok} are label-correct"
    n, G, tp = len(res), len(gt), n_ok
    want = dict(accuracy=tp / (n + G - tp) if n + G - tp else float("inf"), precision=tp / n if n else float("inf"), recall=tp / G if G else float("inf"))
    for k, v in want.items():
        if getattr(acc, k) != v and abs(getattr(acc, k) - v) > 1e-12:
            return f"{k} is {getattr(acc, k)}, counting definition gives {v}"
    # the same pairs handed over frame by frame (nested lists, as the scene evaluation does) and scored twice: same counts, lists untouched
    for nested in ([res[:1], res[1:]], [[], res[:2], [], res[2:]]):
        before = [list(x) for x in nested]
        for rnd_ in (1, 2):
            a2 = ClassificationAccuracy(nested, len(gt), [])
            if (a2.objects_results_num, a2.num_tp, a2.num_fp) != (len(res), acc.num_tp, acc.num_fp):
                return (f"evaluation {rnd_} of the per-frame lists counts {a2.objects_results_num} pairs (TP {a2.num_tp}, FP {a2.num_fp}); "
                        f"the same {len(res)} pairs as one list give TP {acc.num_tp}, FP {acc.num_fp}")
            if len(nested) != len(before) or any(len(x) != len(y) or any(p is not q for p, q in zip(x, y)) for x, y in zip(nested, before)):
                return "ClassificationAccuracy changed the per-frame lists it was given"
    if not case["tl"]:
        for e in est:
            for g in gt:
                if e.uuid == g.uuid and e.frame_id == g.frame_id and not any(r.estimated_object is e and r.ground_truth_object is g for r in res):
                    return f"generic objects with equal uuid {e.uuid} in the same frame are not paired"
    else:
        # "... and then by equal uuid": once the label stage is over, no estimate and ground truth of the same camera that share a uuid
        # may both be left unpaired; and every traffic-light estimate that is reported is reported with a ground truth (no FP rows)
        for e in est:
            for g in gt:
                if e.uuid == g.uuid and e.frame_id == g.frame_id and not any(e is x for x in used_e) and not any(g is x for x in used_g):
                    return f"traffic lights with equal uuid {e.uuid} in the same camera are both left unpaired"
        if not case["uuid_first"]:
            # label stage is greedy in list order: an unpaired estimate has no unpaired equally-labelled ground truth in its camera
            for e in est:
                for g in gt:
                    if (e.semantic_label.label is g.semantic_label.label and e.frame_id == g.frame_id and not any(e is x for x in used_e)
                            and not any(g is x for x in used_g)):
                        return f"equally labelled traffic lights {e.uuid} / {g.uuid} in the same camera are both left unpaired"
    return None


def search(item, seed):
    for tl in (True, False):
        for ne in range(0, 4):
            for ng in range(0, 4):
                for ecams in itertools.product(CAMS, repeat=ne):
                    for gcams in itertools.product(CAMS, repeat=ng):
                        for elabs in itertools.product(LABELS, repeat=ne):
                            for glabs in itertools.product(LABELS[:2], repeat=ng):
                                # uuids unique per side and camera: estimate i carries id i, ground truth j id j (shared ids pair by identity)
                                est = [(str(i), elabs[i], ecams[i]) for i in range(ne)]
                                gt = [(str(j), glabs[j], gcams[j]) for j in range(ng)]
                                for uf in (False, True):
                                    case = dict(tl=tl, est=est, gt=gt, uuid_first=uf)
                                    why = check(case)
                                    if why:
                                        return dict(function="pairing", input=case, observed=why)
    return search_all_correct() or search_shared_ids(seed or 0)


def check_all_correct(case):
    """every ground truth (a false-positive-labelled one included) paired with an equally-labelled estimate and nothing else reported: all four scores are 1"""
    from perception_eval.common.evaluation_task import EvaluationTask
    from perception_eval.evaluation.result.object_result import get_object_results
    from perception_eval.evaluation.metrics.classification.accuracy import ClassificationAccuracy
    objs = lambda: [obj(u, l, c, tl=case["tl"]) for (u, l, c) in case["objects"]]
    est, gt = objs(), objs()
    res = get_object_results(EvaluationTask.CLASSIFICATION2D, est, gt, uuid_matching_first=case["uuid_first"])
    acc = ClassificationAccuracy(res, len(gt), [])
    got = (acc.num_tp, acc.num_fp, acc.accuracy, acc.precision, acc.recall, acc.f1score)
    if got != (len(gt), 0, 1.0, 1.0, 1.0, 1.0):
        return f"every ground truth is paired with an equally-labelled estimate, yet (TP, FP, accuracy, precision, recall, F1) = {got}"
    return None


def search_all_correct():
    for tl in (True, False):
        for uf in (False, True):
            for labels in itertools.product(LABELS + ["fp"], repeat=2):
                for cams in itertools.product(CAMS, repeat=2):
                    if labels[0] == labels[1] and cams[0] == cams[1] and tl:
                        continue      # two equally-labelled traffic lights in one camera may be paired crosswise by the label stage: still all correct, but keep the case simple
                    case = dict(tl=tl, uuid_first=uf, objects=[(str(i), labels[i], cams[i]) for i in range(2)])
                    why = check_all_correct(case)
                    if why:
                        return dict(function="all-correct", input=case, observed=why)
    return None


def search_shared_ids(seed):
    """one physical object seen by several cameras: the same uuid on several objects of one side, unique per (side, camera)"""
    import random
    rng = random.Random(seed * 11 + 3)
    combos = [(u, c) for u in ("0", "1") for c in CAMS]
    for _ in range(budget(2500)):
        es = rng.sample(combos, rng.randint(0, 3))
        gs = rng.sample(combos, rng.randint(0, 3))
        est = [(u, rng.choice(LABELS), c) for u, c in es]
        gt = [(u, rng.choice(LABELS[:2]), c) for u, c in gs]
        case = dict(tl=rng.random() < 0.5, est=est, gt=gt, uuid_first=rng.random() < 0.5, raw_variant=rng.random() < 0.5)
        why = check(case)
        if why:
            return dict(function="pairing", input=case, observed=why)
    return None


def replay(payload):
    i = payload["input"]
    if payload.get("function") == "all-correct":
        i["objects"] = [tuple(x) for x in i["objects"]]
        why = check_all_correct(i)
        return (why is None, why or "ok")
    i["est"] = [tuple(x) for x in i["est"]]
    i["gt"] = [tuple(x) for x in i["gt"]]
    why = check(i)
    return (why is None, why or "ok")


if __name__ == "__main__":
    sys.exit(main("C11", search, replay))
