"""C09 — heading comparisons use the true minimal yaw difference.

Relative to the assumed contract of pyquaternion (yaw_pitch_roll[0] is the ZYX yaw in (-pi, pi], equal for q and -q):
get_heading_bev(o) == wrap(-yaw - pi/2); the APH weight is 1 - d/pi with d = |wrap(yaw_e - yaw_g)| in [0, pi] in both frame
branches; the reported yaw error is wrap(yaw_gt - yaw_est) in [-pi, pi] with magnitude d.  Linear real arithmetic with ite.
"""
from pyvc.api import *
import contracts.C10 as C10

OBJ = "common.object"
TPM = "evaluation.metrics.detection.tp_metrics"


def models(P):
    idx = P.index
    C10.models(P)
    P.class_models["ObjectState"].fields["orientation"] = TOpaque("quaternion")
    P.model(ClassModel("DynamicObjectWithPerceptionResult", {
        "estimated_object": TSObj("DynamicObject"), "ground_truth_object": TSObj("DynamicObject", nullable=True)},
        repo_class=idx.lookup("evaluation.result.object_result:DynamicObjectWithPerceptionResult")))


def build(P):
    idx = P.index
    models(P)
    P.min_obligations = 25
    DO = TSObj("DynamicObject")
    HEAD = lambda q: f"wrap_pi(-yaw_of({q}) - PI() / 2)"
    # ---------------------------------------------------------------- get_heading_bev
    tf = lambda it: VOpaque("transformdict", it.ctx.fresh("transforms", I))
    ROT = "transforms.transform((self.frame_id, FrameID.BASE_LINK), self.state.position, self.state.orientation)[1]"
    c_ego = Contract(f"{OBJ}:DynamicObject.get_heading_bev", cut=False, params={"self": DO, "transforms": NONE},
                     raises={"ValueError": "self.frame_id is not FrameID.BASE_LINK"},
                     ensures=E("heading_from_the_yaw_angle", "result == " + HEAD("self.state.orientation"),
                               "range", "-PI() <= result and result <= PI()"))
    P.verify(f"{OBJ}:DynamicObject.get_heading_bev", name="get_heading_bev[no transforms]", contract=c_ego)
    c_tf = Contract(f"{OBJ}:DynamicObject.get_heading_bev", cut=False, params={"self": DO, "transforms": tf},
                    ensures=E("heading_from_the_yaw_angle_in_the_ego_frame", "result == " + HEAD(f"(self.state.orientation if self.frame_id is FrameID.BASE_LINK else {ROT})"),
                              "range", "-PI() <= result and result <= PI()"))
    P.verify(f"{OBJ}:DynamicObject.get_heading_bev", name="get_heading_bev[transforms given]", contract=c_tf)
    # ---------------------------------------------------------------- APH weight
    def ident_tf(it, cf):
        lst = cf.vars["args"].items[0]
        items = it.iter_concrete(lst, None)
        ident = len(items) == 1 and items[0].kind == "opaque" and items[0].data.get("identity")
        return VOpaque("transformdict", it.ctx.fresh("transforms", I), data={"identity": bool(ident)})

    def from_matrix(it, cf):
        m = cf.vars["matrix"]
        return VOpaque("hmatrix", it.ctx.fresh("hmatrix", I), data={"identity": m.kind == "opaque" and m.data.get("eye") == 4})
    cuts = {
        idx.lookup("common.transform:TransformDict").fq: Contract("common.transform:TransformDict", returns=ident_tf),
        idx.lookup("common.transform:HomogeneousMatrix.from_matrix").fq: Contract("common.transform:HomogeneousMatrix.from_matrix", returns=from_matrix),
        idx.lookup(f"{OBJ}:DynamicObject.get_heading_bev").fq: Contract(
            f"{OBJ}:DynamicObject.get_heading_bev", params={}, returns=TReal(),
            requires=E("transforms_for_other_frames", "self.frame_id is FrameID.BASE_LINK or transforms is not None"),
            ensures=E("heading", "result == " + HEAD(f"(self.state.orientation if (transforms is None or self.frame_id is FrameID.BASE_LINK) else {ROT})"))),
    }
    YE, YG = "yaw_of(object_result.estimated_object.state.orientation)", "yaw_of(object_result.ground_truth_object.state.orientation)"
    D = f"abs(wrap_pi({YE} - {YG}))"
    RES = TSObj("DynamicObjectWithPerceptionResult")
    TPC = idx.lookup(f"{TPM}:TPMetricsAph")
    P.verify(f"{TPM}:TPMetricsAph.get_value", name="TPMetricsAph.get_value",
             contract=Contract(f"{TPM}:TPMetricsAph.get_value", cut=False,
                               params={"self": lambda it: it.ctx.new_cell("obj", {}, TPC), "object_result": RES},
                               requires=E("pair_in_one_frame", "implies(object_result.ground_truth_object is not None, object_result.ground_truth_object.frame_id is object_result.estimated_object.frame_id)"),
                               ensures=E("zero_without_ground_truth", "implies(object_result.ground_truth_object is None, result == 0)",
                                         "one_minus_minimal_yaw_difference_over_pi", f"implies(object_result.ground_truth_object is not None, result == 1 - {D} / PI())",
                                         "in_unit_interval", "0 <= result and result <= 1")),
             extra_contracts=cuts)
    # ---------------------------------------------------------------- reported yaw error
    Y1, Y2 = "yaw_of(self.state.orientation)", "yaw_of(other.state.orientation)"
    P.verify(f"{OBJ}:DynamicObject.get_heading_error", name="get_heading_error",
             contract=Contract(f"{OBJ}:DynamicObject.get_heading_error", cut=False, params={"self": DO, "other": DO},
                               ensures=E("yaw_error_is_the_wrapped_difference", f"result[2] == wrap_pi({Y2} - {Y1})",
                                         "yaw_error_in_range", "-PI() <= result[2] and result[2] <= PI()",
                                         "magnitude_is_the_minimal_yaw_difference", f"abs(result[2]) == abs(wrap_pi({Y1} - {Y2}))",
                                         "roll_pitch_errors_in_range", "-PI() <= result[0] and result[0] <= PI() and -PI() <= result[1] and result[1] <= PI()")))
    P.verify(f"{OBJ}:DynamicObject.get_heading_error", name="get_heading_error[no ground truth]",
             contract=Contract(f"{OBJ}:DynamicObject.get_heading_error", cut=False, params={"self": DO, "other": NONE},
                               ensures=E("none_without_other", "result is None")))

    # ---------------------------------------------------------------- consequences of weight == 1 - |wrap(a - b)| / pi  (real arithmetic)
    def weight(z3, a, b, pi):
        x = a - b
        w = z3.If(x > pi, x - 2 * pi, z3.If(x < -pi, x + 2 * pi, x))
        return 1 - z3.If(w >= 0, w, -w) / pi

    def lem(goal):
        def f(z3):
            a, b, pi = z3.Reals("a b pi")
            hy = [pi > 3, pi < 4, -pi < a, a <= pi, -pi < b, b <= pi]
            return hy, goal(z3, a, b, pi)
        return f
    P.lemma("weight_is_symmetric", lem(lambda z3, a, b, pi: weight(z3, a, b, pi) == weight(z3, b, a, pi)))
    P.lemma("weight_is_one_for_equal_headings", lem(lambda z3, a, b, pi: z3.Implies(a == b, weight(z3, a, b, pi) == 1)))
    P.lemma("weight_is_zero_for_opposite_headings", lem(lambda z3, a, b, pi: z3.Implies(z3.Or(a - b == pi, b - a == pi), weight(z3, a, b, pi) == 0)))
    P.lemma("weight_in_unit_interval", lem(lambda z3, a, b, pi: z3.And(weight(z3, a, b, pi) >= 0, weight(z3, a, b, pi) <= 1)))
    P.trust("pyquaternion: yaw_pitch_roll returns the ZYX Euler angles (yaw in (-pi, pi]), identical for q and -q; TransformDict.transform with the identity matrix / X->X changes nothing")
    P.assume("objects of a pair are expressed in the same frame (C01); a transform registry is supplied for objects that are not in the ego frame")
    P.uncover("'optionally small roll/pitch': yaw_pitch_roll[0] is taken as *the* yaw; no claim about how roll/pitch couple into it")
