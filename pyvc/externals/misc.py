"""small library calls that are opaque to the heap model"""
import z3
from ..values import *


def _deepcopy_unsupported(interp, args, kwargs, node):
    raise EngineError("copy.deepcopy needs a per-class model")


def _noop(interp, args, kwargs, node):
    return NONE


def _tqdm(interp, args, kwargs, node):
    return args[0]


HANDLERS = {
    "tqdm.tqdm": (_tqdm, "tqdm(x) iterates x"),
    "os.makedirs": (_noop, "filesystem call, outside the heap model"),
}
ATTRS = {}
