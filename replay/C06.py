"""C06 native harness (bounded stand-in for the geometric-exactness clauses): the real matching classes against an independent
convex-polygon clipper (Sutherland-Hodgman) and shoelace areas; symmetry, range, identical / disjoint boxes, 3-D <= BEV, plane
distance against an independent corner computation, invariance under common rigid motions, integer ROIs."""
import math
import random
import sys

from common import main, budget
import build

TOL = 1e-6


def corners(d):
    """footprint corners of a box description in its own frame order (front-left, rear-left, rear-right, front-right)"""
    w, l, _ = d["size"]
    c, s = math.cos(d["yaw"]), math.sin(d["yaw"])
    out = []
    for px, py in ((l / 2, w / 2), (-l / 2, w / 2), (-l / 2, -w / 2), (l / 2, -w / 2)):
        out.append((d["x"] + c * px - s * py, d["y"] + s * px + c * py))
    return out


def area(poly):
    return abs(sum(poly[i][0] * poly[(i + 1) % len(poly)][1] - poly[(i + 1) % len(poly)][0] * poly[i][1] for i in range(len(poly)))) / 2 if len(poly) >= 3 else 0.0


def clip(subject, clipper):
    """Sutherland-Hodgman: subject clipped by the convex polygon `clipper` (both counter-clockwise)"""
    def inside(p, a, b):
        return (b[0] - a[0]) * (p[1] - a[1]) - (b[1] - a[1]) * (p[0] - a[0]) >= 0

    def inter(p, q, a, b):
        x1, y1, x2, y2, x3, y3, x4, y4 = *p, *q, *a, *b
        den = (x1 - x2) * (y3 - y4) - (y1 - y2) * (x3 - x4)
        t = ((x1 - x3) * (y3 - y4) - (y1 - y3) * (x3 - x4)) / den
        return (x1 + t * (x2 - x1), y1 + t * (y2 - y1))
    out = list(subject)
    for i in range(len(clipper)):
        a, b = clipper[i], clipper[(i + 1) % len(clipper)]
        inp, out = out, []
        if not inp:
            break
        s = inp[-1]
        for e in inp:
            if inside(e, a, b):
                if not inside(s, a, b):
                    out.append(inter(s, e, a, b))
                out.append(e)
            elif inside(s, a, b):
                out.append(inter(s, e, a, b))
            s = e
    return out


def ccw(poly):
    sa = sum(poly[i][0] * poly[(i + 1) % len(poly)][1] - poly[(i + 1) % len(poly)][0] * poly[i][1] for i in range(len(poly)))
    return poly if sa >= 0 else poly[::-1]


def my_iou(a, b):
    pa, pb = ccw(corners(a)), ccw(corners(b))
    i2 = area(clip(pa, pb))
    A, B = a["size"][0] * a["size"][1], b["size"][0] * b["size"][1]
    zlo = max(a["z"] - a["size"][2] / 2, b["z"] - b["size"][2] / 2)
    zhi = min(a["z"] + a["size"][2] / 2, b["z"] + b["size"][2] / 2)
    h = max(0.0, zhi - zlo)
    return i2 / (A + B - i2), (i2 * h) / (A * a["size"][2] + B * b["size"][2] - i2 * h), i2


def my_plane(est, gt):
    ce, cg = corners(est), corners(gt)
    order = sorted(range(4), key=lambda i: math.hypot(*cg[i]))
    i1, i2 = order[0], order[1]
    gap = math.hypot(*cg[order[2]]) - math.hypot(*cg[order[1]])
    d1 = math.hypot(ce[i1][0] - cg[i1][0], ce[i1][1] - cg[i1][1])
    d2 = math.hypot(ce[i2][0] - cg[i2][0], ce[i2][1] - cg[i2][1])
    return math.sqrt(0.5 * (d1 * d1 + d2 * d2)), gap


def scores(est, gt):
    from perception_eval.evaluation.matching.object_matching import CenterDistanceMatching, IOU2dMatching, IOU3dMatching, PlaneDistanceMatching
    e, g = build.obj3d(est), build.obj3d(gt)
    return dict(center=CenterDistanceMatching(e, g).value, iou2=IOU2dMatching(e, g).value, iou3=IOU3dMatching(e, g).value, plane=PlaneDistanceMatching(e, g).value)


def moved(d, ang, tx, ty):
    c, s = math.cos(ang), math.sin(ang)
    return dict(d, x=c * d["x"] - s * d["y"] + tx, y=s * d["x"] + c * d["y"] + ty, yaw=d["yaw"] + ang)


def check(case):
    est, gt = case["est"], case["gt"]
    s = scores(est, gt)
    r = scores(gt, est)
    i2, i3, inter = my_iou(est, gt)
    want_c = math.sqrt((est["x"] - gt["x"]) ** 2 + (est["y"] - gt["y"]) ** 2 + (est["z"] - gt["z"]) ** 2)
    if abs(s["center"] - want_c) > TOL:
        return f"center distance {s['center']} but the centres are {want_c} apart"
    if abs(s["iou2"] - i2) > 1e-5 or abs(s["iou3"] - i3) > 1e-5:
        return f"IoU (BEV {s['iou2']}, 3D {s['iou3']}) differs from the intersection-over-union of the two boxes ({i2}, {i3})"
    for k in ("iou2", "iou3"):
        if not (-1e-12 <= s[k] <= 1 + 1e-9):
            return f"{k} = {s[k]} outside [0, 1]"
    if s["iou3"] > s["iou2"] + 1e-9:
        return f"3D IoU {s['iou3']} exceeds BEV IoU {s['iou2']}"
    for k in ("center", "iou2", "iou3"):
        if abs(s[k] - r[k]) > TOL:
            return f"{k} is not symmetric: {s[k]} vs {r[k]} with the arguments exchanged"
    if inter == 0.0 and (s["iou2"] != 0.0 or s["iou3"] != 0.0):
        return f"disjoint boxes have IoU {s['iou2']} / {s['iou3']}"
    if s["plane"] < 0:
        return f"plane distance {s['plane']} is negative"
    want_p, gap = my_plane(est, gt)
    if gap > 1e-3 and abs(s["plane"] - want_p) > 1e-6:
        return f"plane distance {s['plane']}, RMS corner distance of the ground truth's nearest side is {want_p}"
    # the same two boxes expressed in the map frame with the ego pose supplied: "nearest to the ego" is still judged from the ego
    ego = case.get("ego")
    if ego is not None and gap > 1e-3:
        from perception_eval.evaluation.matching.object_matching import PlaneDistanceMatching, CenterDistanceMatching
        to_map = lambda d: dict(moved(d, ego["yaw"], ego["x"], ego["y"]), frame="map")
        tf = build.transforms(ego)
        pm = PlaneDistanceMatching(build.obj3d(to_map(est)), build.obj3d(to_map(gt)), transforms=tf).value
        if abs(pm - want_p) > 1e-6:
            return f"map-frame rendering (ego at {ego}): plane distance {pm}, RMS corner distance of the ground truth's side nearest to the ego is {want_p}"
    same = scores(gt, gt)
    if abs(same["iou2"] - 1) > TOL or abs(same["iou3"] - 1) > TOL or abs(same["center"]) > TOL or abs(same["plane"]) > TOL:
        return f"identical boxes score {same}"
    # common rotation about the ego (all four scores), common translation (distance and IoU)
    ang, tx, ty = case["motion"]
    rot = scores(moved(est, ang, 0, 0), moved(gt, ang, 0, 0))
    for k in ("center", "iou2", "iou3") + (("plane",) if gap > 1e-3 else ()):
        if abs(rot[k] - s[k]) > 1e-5:
            return f"{k} changes from {s[k]} to {rot[k]} when both boxes are rotated by {ang} about the ego"
    tr = scores(moved(est, 0.0, tx, ty), moved(gt, 0.0, tx, ty))
    for k in ("center", "iou2", "iou3"):
        if abs(tr[k] - s[k]) > 1e-5:
            return f"{k} changes from {s[k]} to {tr[k]} under a common translation"
    return None


def check_roi(case):
    from perception_eval.common.label import Label, AutowareLabel
    from perception_eval.common.object2d import DynamicObject2D
    from perception_eval.common.schema import FrameID
    from perception_eval.evaluation.matching.object_matching import CenterDistanceMatching, IOU2dMatching
    lab = Label(AutowareLabel("car"), "car")
    a, b = case["a"], case["b"]
    oa = DynamicObject2D(0, FrameID.from_value("cam_front"), 0.9, lab, roi=tuple(a), uuid="a")
    ob = DynamicObject2D(0, FrameID.from_value("cam_front"), 0.9, lab, roi=tuple(b), uuid="b")
    ix = max(0, min(a[0] + a[2], b[0] + b[2]) - max(a[0], b[0]))
    iy = max(0, min(a[1] + a[3], b[1] + b[3]) - max(a[1], b[1]))
    inter = ix * iy
    want = inter / (a[2] * a[3] + b[2] * b[3] - inter)
    got, rev = IOU2dMatching(oa, ob).value, IOU2dMatching(ob, oa).value
    if abs(got - want) > 1e-9 or abs(got - rev) > 1e-9 or not 0 <= got <= 1:
        return f"ROI IoU {got} (reversed {rev}), exact value {want}"
    ca = (a[0] + a[2] // 2, a[1] + a[3] // 2)
    cb = (b[0] + b[2] // 2, b[1] + b[3] // 2)
    d = CenterDistanceMatching(oa, ob).value
    if abs(d - math.hypot(ca[0] - cb[0], ca[1] - cb[1])) > 1e-9:
        return f"ROI centre distance {d}, centres {ca} and {cb}"
    return None


def gen(rng):
    def box(near=None):
        if near is not None and rng.random() < 0.7:
            return dict(label="car", x=near["x"] + rng.uniform(-2, 2), y=near["y"] + rng.uniform(-2, 2), z=near["z"] + rng.uniform(-1, 1),
                        yaw=near["yaw"] + rng.choice([0.0, rng.uniform(-3.1, 3.1)]), size=(rng.choice([0.05, 0.6, 1.8, 2.5]), rng.choice([0.5, 2.0, 4.5, 12.0]), rng.choice([0.5, 1.5, 3.0])))
        return dict(label="car", x=rng.uniform(-30, 30), y=rng.uniform(-30, 30), z=rng.uniform(-1, 1), yaw=rng.uniform(-3.1, 3.1),
                    size=(rng.choice([0.05, 0.6, 1.8, 2.5]), rng.choice([0.5, 2.0, 4.5, 12.0]), rng.choice([0.5, 1.5, 3.0])))
    gt = box()
    est = box(gt)
    if rng.random() < 0.1:      # nested: same pose, smaller
        est = dict(gt, size=tuple(v * 0.5 for v in gt["size"]))
    if rng.random() < 0.1:      # touching along x
        est = dict(gt, yaw=0.0, x=gt["x"] + gt["size"][1])
        gt = dict(gt, yaw=0.0)
    return dict(est=est, gt=gt, motion=(rng.uniform(-3.1, 3.1), rng.uniform(-20, 20), rng.uniform(-20, 20)),
                ego=dict(x=round(rng.uniform(-60, 60), 2), y=round(rng.uniform(-60, 60), 2), yaw=round(rng.uniform(-3.1, 3.1), 3)))


def search(item, seed):
    rng = random.Random((seed or 0) * 31 + 6)
    for _ in range(budget(400)):
        case = gen(rng)
        try:
            why = check(case)
        except Exception as ex:
            why = f"raised {type(ex).__name__}: {ex}"
        if why:
            return dict(function="matching scores (3-D boxes)", input=case, observed=why)
    for _ in range(budget(300)):
        a = [rng.randint(0, 50), rng.randint(0, 50), rng.randint(1, 40), rng.randint(1, 40)]
        b = [rng.randint(0, 50), rng.randint(0, 50), rng.randint(1, 40), rng.randint(1, 40)]
        why = check_roi(dict(a=a, b=b))
        if why:
            return dict(function="matching scores (ROIs)", input=dict(a=a, b=b), observed=why)
    return None


def replay(payload):
    i = payload["input"]
    if "a" in i:
        why = check_roi(i)
    else:
        i = dict(i, est=dict(i["est"], size=tuple(i["est"]["size"])), gt=dict(i["gt"], size=tuple(i["gt"]["size"])), motion=tuple(i["motion"]))
        why = check(i)
    return (why is None, why or "ok")


if __name__ == "__main__":
    sys.exit(main("C06", search, replay))
