"""Assumed contracts of external libraries (numpy, math, shapely, pyquaternion, ...).

Nothing here is proved.  Every handler that is actually invoked during a run is recorded in
interp.used_externals and listed in the evidence's trusted base."""
from __future__ import annotations

import importlib

MODULES = ["pymath", "misc", "geom", "nptable", "quat", "mat"]


def install(it):
    it.used_externals = set()
    from .. import speclib
    it.spec_funcs.update(speclib.SPEC_FUNCS)
    for m in MODULES:
        mod = importlib.import_module(f"pyvc.externals.{m}")
        for dotted, (fn, doc) in mod.HANDLERS.items():
            it.externals[dotted] = _wrap(it, dotted, fn, doc)
        for key, fn in getattr(mod, "ATTRS", {}).items():
            it.ext_attrs[key] = fn
        it.spec_funcs.update(getattr(mod, "SPEC_FUNCS", {}))


def _wrap(it, dotted, fn, doc):
    def h(interp, args, kwargs, node):
        interp.used_externals.add(f"{dotted}: {doc}")
        return fn(interp, args, kwargs, node)
    return h
