"""numpy reductions on lists and the TransformDict abstraction (assumed contracts)."""
import z3
from ..values import *
from ..ops import to_real_z
from .pymath import sqrt_of

_MEAN = z3.Function("np_mean", z3.ArraySort(I, R), I, R)
TF = [z3.Function(f"tf_pos{i}", I, I, I, R, R, R, R) for i in range(3)]   # (transforms, src, dst, x, y, z) -> coordinate i
TFQ = z3.Function("tf_rot", I, I, I, I, I)                                  # (transforms, src, dst, quaternion) -> quaternion


def _mean(interp, args, kwargs, node):
    v = args[0]
    if v.kind == "slist":
        if not isinstance(v.elem, (TReal, TInt)):
            raise EngineError("np.mean of a non-numeric SMT list")
        inner = z3.Select(interp.ctx.item_map("", v.elem.comps()[0][1]), v.z)
        if isinstance(v.elem, TInt):
            raise EngineError("np.mean of int list: declare it as real")
        return VReal(_MEAN(inner, interp.ctx.slen(v.z)))
    items = interp.iter_concrete(v, node)
    if not items:
        raise EngineError("np.mean of empty concrete list")
    acc = to_real_z(items[0])
    for x in items[1:]:
        acc = acc + to_real_z(x)
    return VReal(acc / len(items))


def frame_key(interp, key, node):
    """(src, dst) z3 Int indices of a (FrameID, FrameID) tuple key"""
    if key.kind != "tuple" or len(key.items) != 2 or any(k.kind != "enum" for k in key.items):
        raise EngineError(f"transform key {key}")
    return key.items[0].z, key.items[1].z


def _tf_transform(interp, args, kwargs, node):
    """TransformDict.transform(key, position[, rotation]): X->X returns its arguments unchanged (verified for the real
    class under C18); otherwise an uninterpreted function of (registry, src, dst, argument)"""
    tf, key = args[0], args[1]
    src, dst = frame_key(interp, key, node)
    rest = list(args[2:])
    pos = rest[0] if rest else kwargs.get("position")
    rot = rest[1] if len(rest) > 1 else kwargs.get("rotation")
    pos = interp.unwrap(pos, node)
    if pos.kind != "tuple":
        raise EngineError(f"transform of {pos}")
    x, y, z = [to_real_z(c) for c in pos.items]
    same = z3.BoolVal(True) if tf.data.get("identity") else src == dst     # a registry holding only the identity matrix changes nothing
    out = VTuple([VReal(z3.If(same, c, TF[i](tf.z, src, dst, x, y, z))) for i, c in enumerate((x, y, z))])
    if rot is None:
        return out
    if rot.kind != "opaque":
        raise EngineError(f"transform of rotation {rot}")
    return VTuple((out, VOpaque("quaternion", z3.If(same, rot.z, TFQ(tf.z, src, dst, rot.z)))))


def _eye(interp, args, kwargs, node):
    return VOpaque("ndarray", data={"eye": args[0].const})


HANDLERS = {
    "numpy.eye": (_eye, "np.eye(n) is the identity matrix"),
    "numpy.mean": (_mean, "np.mean(list) is a function of the list's items and length only"),
    "transformdict.transform": (_tf_transform, "TransformDict.transform((X, X), p) == p; otherwise a function of (registry, src, dst, p)"),
}
ATTRS = {}


def spec_hypot(interp, e, fr):
    xs = [to_real_z(interp.ev(a, fr)) for a in e.args]
    return VReal(sqrt_of(interp, sum((x * x for x in xs[1:]), xs[0] * xs[0])))


def spec_mean(interp, e, fr):
    return _mean(interp, [interp.ev(e.args[0], fr)], {}, e)


SPEC_FUNCS = {"hypot": spec_hypot, "mean": spec_mean}
