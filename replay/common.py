"""Shared helpers of the native replay / witness-search harnesses (run under /venv/bin/python on the real code)."""
import hashlib
import json
import os
import re
import sys

VERIF = os.path.dirname(os.path.dirname(os.path.abspath(__file__)))


def model_strings(model_sexpr):
    """string constants assigned in a z3 model (define-fun name () String "...")"""
    out = []
    for m in re.finditer(r'\(define-fun\s+(\S+)\s+\(\)\s+String\s+"((?:[^"]|"")*)"\)', model_sexpr or ""):
        s = m.group(2).replace('""', '"')
        s = re.sub(r"\\u\{([0-9a-fA-F]+)\}", lambda k: chr(int(k.group(1), 16)), s)
        out.append((m.group(1), s))
    return out


def model_scalars(model_sexpr):
    """{name: python number} for Int / Real constants of a z3 model"""
    out = {}
    for m in re.finditer(r"\(define-fun\s+(\S+)\s+\(\)\s+(Int|Real)\s+(.+?)\)\s*(?=\(define-fun|\Z)", model_sexpr or "", re.S):
        out[m.group(1)] = _num(m.group(3).strip())
    return out


def _num(t):
    t = t.strip()
    m = re.fullmatch(r"\(- (.+)\)", t)
    if m:
        v = _num(m.group(1))
        return None if v is None else -v
    m = re.fullmatch(r"\(/ (.+?) (.+?)\)", t)
    if m:
        a, b = _num(m.group(1)), _num(m.group(2))
        return None if a is None or b in (None, 0) else a / b
    try:
        return int(t)
    except ValueError:
        try:
            return float(t)
        except ValueError:
            return None


TIER = "quick"


def budget(n):
    """number of random cases: the thorough tier explores ten times as many"""
    return n * 10 if TIER == "thorough" else n


def write_replay(pid, key, payload):
    d = os.path.join(VERIF, "replays")
    os.makedirs(d, exist_ok=True)
    h = hashlib.sha256((key + json.dumps(payload, sort_keys=True, default=str)).encode()).hexdigest()[:10]
    path = os.path.join(d, f"{pid}-{re.sub(r'[^A-Za-z0-9_.]+', '_', key.split('::')[-1])[:50]}-{h}.json")
    payload = dict(payload)
    payload.update(property=pid, obligation=key, kind="failing-input")
    json.dump(payload, open(path, "w"), indent=1, default=str)
    return path


def main(pid, search_fn, replay_fn):
    """search_fn(failed_item, seed) -> None | dict(payload..., tag=?) ; replay_fn(payload) -> (ok: bool, text)"""
    if sys.argv[1] == "--search":
        req = json.load(open(sys.argv[2]))
        global TIER
        TIER = req.get("tier", "quick")
        results = {}
        for item in req["failed"]:
            err = None
            try:
                w = search_fn(item, req.get("seed", 0))
            except Exception as ex:   # harness error: no witness, never a violation by itself -- but reported, so that a broken harness is not mistaken for "nothing found"
                import traceback
                err = f"{type(ex).__name__}: {ex} ({traceback.format_exc().strip().splitlines()[-3].strip()[:160]})"
                sys.stderr.write(f"witness search error for {item['key']}: {err}\n")
                w = None
            if err is not None:
                results[item["key"]] = dict(found=False, error=err)
            elif w is not None and "known_only" in w:
                # nothing new, but findings listed in known_findings.json (by witness tag) were observed again
                results[item["key"]] = dict(found=False, known=sorted(w["known_only"]))
            elif w is not None:
                tag = w.pop("tag", None)
                path = write_replay(pid, item["key"], w)
                results[item["key"]] = dict(found=True, replay=path, tag=tag)
            else:
                results[item["key"]] = dict(found=False)
        print(json.dumps(dict(results=results)))
        return 0
    if sys.argv[1] == "--replay":
        payload = json.load(open(sys.argv[2]))
        ok, text = replay_fn(payload)
        print(text)
        if not ok:
            print(f"VIOLATION property={pid} replay={sys.argv[2]}")
            return 1
        print(f"replay of {sys.argv[2]}: the property holds on this input now")
        return 0
    return 3
