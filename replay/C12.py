"""C12 native harness (bounded stand-in for the assumed geometric contract of crop_pointcloud and for the end-to-end clauses):
the real crop functions and SensingFrameResult against an independent point-in-polygon test (ray casting), on points that are not
within 1e-6 of a boundary."""
import math
import random
import sys
import types

from common import main, budget
import build

EPS = 1e-6


def box_poly(d, scale):
    """scaled footprint of the box in the ground plane: its four base corners turned by the box's full orientation (yaw, then optional pitch and roll)
    and projected; the box's vertical extent stays centre +- height / 2"""
    w, l, h = d["size"]
    cy, sy = math.cos(d["yaw"]), math.sin(d["yaw"])
    cp, sp = math.cos(d.get("pitch", 0.0)), math.sin(d.get("pitch", 0.0))
    cr, sr = math.cos(d.get("roll", 0.0)), math.sin(d.get("roll", 0.0))
    # R = Rz(yaw) Ry(pitch) Rx(roll); a base corner (px, py, 0) goes to the first two rows of R applied to it
    r00, r01 = cy * cp, cy * sp * sr - sy * cr
    r10, r11 = sy * cp, sy * sp * sr + cy * cr
    return [(d["x"] + (r00 * px + r01 * py) * scale, d["y"] + (r10 * px + r11 * py) * scale)
            for px, py in ((l / 2, w / 2), (-l / 2, w / 2), (-l / 2, -w / 2), (l / 2, -w / 2))]


def seg_dist(p, a, b):
    ax, ay, bx, by = *a, *b
    dx, dy = bx - ax, by - ay
    t = 0.0 if dx == dy == 0 else max(0.0, min(1.0, ((p[0] - ax) * dx + (p[1] - ay) * dy) / (dx * dx + dy * dy)))
    return math.hypot(p[0] - ax - t * dx, p[1] - ay - t * dy)


def in_poly(p, poly):
    """ray casting; None when the point is within EPS of the boundary"""
    if min(seg_dist(p, poly[i], poly[(i + 1) % len(poly)]) for i in range(len(poly))) < EPS:
        return None
    inside = False
    for i in range(len(poly)):
        (x1, y1), (x2, y2) = poly[i], poly[(i + 1) % len(poly)]
        if (y1 > p[1]) != (y2 > p[1]) and p[0] < x1 + (p[1] - y1) * (x2 - x1) / (y2 - y1):
            inside = not inside
    return inside


def in_prism(p, poly, zlo, zhi):
    a = in_poly(p[:2], poly)
    if a is None or abs(p[2] - zlo) < EPS or abs(p[2] - zhi) < EPS:
        return None
    return a and zlo < p[2] < zhi


def obj(d):
    o = build.obj3d(dict(d, label="car"))
    if d.get("pitch") or d.get("roll"):
        from pyquaternion import Quaternion
        o.state.orientation = (Quaternion(axis=[0, 0, 1], radians=d["yaw"]) * Quaternion(axis=[0, 1, 0], radians=d.get("pitch", 0.0)) *
                               Quaternion(axis=[1, 0, 0], radians=d.get("roll", 0.0)))
    return o


def check_crop(case):
    import numpy as np
    from perception_eval.common.point import crop_pointcloud
    d, scale = case["box"], case["scale"]
    pts = np.array(case["points"], dtype=float)
    o = obj(d)
    poly = box_poly(d, scale)
    zlo, zhi = d["z"] - d["size"][2] / 2, d["z"] + d["size"][2] / 2
    ins = o.crop_pointcloud(pts, scale, inside=True)
    out = o.crop_pointcloud(pts, scale, inside=False)
    if len(ins) + len(out) != len(pts):
        return f"inside ({len(ins)}) and outside ({len(out)}) selections do not partition the {len(pts)} points"
    got_in = {tuple(r) for r in ins.tolist()}
    got_out = {tuple(r) for r in out.tolist()}
    if got_in & got_out:
        return "a point is reported both inside and outside"
    for row in pts.tolist():
        want = in_prism(row, poly, zlo, zhi)
        if want is None:
            continue
        if (tuple(row) in got_in) != want:
            return f"point {row[:3]} is {'inside' if want else 'outside'} the scaled box but reported {'inside' if tuple(row) in got_in else 'outside'}"
    if o.get_inside_pointcloud_num(pts, scale) != len(ins) or o.point_exist(pts, scale) != (len(ins) > 0):
        return "get_inside_pointcloud_num / point_exist disagree with the inside selection"
    big = o.crop_pointcloud(pts, scale * case["grow"], inside=True)
    if not got_in <= {tuple(r) for r in big.tolist()}:
        return f"enlarging the scale from {scale} to {scale * case['grow']} removed an inside point"
    # a general polygonal prism through the module-level function
    if case.get("prism"):
        poly2, z0, z1 = case["prism"]["poly"], case["prism"]["z0"], case["prism"]["z1"]
        area = [(x, y, z1) for x, y in poly2] + [(x, y, z0) for x, y in poly2]
        got = {tuple(r) for r in crop_pointcloud(pts, area, inside=True).tolist()}
        rest = crop_pointcloud(pts, area, inside=False)
        if len(got) + len(rest) != len({tuple(r) for r in pts.tolist()}) and len(crop_pointcloud(pts, area)) + len(rest) != len(pts):
            return "prism: inside and outside do not partition the cloud"
        for row in pts.tolist():
            want = in_prism(row, poly2, z0, z1)
            if want is not None and (tuple(row) in got) != want:
                return f"prism: point {row[:3]} is {'inside' if want else 'outside'} but reported otherwise"
    return None


def check_frame(case):
    import numpy as np
    from perception_eval.common.schema import Visibility
    from perception_eval.evaluation.sensing.sensing_frame_config import SensingFrameConfig
    from perception_eval.evaluation.sensing.sensing_frame_result import SensingFrameResult
    cfg = SensingFrameConfig(None, case["s0"], case["s100"], case["min_points"])
    gts = []
    for d in case["gts"]:
        o = obj(d)
        o.visibility = Visibility.from_value(d["vis"]) if d.get("vis") else None
        gts.append(o)
    det = np.array(case["points"], dtype=float)
    nondet = [np.array(c, dtype=float).reshape(-1, 3) for c in case["nondet"]]
    fr = SensingFrameResult(cfg, 0, "0")
    fr.evaluate_frame(gts, det, nondet)
    seen = []
    for name, lst in (("success", fr.detection_success_results), ("fail", fr.detection_fail_results), ("warning", fr.detection_warning_results)):
        for r in lst:
            seen.append((id(r.ground_truth_object), name, r))
    if sorted(i for i, _, _ in seen) != sorted(id(g) for g in gts):
        return f"{len(gts)} ground truths, classified: {[n for _, n, _ in seen]}"
    for g, d in zip(gts, case["gts"]):
        name, r = [(n, r) for i, n, r in seen if i == id(g)][0]
        # the two configured numbers are the footprint scale at 0 m and at 100 m from the ego; in between and beyond, the straight line through them
        scale = case["s0"] + (case["s100"] - case["s0"]) * math.sqrt(d["x"] ** 2 + d["y"] ** 2 + d["z"] ** 2) / 100.0
        poly = box_poly(d, scale)
        flags = [in_prism(p, poly, d["z"] - d["size"][2] / 2, d["z"] + d["size"][2] / 2) for p in case["points"]]
        if any(f is None for f in flags):
            continue
        n_in = sum(flags)
        want = "warning" if d.get("vis") == "none" else ("success" if n_in >= case["min_points"] else "fail")
        if name != want or r.inside_pointcloud_num != n_in:
            return f"ground truth {d['uuid']}: {n_in} points inside (threshold {case['min_points']}, visibility {d.get('vis')}), reported {name} with {r.inside_pointcloud_num} points"
    # non-detection failures: exactly the points of each area cloud outside every scaled box
    want_clouds = []
    for cl in case["nondet"]:
        rest, undecided = [], False
        for p in cl:
            inside_any = False
            for d in case["gts"]:
                scale = case["s0"] + (case["s100"] - case["s0"]) * math.sqrt(d["x"] ** 2 + d["y"] ** 2 + d["z"] ** 2) / 100.0
                f = in_prism(p, box_poly(d, scale), d["z"] - d["size"][2] / 2, d["z"] + d["size"][2] / 2)
                if f is None:
                    undecided = True
                inside_any = inside_any or bool(f)
            if not inside_any:
                rest.append(tuple(p))
        if undecided:
            return None
        if rest:
            want_clouds.append(sorted(rest))
    got_clouds = [sorted(tuple(r) for r in c.tolist()) for c in fr.pointcloud_failed_non_detection]
    if got_clouds != want_clouds:
        return f"non-detection failures {got_clouds}, expected the points outside every scaled box: {want_clouds}"
    return None


def check_manager(case):
    """the manager's pre-crop: for each non-detection area, exactly the points of the cloud inside the area and outside EVERY scaled ground-truth box"""
    import types
    import numpy as np
    from perception_eval.manager.sensing_evaluation_manager import SensingEvaluationManager
    m = SensingEvaluationManager.__new__(SensingEvaluationManager)
    m.evaluator_config = types.SimpleNamespace(metrics_params=dict(box_scale_0m=case["s0"], box_scale_100m=case["s100"]))
    gts = [obj(d) for d in case["gts"]]
    pts = np.array(case["points"], dtype=float).reshape(-1, 3)
    areas = [prism_corners(a) for a in case["areas"]]
    out = m.crop_pointcloud(gts, pts, areas)
    if len(out) != len(areas):
        return f"{len(areas)} areas, {len(out)} clouds"
    for a, got in zip(case["areas"], out):
        got_rows = sorted(tuple(r) for r in np.asarray(got).reshape(-1, 3).tolist())
        want = []
        for p in case["points"]:
            fa = in_prism(p, a["poly"], a["z0"], a["z1"])
            if fa is None:
                break
            inside_some = False
            for d in case["gts"]:
                scale = case["s0"] + (case["s100"] - case["s0"]) * math.sqrt(d["x"] ** 2 + d["y"] ** 2 + d["z"] ** 2) / 100.0
                f = in_prism(p, box_poly(d, scale), d["z"] - d["size"][2] / 2, d["z"] + d["size"][2] / 2)
                if f is None:
                    fa = None
                    break
                inside_some = inside_some or f
            if fa is None:
                break
            if fa and not inside_some:
                want.append(tuple(float(v) for v in p))
        else:
            if got_rows != sorted(want):
                return f"area {a['poly']}: cropped cloud {got_rows}, points inside the area and outside every scaled box: {sorted(want)}"
    return None


def check_manager_frame(case):
    """add_frame_result with target_uuids: a non-detection failure is never a point inside the scaled box of ANY annotated object, target or not"""
    import types
    import numpy as np
    from perception_eval.common.dataset import FrameGroundTruth
    from perception_eval.evaluation.sensing.sensing_frame_config import SensingFrameConfig
    from perception_eval.manager.sensing_evaluation_manager import SensingEvaluationManager
    m = SensingEvaluationManager.__new__(SensingEvaluationManager)
    m.evaluator_config = types.SimpleNamespace(metrics_params=dict(box_scale_0m=case["s0"], box_scale_100m=case["s100"], min_points_threshold=1),
                                               filtering_params=dict(target_uuids=None))
    m.frame_results = []
    gts = [obj(d) for d in case["gts"]]
    for o, d in zip(gts, case["gts"]):
        o.uuid = d["uuid"]
    frame = FrameGroundTruth(0, "0", gts, transforms=build.ego_matrix(None))
    cfg = SensingFrameConfig(case["target_uuids"], case["s0"], case["s100"], 1)
    pts = np.array(case["points"], dtype=float).reshape(-1, 3)
    res = m.add_frame_result(0, frame, pts, [prism_corners(a) for a in case["areas"]], sensing_frame_config=cfg)
    for cloud in res.pointcloud_failed_non_detection:
        for p in np.asarray(cloud).reshape(-1, 3).tolist():
            for d in case["gts"]:
                scale = case["s0"] + (case["s100"] - case["s0"]) * math.sqrt(d["x"] ** 2 + d["y"] ** 2 + d["z"] ** 2) / 100.0
                if in_prism(p, box_poly(d, scale), d["z"] - d["size"][2] / 2, d["z"] + d["size"][2] / 2):
                    return f"point {p} is reported as a non-detection failure although it lies inside the scaled box of the annotated object {d['uuid']} (targets: {case['target_uuids']})"
    return None


def prism_corners(a):
    """a prism as the library takes it: upper corners then lower corners"""
    return [(x, y, a["z1"]) for x, y in a["poly"]] + [(x, y, a["z0"]) for x, y in a["poly"]]


def gen_box(rng):
    d = _gen_box(rng)
    if rng.random() < 0.3:      # a box on a slope
        d.update(pitch=round(rng.uniform(-0.25, 0.25), 3), roll=round(rng.uniform(-0.15, 0.15), 3))
    return d


def _gen_box(rng):
    return dict(x=round(rng.uniform(-20, 20), 2), y=round(rng.uniform(-20, 20), 2), z=round(rng.uniform(-1, 1), 2), yaw=round(rng.uniform(-3.1, 3.1), 2),
                size=(rng.choice([0.4, 1.8, 2.5]), rng.choice([0.6, 4.5, 10.0]), rng.choice([0.5, 1.6, 3.0])), uuid=str(rng.randint(0, 999)))


def points_near(rng, d, n):
    out = []
    for _ in range(n):
        r = max(d["size"]) * rng.choice([0.2, 0.6, 1.0, 1.6])
        out.append([round(d["x"] + rng.uniform(-r, r), 3), round(d["y"] + rng.uniform(-r, r), 3), round(d["z"] + rng.uniform(-1.2, 1.2) * d["size"][2], 3)])
    return out


def search(item, seed):
    rng = random.Random((seed or 0) * 17 + 12)
    for _ in range(budget(150)):
        d = gen_box(rng)
        pts = points_near(rng, d, rng.randint(0, 40))
        if rng.random() < 0.3:
            pts = [p + [rng.random()] for p in pts]           # extra intensity column
        case = dict(box=d, scale=rng.choice([0.7, 1.0, 1.3, 2.0]), grow=rng.choice([1.0, 1.2, 2.0]), points=pts)
        if rng.random() < 0.5 and pts:
            k = rng.randint(3, 7)
            R = rng.uniform(1, 8)
            angs = sorted(rng.uniform(0, 2 * math.pi) for _ in range(k))
            if rng.random() < 0.5:
                angs = angs[::-1]                               # clockwise vertex order
            case["prism"] = dict(poly=[(round(d["x"] + R * rng.uniform(0.5, 1) * math.cos(a), 2), round(d["y"] + R * rng.uniform(0.5, 1) * math.sin(a), 2)) for a in angs],
                                 z0=d["z"] - 1.0, z1=d["z"] + 1.0)
        if not pts:
            continue
        try:
            why = check_crop(case)
        except Exception as ex:
            why = f"raised {type(ex).__name__}: {ex}"
        if why:
            return dict(function="crop_pointcloud", input=case, observed=why)
    for _ in range(budget(60)):
        gts = [dict(gen_box(rng), vis=rng.choice([None, "full", "none", "partial"])) for _ in range(rng.randint(0, 3))]
        for g in gts:
            if rng.random() < 0.3:      # far objects: beyond the 100 m at which the second scale is specified
                a = rng.uniform(0, 2 * math.pi)
                R = rng.uniform(105, 180)
                g.update(x=round(R * math.cos(a), 2), y=round(R * math.sin(a), 2))
        pts = [p for d in gts for p in points_near(rng, d, rng.randint(0, 6))] or [[50.0, 50.0, 0.0]]
        nondet = [[p for d in gts for p in points_near(rng, d, rng.randint(0, 4))] + [[round(rng.uniform(-40, 40), 2), round(rng.uniform(-40, 40), 2), round(rng.uniform(-1, 1), 2)]
                                                                                        for _ in range(rng.randint(0, 3))] for _ in range(rng.randint(0, 2))]
        case = dict(gts=gts, points=pts, nondet=nondet, s0=rng.choice([1.0, 1.1, 2.0]), s100=rng.choice([1.0, 1.5, 2.0]), min_points=rng.choice([0, 1, 2, 5]))
        try:
            why = check_frame(case)
        except Exception as ex:
            why = f"raised {type(ex).__name__}: {ex}"
        if why:
            return dict(function="SensingFrameResult.evaluate_frame", input=case, observed=why)
    for _ in range(budget(60)):
        gts = [gen_box(rng) for _ in range(rng.randint(0, 3))]
        areas = []
        for _a in range(rng.randint(1, 2)):
            cx, cy = (gts[0]["x"], gts[0]["y"]) if gts and rng.random() < 0.8 else (round(rng.uniform(-20, 20), 2), round(rng.uniform(-20, 20), 2))
            R = rng.uniform(6, 25)
            angs = sorted(rng.uniform(0, 2 * math.pi) for _ in range(rng.randint(3, 6)))
            areas.append(dict(poly=[(round(cx + R * rng.uniform(0.6, 1) * math.cos(t), 2), round(cy + R * rng.uniform(0.6, 1) * math.sin(t), 2)) for t in angs], z0=-3.0, z1=3.0))
        pts = [p for d in gts for p in points_near(rng, d, rng.randint(1, 5))] + [[round(rng.uniform(-30, 30), 2), round(rng.uniform(-30, 30), 2), round(rng.uniform(-1, 1), 2)] for _ in range(rng.randint(0, 4))]
        if not pts:
            continue
        case = dict(gts=gts, points=pts, areas=areas, s0=rng.choice([1.0, 1.1, 2.0]), s100=rng.choice([1.0, 1.5, 2.0]))
        try:
            why = check_manager(case)
        except Exception as ex:
            why = f"raised {type(ex).__name__}: {ex}"
        if why:
            return dict(function="SensingEvaluationManager.crop_pointcloud", input=case, observed=why)
        if len(gts) >= 2:
            for k, g in enumerate(gts):
                g["uuid"] = f"u{k}"
            case2 = dict(case, target_uuids=[g["uuid"] for g in gts[:rng.randint(1, len(gts) - 1)]])
            try:
                why = check_manager_frame(case2)
            except Exception as ex:
                why = f"raised {type(ex).__name__}: {ex}"
            if why:
                return dict(function="SensingEvaluationManager.add_frame_result", input=case2, observed=why)
    return None


def replay(payload):
    i = payload["input"]
    if "target_uuids" in i:
        for g in i["gts"]:
            g["size"] = tuple(g["size"])
        for a in i["areas"]:
            a["poly"] = [tuple(v) for v in a["poly"]]
        why = check_manager_frame(i)
        return (why is None, why or "ok")
    if "areas" in i:
        for g in i["gts"]:
            g["size"] = tuple(g["size"])
        for a in i["areas"]:
            a["poly"] = [tuple(v) for v in a["poly"]]
        why = check_manager(i)
        return (why is None, why or "ok")
    if "box" in i:
        i["box"]["size"] = tuple(i["box"]["size"])
        why = check_crop(i)
    else:
        for g in i["gts"]:
            g["size"] = tuple(g["size"])
        why = check_frame(i)
    return (why is None, why or "ok")


if __name__ == "__main__":
    sys.exit(main("C12", search, replay))
