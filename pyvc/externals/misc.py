"""small library calls that are opaque to the heap model"""
import z3
from ..values import *


def _deepcopy_unsupported(interp, args, kwargs, node):
    raise EngineError("copy.deepcopy needs a per-class model")


def _noop(interp, args, kwargs, node):
    return NONE


def _tqdm(interp, args, kwargs, node):
    return args[0]


def _shallow_copy(interp, args, kwargs, node):
    """copy.copy(obj): a new object of the same class whose fields hold the same values (shallow)"""
    import z3
    from ..values import REF_TYPE, TSObj
    o = args[0]
    if o.kind == "sobj":
        cm = interp.class_models[o.cname]
        r = interp.ctx.new_sref("copy_" + o.cname)
        interp.ctx.assume(REF_TYPE(r) == TSObj(o.cname).tag())
        new = VSObj(r, o.cname)
        for fname, t in cm.fields.items():
            for (p, srt) in t.comps():
                m = interp.ctx.field_map(o.cname, fname, p, srt)
                interp.ctx.sheap[("f", o.cname, fname, p)] = z3.Store(m, r, z3.Select(m, o.z))
        return new
    if o.kind == "ref" and o.rkind == "obj":
        return interp.ctx.new_cell("obj", dict(interp.ctx.cell(o)), o.cls)
    if o.kind == "ref" and o.rkind == "list":
        return interp.ctx.new_cell("list", list(interp.ctx.cell(o)))
    if o.kind == "slist":
        return interp.slist_copy(o, node)
    raise EngineError(f"copy.copy of {o}")


HANDLERS = {
    "copy.copy": (_shallow_copy, "copy.copy(x) is a new object of the same class with the same field values"),
    "tqdm.tqdm": (_tqdm, "tqdm(x) iterates x"),
    "os.makedirs": (_noop, "filesystem call, outside the heap model"),
}
ATTRS = {}
