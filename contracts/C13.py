"""C13 — scene scores pool the frame results; frame evaluation is history-independent.

Frame conditions (proved, not assumed): PerceptionEvaluationManager._filter_objects and add_frame_result do not write to
the caller's estimate list, to the ground-truth frame they are handed (it belongs to the loaded dataset), or to any other
pre-existing object; add_frame_result appends exactly one new frame result; the previous result is consulted only as the
`previous_result` argument of evaluate_frame.
"""
from pyvc.api import *
import contracts.C10 as C10

MG = "manager.perception_evaluation_manager"
OF = "evaluation.matching.objects_filter"
OR = "evaluation.result.object_result"
FR = "evaluation.result.perception_frame_result"


def build(P):
    idx = P.index
    C10.models(P)
    P.min_obligations = 20
    DO = TSObj("DynamicObject")
    AL = TEnum(idx.lookup("common.label:AutowareLabel"))
    P.model(ClassModel("DynamicObjectWithPerceptionResult", {"estimated_object": DO, "ground_truth_object": TSObj("DynamicObject", nullable=True)},
                       repo_class=idx.lookup(f"{OR}:DynamicObjectWithPerceptionResult")))
    P.model(ClassModel("FrameGroundTruth", {"objects": TSList(DO), "transforms": TOpaque("transformdict"), "frame_name": TStr(), "unix_time": TInt()},
                       repo_class=idx.lookup("common.dataset:FrameGroundTruth")))
    frc = P.model(ClassModel("PerceptionFrameResult", {"object_results": TSList(TSObj("DynamicObjectWithPerceptionResult")),
                                                         "frame_ground_truth": TSObj("FrameGroundTruth"), "unix_time": TInt()},
                             repo_class=idx.lookup(f"{FR}:PerceptionFrameResult")))
    frc.alloc_smt = True
    RT = TSList(TSObj("DynamicObjectWithPerceptionResult"))
    FGT = TSObj("FrameGroundTruth")
    import ast as _ast
    cfg = idx.lookup("config.perception_evaluation_config:PerceptionEvaluationConfig._extract_params")
    keys = None
    for nd in _ast.walk(cfg.node):
        if isinstance(nd, _ast.AnnAssign) and isinstance(nd.value, _ast.Dict) and _ast.unparse(nd.target) == "f_params":
            keys = [k.value for k in nd.value.keys]
    assert keys, "f_params literal not found"
    KT = {"target_labels": Opt(TSList(AL)), "ignore_attributes": Opt(TSList(TStr())), "min_point_numbers": Opt(TSList(TInt())), "target_uuids": Opt(TSList(TStr())),
          "uuid_matching_first": TBool()}
    MGR = idx.lookup(f"{MG}:PerceptionEvaluationManager")
    ET = idx.lookup("common.evaluation_task:EvaluationTask")
    MLP = idx.lookup("evaluation.matching.object_matching:MatchingLabelPolicy")

    def plain(it, **f):
        o = it.ctx.new_cell("obj", {}, None)
        it.ctx.cell(o).update(f)
        return o

    def make_manager(it):
        vals = {k: KT.get(k, Opt(TSList(TReal()))).fresh(it.ctx, "f_" + k) for k in keys}
        fp = it.ctx.new_cell("dict", ([VStr(k) for k in keys], [vals[k] for k in keys]))
        lp = it.ctx.new_cell("dict", ([VStr("matching_label_policy")], [TEnum(MLP).fresh(it.ctx, "policy")]))
        ev = plain(it, filtering_params=fp, label_params=lp, target_labels=vals["target_labels"], metrics_config=plain(it))
        o = it.ctx.new_cell("obj", {}, MGR)
        it.ctx.cell(o).update(evaluator_config=ev, filtering_params=fp, evaluation_task=TEnum(ET).fresh(it.ctx, "task"),
                              target_labels=vals["target_labels"], metrics_config=plain(it),
                              frame_results=TSList(TSObj("PerceptionFrameResult")).fresh(it.ctx, "frame_results"))
        return o
    # the three callees are cut at NAMED results (uninterpreted functions of the lists they are given): what they compute is their own contract (C10, C01/C02);
    # here: which lists the manager hands to which callee, and that what it returns is the matcher's answer for the two filtered lists
    import z3 as _z3w
    FILT = _z3w.Function("filtered_objects", I, B, I)             # (list of objects, is_gt) -> the list filter_objects returns
    PAIRED = _z3w.Function("paired_results", I, I, I)             # (estimates, ground truths) -> the list get_object_results returns
    FRES = _z3w.Function("uuid_filtered_results", I, I)           # results -> the list filter_object_results returns
    DOL = TSList(DO)

    def named(fn, elem, *argnames):
        def build_(it, cf):
            zs = []
            for a in argnames:
                v = cf.vars[a]
                zs.append(it.truth(v) if a == "is_gt" else v.z)
            z = fn(*zs)
            it.ctx.assume(_z3w.And(z != 0, it.ctx.slen(z) >= 0))
            return VSList(z, elem)
        return build_

    def spec_named(fn, elem, bool_second=False):
        def f(interp, e, fr):
            a = [interp.ev(x, fr) for x in e.args]
            zs = [a[0].z] + ([interp.truth(a[1])] if bool_second else [x.z for x in a[1:]])
            return VSList(fn(*zs), elem)
        return f
    P.install(lambda it: it.spec_funcs.update(filtered_objects=spec_named(FILT, DOL.elem, True), paired_results=spec_named(PAIRED, RT.elem),
                                              uuid_filtered_results=spec_named(FRES, RT.elem)))
    new_named = lambda target, fn, t, *argn: Contract(target, params={}, returns=named(fn, t.elem, *argn), ensures=E("new_list", "is_new(result)"))
    gor = new_named(f"{OR}:get_object_results", PAIRED, RT, "estimated_objects", "ground_truth_objects")
    cuts = {idx.lookup(f"{OF}:filter_objects").fq: new_named(f"{OF}:filter_objects", FILT, DOL, "objects", "is_gt"),
            idx.lookup(f"{OF}:filter_object_results").fq: new_named(f"{OF}:filter_object_results", FRES, RT, "object_results"),
            idx.lookup(f"{OR}:get_object_results").fq: gor}
    est_untouched = "len(estimated_objects) == old(len(estimated_objects)) and forall(k, 0, len(estimated_objects), estimated_objects[k] is old(estimated_objects[k]))"
    gt_frame_untouched = lambda f: (f"{f}.objects is old({f}.objects) and len({f}.objects) == old(len({f}.objects)) and "
                                    f"forall(k, 0, len({f}.objects), {f}.objects[k] is old({f}.objects[k])) and {f}.unix_time == old({f}.unix_time)")
    c_fo = Contract(
        f"{MG}:PerceptionEvaluationManager._filter_objects",
        params={"self": make_manager, "estimated_objects": TSList(DO), "frame_ground_truth": FGT},
        returns=TTuple(RT, FGT),
        ensures=E("callers_estimate_list_untouched", est_untouched,
                  "loaded_ground_truth_frame_untouched", gt_frame_untouched("frame_ground_truth"),
                  "evaluated_frame_is_a_new_object_with_the_same_stamp_and_transforms",
                  "is_new(result[1]) and result[1].unix_time == frame_ground_truth.unix_time and result[1].frame_name == frame_ground_truth.frame_name and "
                  "result[1].transforms is frame_ground_truth.transforms",
                  "results_are_new", "is_new(result[0])",
                  "the_evaluated_frame_holds_the_filtered_ground_truths", "result[1].objects is filtered_objects(old(frame_ground_truth.objects), True)",
                  "results_are_the_matchers_answer_for_the_two_filtered_lists",
                  "result[0] is paired_results(filtered_objects(old(estimated_objects), False), filtered_objects(old(frame_ground_truth.objects), True)) or "
                  "result[0] is uuid_filtered_results(paired_results(filtered_objects(old(estimated_objects), False), filtered_objects(old(frame_ground_truth.objects), True)))"))
    P.verify(f"{MG}:PerceptionEvaluationManager._filter_objects", name="_filter_objects", contract=c_fo, extra_contracts=cuts)
    # ---------------------------------------------------------------- add_frame_result
    ctor = Contract(f"{FR}:PerceptionFrameResult.__init__", params={},
                    assigns={"self.object_results": "object_results", "self.frame_ground_truth": "frame_ground_truth", "self.unix_time": "unix_time"})
    evalf = Contract(f"{FR}:PerceptionFrameResult.evaluate_frame", params={},
                     requires=E("evaluates_its_own_copy_of_the_frame", "is_new(self.frame_ground_truth) or not is_old(self.frame_ground_truth)"),
                     modifies=[("fieldof", "self", "object_results"), ("fieldof", "self.frame_ground_truth", "objects")],
                     assigns={})
    fo_cut = Contract(f"{MG}:PerceptionEvaluationManager._filter_objects", params={}, returns=TTuple(RT, FGT),
                      ensures=[e for e in c_fo.ensures])
    n0 = "old(len(self.frame_results))"
    c_add = Contract(
        f"{MG}:PerceptionEvaluationManager.add_frame_result", cut=False,
        params={"self": make_manager, "unix_time": TInt(), "ground_truth_now_frame": FGT, "estimated_objects": TSList(DO),
                "critical_object_filter_config": lambda it: plain(it), "frame_pass_fail_config": lambda it: plain(it)},
        modifies=["self.frame_results"],
        ensures=E("exactly_one_frame_result_appended", f"len(self.frame_results) == {n0} + 1 and self.frame_results[{n0}] is result and "
                                                       f"forall(k, 0, {n0}, self.frame_results[k] is old(self.frame_results[k]))",
                  "result_is_a_new_object", "is_new(result)",
                  "callers_estimate_list_untouched", est_untouched,
                  "loaded_ground_truth_frame_untouched", gt_frame_untouched("ground_truth_now_frame"),
                  "earlier_results_untouched", f"forall(k, 0, {n0}, self.frame_results[k].object_results is old(self.frame_results[k].object_results) and "
                                               f"self.frame_results[k].frame_ground_truth is old(self.frame_results[k].frame_ground_truth))"))
    P.verify(f"{MG}:PerceptionEvaluationManager.add_frame_result", name="add_frame_result", contract=c_add,
             extra_contracts={idx.lookup(f"{MG}:PerceptionEvaluationManager._filter_objects").fq: fo_cut,
                              idx.lookup(f"{FR}:PerceptionFrameResult.__init__").fq: ctor,
                              idx.lookup(f"{FR}:PerceptionFrameResult.evaluate_frame").fq: evalf})
    # ---------------------------------------------------------------- get_scene_result: the scene is scored on the pooled per-frame results
    import z3 as _z3
    from pyvc.lemmas import running_total
    from pyvc.builtins import STR_IS_INT
    ALC = idx.lookup("common.label:AutowareLabel")
    DIV = _z3.Function("divided_results", I, I, I)       # (list of results, label) -> the list divide_objects returns for that label
    NUM = _z3.Function("divided_count", I, I, I)         # (list of objects, label) -> the count divide_objects_to_num returns for that label
    lab_val = lambda name: member(idx, "common.label:AutowareLabel", name)

    def scene_task(LABELS_LIST, task_name, first):
        """get_scene_result for the stated target labels (a stated bound: the per-label code is one comprehension / one inner loop over the labels); a label
        listed twice (e.g. car + truck with merge_similar_labels) is still one label: every frame is pooled once and its ground truths are counted once"""
        LABELS2 = list(dict.fromkeys(LABELS_LIST))
        def div_cut(it, cf):
            objs = cf.vars["objects"]
            vals = []
            for name in LABELS2:
                z = DIV(objs.z, lab_val(name).z)
                it.ctx.assume(_z3.And(z != 0, REF_TYPE(z) == RT.tag(), _z3.Select(it.ctx.alloc, z), it.ctx.slen(z) >= 0))
                vals.append(VSList(z, RT.elem))
            return it.ctx.new_cell("dict", ([lab_val(n) for n in LABELS2], vals))

        def num_cut(it, cf):
            objs = cf.vars["objects"]
            vals = []
            for name in LABELS2:
                z = NUM(objs.z, lab_val(name).z)
                it.ctx.assume(z >= 0)
                vals.append(VInt(z))
            return it.ctx.new_cell("dict", ([lab_val(n) for n in LABELS2], vals))

        def spec_div(interp, e, fr):
            a, b = interp.ev(e.args[0], fr), interp.ev(e.args[1], fr)
            return VSList(DIV(a.z, b.z), RT.elem)

        def spec_num(interp, e, fr):
            a, b = interp.ev(e.args[0], fr), interp.ev(e.args[1], fr)
            return VInt(NUM(a.z, b.z))

        def spec_lit(interp, e, fr):
            return VBool(STR_IS_INT(interp.ev(e.args[0], fr).z))
        if first:
            P.install(lambda it: it.spec_funcs.update(divided_results=spec_div, divided_count=spec_num, py_int_literal=spec_lit))
        MSC = idx.lookup("evaluation.metrics.metrics:MetricsScore")

        def ms_cut(it, cf):
            o = it.ctx.new_cell("obj", {}, MSC)
            it.ctx.cell(o).update(config=cf.vars["config"], used_frame=cf.vars["used_frame"], seen_results=NONE, seen_num_gt=NONE)
            return o
        eval_det = Contract("evaluation.metrics.metrics:MetricsScore.evaluate_detection", params={}, assigns={"self.seen_results": "object_results", "self.seen_num_gt": "num_ground_truth"})

        def make_manager2(it):
            o = make_manager(it)
            labels = it.ctx.new_cell("list", [lab_val(n) for n in LABELS_LIST])
            mc = plain(it, detection_config=plain(it), tracking_config=NONE, prediction_config=NONE, classification_config=NONE)
            ev = it.ctx.cell(o)["evaluator_config"]
            it.ctx.cell(ev).update(target_labels=labels, metrics_config=mc)
            it.ctx.cell(o).update(target_labels=labels, metrics_config=mc)
            return o
        FRS = "self.frame_results"
        nF = f"len({FRS})"
        tot, tdefs = {}, []
        for name in LABELS2:
            g, d = running_total(f"gt_total_{name}")
            tot[f"gt_total_{name}"] = g
            tdefs += d(lambda gg, name=name: f"divided_count({FRS}[{gg}].frame_ground_truth.objects, AutowareLabel.{name})", nF)
        AFR, ANG = "all_frame_results", "all_num_gt"
        per_label = lambda f: " and ".join(f(name) for name in LABELS2)
        inv_scene = E("one_slot_per_frame_after_the_leading_empty_list",
                      per_label(lambda n: f"len({AFR}[AutowareLabel.{n}]) == i + 1 and len({AFR}[AutowareLabel.{n}][0]) == 0 and not is_old({AFR}[AutowareLabel.{n}]) and "
                                          f"well_typed({AFR}[AutowareLabel.{n}][0]) and allocated({AFR}[AutowareLabel.{n}][0]) and allocated({AFR}[AutowareLabel.{n}])") +
                      "".join(f" and {AFR}[AutowareLabel.{x}] is not {AFR}[AutowareLabel.{y}]" for x, y in zip(LABELS2, LABELS2[1:])),
                      "slot_k_holds_frame_k_results_of_that_label",
                      per_label(lambda n: f"forall(k, 0, i, {AFR}[AutowareLabel.{n}][k + 1] is divided_results({FRS}[k].object_results, AutowareLabel.{n}))"),
                      "ground_truth_counts_add_up", per_label(lambda n: f"{ANG}[AutowareLabel.{n}] == gt_total_{n}(i)"),
                      "frames_used", f"len(used_frame) == i and not is_old(used_frame) and forall(k, 0, i, used_frame[k] == int({FRS}[k].frame_name))",
                      "frame_results_untouched", f"{nF} == old({nF}) and forall(k, 0, {nF}, {FRS}[k] is old({FRS}[k]))")
        if first:
            P.model(ClassModel("PerceptionFrameResult", {"object_results": RT, "frame_ground_truth": TSObj("FrameGroundTruth"), "unix_time": TInt(), "frame_name": TStr()},
                               repo_class=idx.lookup(f"{FR}:PerceptionFrameResult"))).alloc_smt = True
        line = [nd.lineno for nd in _ast.walk(idx.lookup(f"{MG}:PerceptionEvaluationManager.get_scene_result").node) if isinstance(nd, _ast.DictComp)]
        P.verify(f"{MG}:PerceptionEvaluationManager.get_scene_result", name=task_name,
                 contract=Contract(f"{MG}:PerceptionEvaluationManager.get_scene_result", cut=False, params={"self": make_manager2},
                                   locals={"used_frame": TSList(TInt()), f"#dictvalue{line[0]}": TSList(RT)},
                                   ghosts=tot, defs=tdefs,
                                   raises={"ValueError": f"exists(g, 0, {nF}, not py_int_literal({FRS}[g].frame_name))"},
                                   loops={1: LoopSpec(index="i", invariants=inv_scene)},
                                   ensures=E("the_scene_is_scored_on_the_pooled_per_frame_results",
                                             per_label(lambda n: f"len(result.seen_results[AutowareLabel.{n}]) == {nF} + 1 and "
                                                                 f"forall(k, 0, {nF}, result.seen_results[AutowareLabel.{n}][k + 1] is divided_results({FRS}[k].object_results, AutowareLabel.{n}))"),
                                             "ground_truth_counts_add_up_over_the_frames", per_label(lambda n: f"result.seen_num_gt[AutowareLabel.{n}] == gt_total_{n}({nF})"),
                                             "every_frame_is_used_once_in_order", f"len(result.used_frame) == {nF} and forall(k, 0, {nF}, result.used_frame[k] == int({FRS}[k].frame_name))",
                                             "stored_frame_results_untouched", f"{nF} == old({nF}) and forall(k, 0, {nF}, {FRS}[k] is old({FRS}[k]))")),
                 extra_contracts={idx.lookup(f"{OF}:divide_objects").fq: Contract(f"{OF}:divide_objects", params={}, returns=div_cut),
                                  idx.lookup(f"{OF}:divide_objects_to_num").fq: Contract(f"{OF}:divide_objects_to_num", params={}, returns=num_cut),
                                  MSC.fq: Contract("evaluation.metrics.metrics:MetricsScore", returns=ms_cut),
                                  idx.lookup("evaluation.metrics.metrics:MetricsScore.evaluate_detection").fq: eval_det})

    scene_task(["CAR", "PEDESTRIAN"], "get_scene_result[two target labels, detection]", True)
    scene_task(["CAR", "CAR"], "get_scene_result[one target label listed twice, detection]", False)
    # "a one-frame scene reproduces that frame's score": the frame's own score is computed from the same filtered lists that get_scene_result pools
    # (C03's evaluate_frame task with the detection metrics on, re-verified here)
    import contracts.C03 as C03
    n0_ = len(P.tasks)
    saved_models = dict(P.class_models)
    C03.build(P)
    P.tasks[n0_:] = [t for t in P.tasks[n0_:] if t.name == "PerceptionFrameResult.evaluate_frame[detection metrics on]"]
    # the pooled structure is scored by Ap: every result of every frame ranked exactly once, the caller's (= the manager's pooled) lists left as they are
    import contracts.C04 as C04
    C04.init_tasks(P)
    P.min_obligations = 40
    P.trust("copy.copy is a shallow copy into a new object (assumed)")
    P.assume("evaluate_frame writes only the object_results of its own frame result and the objects of the frame it was constructed with (its body: C03)")
    P.uncover("scene score == score of the pooled frame results end to end (Map / MetricsScore wiring between get_scene_result and Ap), order independence for distinct confidences, "
              "determinism of the whole result as a function of the arguments: covered by the native harness only (bounded)")
