"""C07 native harness (bounded): one scene, two renderings — every object in the ego frame, or every object in the map frame with the ego
pose supplied — evaluated by the real pipeline (critical filter, matching, pass/fail, AP/APH per matching mode; CLEAR over a two-frame
history).  Decisions are kept away from their thresholds by construction, so the two runs must agree exactly on the lists and up to
1e-6 on the numbers."""
import math
import random
import sys

from common import main, budget
import frames

TARGETS = ["car", "pedestrian", "bicycle"]


def to_map(d, ego):
    c, s = math.cos(ego["yaw"]), math.sin(ego["yaw"])
    return dict(d, frame="map", x=ego["x"] + c * d["x"] - s * d["y"], y=ego["y"] + s * d["x"] + c * d["y"], yaw=d.get("yaw", 0.0) + ego["yaw"])


def summary(fr):
    pf = fr.pass_fail_result
    out = dict(tp=sorted((r.estimated_object.uuid, r.ground_truth_object.uuid) for r in pf.tp_object_results),
               fp=sorted((r.estimated_object.uuid, r.ground_truth_object.uuid if r.ground_truth_object else None) for r in pf.fp_object_results),
               fn=sorted(g.uuid for g in pf.fn_objects), tn=sorted(g.uuid for g in pf.tn_objects),
               results=sorted(r.estimated_object.uuid for r in fr.object_results), gts=sorted(g.uuid for g in fr.frame_ground_truth.objects))
    nums = {}
    for r in fr.object_results:
        for nm in ("center_distance", "plane_distance", "iou_2d", "iou_3d"):
            m = getattr(r, nm, None)
            if m is not None and m.value is not None:
                nums[f"{r.estimated_object.uuid}.{nm}"] = m.value
    for m in fr.metrics_score.maps:
        for a in m.aps:
            nums[f"ap.{m.matching_mode}.{a.target_labels[0]}"] = a.ap
        for a in m.aphs:
            nums[f"aph.{m.matching_mode}.{a.target_labels[0]}"] = a.ap
        nums[f"map.{m.matching_mode}"] = m.map
        nums[f"maph.{m.matching_mode}"] = m.maph
    for t in getattr(fr.metrics_score, "tracking_scores", []):
        for c in t.clears:
            for k, v in c.results.items():
                nums[f"clear.{t.matching_mode}.{c.target_labels[0]}.{k}"] = v
    return out, nums


def run(case, rendering):
    prev = None
    outs = []
    for fi, f in enumerate(case["frames"]):
        ego = f["ego"] if rendering == "map" else None
        arr = bool(case.get("array_positions"))      # map-frame positions as ndarrays (what the library's own conversion to the map frame produces)
        est = [dict(to_map(d, f["ego"]), array_position=arr) for d in f["est"]] if rendering == "map" else f["est"]
        gt = [dict(to_map(d, f["ego"]), array_position=arr) for d in f["gt"]] if rendering == "map" else f["gt"]
        fr, _, _, _ = frames.frame_result(est, gt, ego=ego, task=case["task"], targets=TARGETS, crit=case["crit"], pass_thr=[case["thr"]] * 3,
                                          metrics=dict(center_distance_thresholds=[[case["thr"]] * 3], plane_distance_thresholds=[[case["thr"]] * 3]),
                                          frame_name=str(fi), unix_time=fi * 100000, previous=prev, registry=not (rendering == "ego" and case.get("no_registry")))
        prev = fr
        outs.append(summary(fr))
    return outs


def check(case):
    a, b = run(case, "ego"), run(case, "map")
    for fi, ((la, na), (lb, nb)) in enumerate(zip(a, b)):
        for k in la:
            if la[k] != lb[k]:
                return f"frame {fi}: {k} differs between the ego rendering {la[k]} and the map rendering {lb[k]}"
        if set(na) != set(nb):
            return f"frame {fi}: different sets of scores: {sorted(set(na) ^ set(nb))}"
        for k in na:
            x, y = na[k], nb[k]
            if (x == float("inf")) != (y == float("inf")) or (x != float("inf") and abs(x - y) > 1e-6):
                return f"frame {fi}: {k} is {x} in the ego rendering and {y} in the map rendering"
    return None


def gen(rng):
    def scene(pool):
        est, gt = [], []
        for g in pool:
            if rng.random() < 0.85:
                gt.append(dict(g))
                r = rng.random()
                if r < 0.55:      # well inside the threshold
                    est.append(dict(g, x=g["x"] + rng.choice([0.0, 0.1, -0.2]), y=g["y"] + rng.choice([0.0, 0.15]), yaw=g["yaw"] + rng.choice([0.0, 0.2, -0.4, 3.0]),
                                    uuid="e" + g["uuid"], score=round(rng.uniform(0.2, 0.95), 3)))
                elif r < 0.75:    # far outside the threshold
                    est.append(dict(g, x=g["x"] + rng.choice([2.5, -3.0]), uuid="e" + g["uuid"], score=round(rng.uniform(0.2, 0.95), 3)))
        for j in range(rng.randint(0, 2)):
            est.append(dict(label=rng.choice(TARGETS), x=rng.choice([-7.0, 6.5, 13.0]), y=rng.choice([-6.0, 7.5, 12.5]), yaw=rng.uniform(-3, 3), uuid=f"x{j}",
                            score=round(rng.uniform(0.2, 0.95), 3), size=(1.0, 2.0, 1.0)))
        return est, gt
    pool = [dict(label=rng.choice(TARGETS), x=rng.choice([-8.0, -4.0, 0.5, 3.0, 8.5, 12.0, -13.0]) + 0.01 * i, y=rng.choice([-8.0, -3.5, 0.5, 4.0, 8.5, 12.5]) + 0.013 * i,
                 yaw=round(rng.uniform(-3.0, 3.0), 2), uuid=str(100 + i), size=(1.0 + 0.1 * i, 2.0 + 0.2 * i, 1.5), score=1.0) for i in range(rng.randint(0, 5))]
    task = rng.choice(["detection", "tracking"])
    frs = []
    for _ in range(2 if task == "tracking" else 1):
        est, gt = scene(pool)
        frs.append(dict(est=est, gt=gt, ego=dict(x=round(rng.uniform(-50, 50), 2), y=round(rng.uniform(-50, 50), 2), yaw=round(rng.uniform(-3.1, 3.1), 3))))
    return dict(task=task, frames=frs, thr=1.0, crit=dict(max_x_position_list=[10.0] * 3, max_y_position_list=[10.0] * 3), no_registry=rng.random() < 0.5, array_positions=rng.random() < 0.4)


def search(item, seed):
    rng = random.Random((seed or 0) * 13 + 7)
    for _ in range(budget(40)):
        case = gen(rng)
        try:
            why = check(case)
        except Exception as ex:
            why = f"raised {type(ex).__name__}: {ex}"
        if why:
            return dict(function="two renderings of one scene", input=case, observed=why)
    return None


def replay(payload):
    why = check(payload["input"])
    return (why is None, why or "ok")


if __name__ == "__main__":
    sys.exit(main("C07", search, replay))
