"""C02 — matching prefers label-compatible pairs, then best score (no blocking pair).

Same function as C01 (get_object_results, geometry path), stronger invariants.  `valid`, `compat`, `score` are the
predicates/values the score table encodes for a pair (C01's _get_score_table contract).  "at least as good" follows the
statement: smaller is better for the two distances, larger is better for the two IoUs.

Stage 1 results (indices < n1) are label-compatible; the dominance invariants say that when a result was formed its
score was optimal among all pairs of objects still unmatched *then* (compatible valid pairs in stage 1, all valid pairs
in stage 2).  The no-blocking-pair postconditions are stated over the returned results and over the objects left
unmatched when the function returns (locals estimated_objects_ / ground_truth_objects_, which by C01's counting
invariants are exactly the input objects that occur in no pair).
"""
import copy

from pyvc.api import *
import contracts.C01 as C01

OR, OM = C01.OR, C01.OM
E_, G_, EW, GW, RES = C01.E_, C01.G_, C01.EW, C01.GW, C01.RES
MAXI = "(matching_mode is MatchingMode.IOU2D or matching_mode is MatchingMode.IOU3D)"


def build(P):
    idx = P.index
    C01.models(P)
    P.min_obligations = 200
    valid, compat, score = C01.macros()
    atleast = lambda a, b: f"(({a}) >= ({b}) if {MAXI} else ({a}) <= ({b}))"
    est = lambda k, R=RES: f"{R}[{k}].estimated_object"
    gt = lambda k, R=RES: f"{R}[{k}].ground_truth_object"
    sck = lambda k, R=RES: score(est(k, R), gt(k, R))
    vc = lambda e, g: f"({valid(e, g)} and {compat(e, g)})"

    def dominance(lo, hi, pred, R=RES, ew=EW, gw=GW):
        """results lo <= k < hi dominate: remaining pairs, pairs with one remaining member, pairs across later results"""
        return [
            ("over_pairs_still_unmatched", f"forall(k, {lo}, {hi}, forall(r, 0, len({ew}), forall(c, 0, len({gw}), implies({pred(f'{ew}[r]', f'{gw}[c]')}, {atleast(sck('k', R), score(f'{ew}[r]', f'{gw}[c]'))}))))"),
            ("over_pairs_of_its_estimate_with_unmatched_ground_truths", f"forall(k, {lo}, {hi}, forall(c, 0, len({gw}), implies({pred(est('k', R), f'{gw}[c]')}, {atleast(sck('k', R), score(est('k', R), f'{gw}[c]'))})))"),
            ("over_pairs_of_its_ground_truth_with_unmatched_estimates", f"forall(k, {lo}, {hi}, forall(r, 0, len({ew}), implies({pred(f'{ew}[r]', gt('k', R))}, {atleast(sck('k', R), score(f'{ew}[r]', gt('k', R)))})))"),
        ]

    def cross(lo, hi, top, pred, R=RES):
        """for k in [lo,hi) and any later result m < top: the earlier result dominates both cross pairs"""
        return [
            ("over_cross_pairs_with_later_results", f"forall(k, {lo}, {hi}, forall(m, 0, {top}, implies(k < m, "
             f"implies({pred(est('k', R), gt('m', R))}, {atleast(sck('k', R), score(est('k', R), gt('m', R)))}) and "
             f"implies({pred(est('m', R), gt('k', R))}, {atleast(sck('k', R), score(est('m', R), gt('k', R)))}))))"),
        ]
    # ---------------------------------------------------------------- loop 1 (label-compatible pairs)
    t1 = (f"rows(masked_scores) == len({EW}) and cols(masked_scores) == len({GW}) and rows(score_table) == len({EW}) and cols(score_table) == len({GW}) and "
          f"forall(r, 0, len({EW}), forall(c, 0, len({GW}), tnan(masked_scores, r, c) == (not {vc(f'{EW}[r]', f'{GW}[c]')}) and "
          f"tnan(score_table, r, c) == (not {valid(f'{EW}[r]', f'{GW}[c]')}) and "
          f"implies(not tnan(masked_scores, r, c), tval(masked_scores, r, c) == {score(f'{EW}[r]', f'{GW}[c]')}) and "
          f"implies(not tnan(score_table, r, c), tval(score_table, r, c) == {score(f'{EW}[r]', f'{GW}[c]')})))")
    t2 = (f"rows(rest_scores) == len({EW}) and cols(rest_scores) == len({GW}) and "
          f"forall(r, 0, len({EW}), forall(c, 0, len({GW}), tnan(rest_scores, r, c) == (not {valid(f'{EW}[r]', f'{GW}[c]')}) and "
          f"implies(not tnan(rest_scores, r, c), tval(rest_scores, r, c) == {score(f'{EW}[r]', f'{GW}[c]')})))")
    inv1, untouched = C01.greedy_invariants(t1, valid)
    inv2, _ = C01.greedy_invariants(t2, valid)
    n = f"len({RES})"
    inv1 = inv1 + [("one_pair_per_iteration", f"{n} == i and num_estimation == len({E_})"),
                   ("stage1_pairs_are_label_compatible", f"forall(k, 0, {n}, {compat(est('k'), gt('k'))})")] + \
        [("stage1_dominates." + a, b) for a, b in dominance("0", n, vc) + cross("0", n, n, vc)]
    N1 = "ghost_n1"
    inv2 = inv2 + [("stage_boundary", f"0 <= {N1} and {N1} <= {n} and {n} == {N1} + i and num_rest_estimation == len({E_}) - {N1}"),
                   ("stage1_pairs_are_label_compatible", f"forall(k, 0, {N1}, {compat(est('k'), gt('k'))})"),
                   ("no_compatible_pair_left_after_stage1", f"forall(r, 0, len({EW}), forall(c, 0, len({GW}), not {vc(f'{EW}[r]', f'{GW}[c]')}))")] + \
        [("stage1_dominates." + a, b) for a, b in dominance("0", N1, vc) + cross("0", N1, n, vc)] + \
        [("stage2_dominates." + a, b) for a, b in dominance(N1, n, valid) + cross(N1, n, n, valid)] + \
        [("stage2_objects_have_no_compatible_partner.among_unmatched_ground_truths", f"forall(k, {N1}, {n}, forall(c, 0, len({GW}), not {vc(est('k'), f'{GW}[c]')}))"),
         ("stage2_objects_have_no_compatible_partner.among_unmatched_estimates", f"forall(k, {N1}, {n}, forall(r, 0, len({EW}), not {vc(f'{EW}[r]', gt('k'))}))"),
         ("stage2_objects_have_no_compatible_partner.among_stage2_objects", f"forall(k, {N1}, {n}, forall(m, {N1}, {n}, not {vc(est('k'), gt('m'))}))")]
    loops = {1: LoopSpec(index="i", invariants=inv1), 2: LoopSpec(index="i", invariants=inv2, entry_ghosts={N1: f"len({RES})"})}
    # ---------------------------------------------------------------- postconditions (statement)
    valid, compat, score = C01.macros("matching_label_policy, local('matching_method_module', None), target_labels, matchable_thresholds, transforms")
    vc = lambda e, g: f"({valid(e, g)} and {compat(e, g)})"
    sck = lambda k, R=RES: score(est(k, R), gt(k, R))
    R = "result"
    n1 = f"local('{N1}', 0)"
    paired = lambda k: f"({gt(k, R)} is not None)"
    LEFT_E, LEFT_G = f"local('{EW}', [])", f"local('{GW}', [])"
    stage1 = lambda k: f"({k} < {n1})"
    ens = E(
        "stage1_pairs_are_label_compatible", f"forall(k, 0, {n1}, {paired('k')} and {compat(est('k', R), gt('k', R))})",
        "no_blocking_compatible_pair_between_results.earlier_estimate",
        f"forall(k, 0, len({R}), forall(m, 0, len({R}), implies(k < m and {paired('k')} and {paired('m')} and {vc(est('k', R), gt('m', R))}, "
        f"{stage1('k')} and {atleast(sck('k', R), score(est('k', R), gt('m', R)))})))",
        "no_blocking_compatible_pair_between_results.earlier_ground_truth",
        f"forall(k, 0, len({R}), forall(m, 0, len({R}), implies(m < k and {paired('k')} and {paired('m')} and {vc(est('k', R), gt('m', R))}, "
        f"{stage1('m')} and {atleast(sck('m', R), score(est('k', R), gt('m', R)))})))",
        "no_blocking_incompatible_pair_between_results.earlier_estimate",
        f"forall(k, 0, len({R}), forall(m, 0, len({R}), implies(k < m and {paired('k')} and {paired('m')} and {valid(est('k', R), gt('m', R))} and not {compat(est('k', R), gt('m', R))}, "
        f"{stage1('k')} or {atleast(sck('k', R), score(est('k', R), gt('m', R)))})))",
        "no_blocking_incompatible_pair_between_results.earlier_ground_truth",
        f"forall(k, 0, len({R}), forall(m, 0, len({R}), implies(m < k and {paired('k')} and {paired('m')} and {valid(est('k', R), gt('m', R))} and not {compat(est('k', R), gt('m', R))}, "
        f"{stage1('m')} or {atleast(sck('m', R), score(est('k', R), gt('m', R)))})))",
        "no_blocking_pair_with_an_unmatched_ground_truth",
        f"forall(k, 0, len({R}), forall(c, 0, len({LEFT_G}), implies({paired('k')} and {valid(est('k', R), f'{LEFT_G}[c]')}, "
        f"({stage1('k')} and implies({compat(est('k', R), f'{LEFT_G}[c]')}, {atleast(sck('k', R), score(est('k', R), f'{LEFT_G}[c]'))})) or "
        f"(not {compat(est('k', R), f'{LEFT_G}[c]')} and {atleast(sck('k', R), score(est('k', R), f'{LEFT_G}[c]'))}))))",
        "no_blocking_pair_with_an_unmatched_estimate",
        f"forall(k, 0, len({R}), forall(r, 0, len({LEFT_E}), implies({paired('k')} and {valid(f'{LEFT_E}[r]', gt('k', R))}, "
        f"({stage1('k')} and implies({compat(f'{LEFT_E}[r]', gt('k', R))}, {atleast(sck('k', R), score(f'{LEFT_E}[r]', gt('k', R)))})) or "
        f"(not {compat(f'{LEFT_E}[r]', gt('k', R))} and {atleast(sck('k', R), score(f'{LEFT_E}[r]', gt('k', R)))}))))",
        "no_matchable_pair_left_unmatched",
        f"implies(len({G_}) > 0 and len({E_}) > 0, forall(r, 0, len({LEFT_E}), forall(c, 0, len({LEFT_G}), not {valid(f'{LEFT_E}[r]', f'{LEFT_G}[c]')})))",
    )
    FPV = "(evaluation_task is EvaluationTask.FP_VALIDATION or evaluation_task is EvaluationTask.FP_VALIDATION2D)"
    DO = TSObj("DynamicObject")
    RT = TSList(TSObj("DynamicObjectWithPerceptionResult"))
    AL = TEnum(idx.lookup("common.label:AutowareLabel"))
    MM = idx.lookup(f"{OM}:MatchingMode")
    extra = {idx.lookup(f"{OR}:DynamicObjectWithPerceptionResult.__init__").fq: C01.result_ctor_contract(),
             idx.lookup(f"{OR}:_get_fp_object_results").fq: C01.fp_results_contract(),
             idx.lookup(f"{OR}:_get_score_table").fq: C01.score_table_contract(P)}
    base = Contract(
        f"{OR}:get_object_results",
        params={"evaluation_task": TEnum(idx.lookup("common.evaluation_task:EvaluationTask")), E_: TSList(DO), G_: TSList(DO),
                "target_labels": Opt(TSList(AL)), "matching_label_policy": TEnum(idx.lookup(f"{OM}:MatchingLabelPolicy")),
                "matchable_thresholds": Opt(TSList(TReal())),
                "transforms": lambda it: VOpaque("transformdict", it.ctx.fresh("transforms", I)), "uuid_matching_first": TBool()},
        returns=RT, locals={RES: RT, EW: TSList(DO), GW: TSList(DO)},
        requires=E("estimates_are_a_set", f"forall(k, 0, len({E_}), uf_int('posE', {E_}[k]) == k)",
                   "ground_truths_are_a_set", f"forall(k, 0, len({G_}), uf_int('posG', {G_}[k]) == k)") +
                 C01.TABLE_REQUIRES(by_mode_expr="(matching_mode is MatchingMode.IOU2D or matching_mode is MatchingMode.IOU3D)"),
        loops=loops, ensures=ens)
    for mi, (mode, _) in enumerate(MM.enum_members(idx)):
        for fam, cond in (("fp-validation", FPV), ("ordinary", f"not {FPV}")):
            c = copy.copy(base)
            c.params = dict(base.params, matching_mode=VEnum(MM, mi))
            c.requires = list(base.requires) + [("task_family", cond)]
            P.verify(f"{OR}:get_object_results", name=f"get_object_results[3-D, {mode}, {fam}]", contract=c, extra_contracts=extra)
    # 2-D objects with a ROI (traffic lights included) take the same two greedy stages: the dominance contract with 2-D object lists
    C01.dispatch_tasks(P, base, extra)
    # the cells the dominance invariants read: _get_score_table re-verified here (a change to the compatibility mask alone breaks C02, not C01's counting)
    C01.score_table_tasks(P)
    C01.matching_module_tasks(P)
    P.trust("np.nanargmin / np.nanargmax return a position holding an optimal non-NaN entry (assumed; ties unspecified)")
    P.assume("the score table encodes (valid, compatible, score) per pair as _get_score_table's contract states (verified in this check too)")
    P.assume("objects left in the working lists at return are exactly the inputs that occur in no pair (C01's counting and distinctness invariants)")
    P.uncover("'exactly the documented two-stage greedy assignment when no two scores tie' is a consequence of the dominance invariants "
              "(each step takes the optimal remaining pair, unique without ties); not restated as a separate obligation. is_matchable's policy table: see C01/C02 helper contracts.")
