"""C17 native harness: real get_now_frame / get_interpolated_now_frame / interpolate_list on small time-ordered inputs."""
import itertools
import random
import sys

from common import main, budget, model_scalars


class _Frame:
    def __init__(self, t):
        self.unix_time = t
        self.objects = []


class _Interp:
    def __init__(self, b, a, t):
        self.before, self.after, self.unix_time = b, a, t


def check_lookup(times, T, tol):
    import perception_eval.common.dataset as ds
    frames = [_Frame(t) for t in times]
    # nearest frame
    got = ds.get_now_frame(frames, T, tol)
    if not times:
        if got is not None:
            return f"get_now_frame(times=[], t={T}, tol={tol}) returned {got!r} although no frame is loaded"
        best = tol + 1
    else:
        best = min(abs(T - t) for t in times)
    if best <= tol:
        if got is None or abs(T - got.unix_time) != best:
            return f"get_now_frame(times={times}, t={T}, tol={tol}) returned {None if got is None else got.unix_time}, closest is at distance {best}"
    elif got is not None:
        return f"get_now_frame(times={times}, t={T}, tol={tol}) returned frame {got.unix_time} although nothing is within tolerance"
    # interpolated lookup (interpolate_ground_truth_frames is cut at its contract: record the arguments)
    orig = ds.interpolate_ground_truth_frames
    ds.interpolate_ground_truth_frames = lambda b, a, t: _Interp(b, a, t)
    try:
        got = ds.get_interpolated_now_frame(frames, T, tol)
    finally:
        ds.interpolate_ground_truth_frames = orig
    before = [f for f in frames if f.unix_time <= T]
    after = [f for f in frames if f.unix_time > T]
    b = before[-1] if before and T - before[-1].unix_time <= tol else None
    a = after[0] if after and after[0].unix_time - T <= tol else None
    desc = f"get_interpolated_now_frame(times={times}, t={T}, tol={tol})"
    if b is None and a is None:
        if got is not None:
            return f"{desc} returned something although neither neighbour is within tolerance"
    elif a is None:
        if got is not b:
            return f"{desc} must return the earlier neighbour {b.unix_time}; got {getattr(got, 'unix_time', None)}"
    elif b is None:
        if got is not a:
            return f"{desc} must return the later neighbour {a.unix_time}; got {getattr(got, 'unix_time', None) if got is not None else None}"
    else:
        if not isinstance(got, _Interp) or got.before is not b or got.after is not a or got.unix_time != T:
            return f"{desc} must interpolate frames {b.unix_time} and {a.unix_time} at {T}; got {vars(got) if got is not None else None}"
    return None


def check_list(l1, l2, t1, t2, t):
    from perception_eval.common.geometry import interpolate_list
    a, b = list(l1), list(l2)
    out = interpolate_list(a, b, t1, t2, t)
    if a != list(l1) or b != list(l2):
        return "interpolate_list modified its input"
    if len(out) != len(l1):
        return f"interpolate_list length {len(out)}"
    for k in range(len(l1)):
        want = l1[k] + (l2[k] - l1[k]) * (t - t1) / (t2 - t1)
        if abs(out[k] - want) > 1e-9 * (1 + abs(want)):
            return f"interpolate_list({l1}, {l2}, {t1}, {t2}, {t})[{k}] = {out[k]}, expected {want}"
    return None


def check_objects(case):
    """real interpolate_ground_truth_frames on two real frames: ids appearing / disappearing, poses on the segment and the shortest arc (objects given in the
    map frame or in the ego frame of a possibly tilted ego: interpolation is between their GLOBAL poses), the two neighbour frames left as they were"""
    import math
    import numpy as np
    import build
    from pyquaternion import Quaternion
    from perception_eval.common.dataset import FrameGroundTruth, interpolate_ground_truth_frames
    from perception_eval.common.schema import FrameID
    t1, t2, t = case["t1"], case["t2"], case["t"]
    frame = case.get("frame", "map")
    mk = lambda lst: [build.obj3d(dict(d, frame=frame)) for d in lst]
    f1 = FrameGroundTruth(t1, "0", mk(case["first"]), transforms=build.ego_matrix(case["ego1"]))
    f2 = FrameGroundTruth(t2, "1", mk(case["second"]), transforms=build.ego_matrix(case["ego2"]))

    def snap(f):
        m = f.transforms[(FrameID.BASE_LINK, FrameID.MAP)]
        return (f.unix_time, f.frame_name, [(id(o), tuple(o.state.position), tuple(o.state.orientation.elements), str(o.frame_id), o.unix_time, o.uuid) for o in f.objects],
                np.array(m.matrix).copy().tolist(), id(m))
    before = (snap(f1), snap(f2))
    out = interpolate_ground_truth_frames(f1, f2, t)
    if (snap(f1), snap(f2)) != before:
        return "interpolating between two frames changed one of them (ego pose, objects or stamp of a neighbour frame)"
    if out is f1 or out is f2:
        return "the interpolated frame is one of the neighbour frames itself"
    if out.unix_time != t:
        return f"interpolated frame stamped {out.unix_time}, query time {t}"
    a = (t - t1) / (t2 - t1)

    def global_pose(d, ego):
        q = build.quat_yaw(d["yaw"])
        p = np.array([d["x"], d["y"], 0.0])
        if frame == "map":
            return p, q
        qe = build.quat_ego(ego)
        return qe.rotate(p) + np.array([ego["x"], ego["y"], ego.get("z", 0.0)]), qe * q
    d1 = {d["uuid"]: d for d in case["first"]}
    d2 = {d["uuid"]: d for d in case["second"]}
    got = {}
    for o in out.objects:
        if o.uuid in got:
            return f"object {o.uuid} appears twice in the interpolated frame"
        got[o.uuid] = o
    if set(got) != set(d1) | set(d2):
        return f"interpolated frame holds {sorted(got)}, the neighbours hold {sorted(set(d1) | set(d2))}"
    for u, o in got.items():
        if u in d1 and u in d2:
            (p1, q1), (p2, q2) = global_pose(d1[u], case["ego1"]), global_pose(d2[u], case["ego2"])
            want = p1 + (p2 - p1) * a
            q = Quaternion.slerp(q1, q2, a)
            if max(abs(np.array(o.state.position) - want)) > 1e-7 or Quaternion.absolute_distance(o.state.orientation, q) > 1e-7:
                return (f"object {u}: pose {tuple(o.state.position)} / {o.state.orientation} is not on the segment / arc between its two global poses at the proportional time "
                        f"({tuple(want)} / {q})")
            if o.unix_time != int(t):
                return f"object {u} stamped {o.unix_time}"
        else:
            pw, qw = global_pose(d1[u], case["ego1"]) if u in d1 else global_pose(d2[u], case["ego2"])
            if max(abs(np.array(o.state.position) - pw)) > 1e-7 or Quaternion.absolute_distance(o.state.orientation, qw) > 1e-7:
                return f"object {u} is present in one neighbour only and must be kept as it is (global pose {tuple(pw)})"
    return None


def gen_objects(rnd):
    ids = [str(i) for i in range(rnd.randint(0, 5))]
    mk = lambda u: dict(label="car", uuid=u, x=round(rnd.uniform(-20, 20), 2), y=round(rnd.uniform(-20, 20), 2), yaw=round(rnd.uniform(-3, 3), 2))
    first = [mk(u) for u in ids if rnd.random() < 0.75]
    second = [mk(u) for u in ids if rnd.random() < 0.75]
    rnd.shuffle(second)
    t1 = rnd.randint(0, 5) * 100000
    t2 = t1 + rnd.randint(1, 5) * 100000
    tilt = rnd.random() < 0.4
    ego = lambda: dict(x=round(rnd.uniform(-5, 5), 2), y=round(rnd.uniform(-5, 5), 2), yaw=round(rnd.uniform(-3, 3), 2),
                       **(dict(pitch=round(rnd.uniform(-0.2, 0.2), 2), roll=round(rnd.uniform(-0.15, 0.15), 2), z=round(rnd.uniform(-1, 1), 2)) if tilt else {}))
    return dict(first=first, second=second, t1=t1, t2=t2, t=rnd.choice([t1, t2, rnd.randint(t1, t2)]), ego1=ego(), ego2=ego(), frame=rnd.choice(["map", "base_link"]))


def search(item, seed):
    rnd = random.Random(seed)
    if "interpolate_ground_truth_frames" in item["func"] or "interpolate_object" in item["func"] or "interpolate_state" in item["func"] or "interpolate_quaternion" in item["func"] or item["name"] == "bounded-native-search":
        for _ in range(budget(150)):
            case = gen_objects(rnd)
            try:
                why = check_objects(case)
            except Exception as ex:
                why = f"raised {type(ex).__name__}: {ex}"
            if why:
                return dict(function="interpolate_ground_truth_frames", input=case, observed=why)
        if item["name"] != "bounded-native-search":
            return None
    if "interpolate_list" in item["func"] or item["name"] == "bounded-native-search":
        for _ in range(300):
            n = rnd.randint(0, 4)
            l1 = [rnd.uniform(-5, 5) for _ in range(n)]
            l2 = [rnd.uniform(-5, 5) for _ in range(n)]
            t1 = rnd.uniform(0, 5)
            t2 = t1 + rnd.uniform(0.1, 5)
            t = rnd.choice([t1, t2, rnd.uniform(t1, t2)])
            why = check_list(l1, l2, t1, t2, t)
            if why:
                return dict(function="interpolate_list", input=dict(l1=l1, l2=l2, t1=t1, t2=t2, t=t), observed=why)
        if item["name"] != "bounded-native-search":
            return None
    # exhaustive small scope: up to 4 frames at times in 0..6, query -2..8, tolerance 0..4
    for n in range(0, 5):       # also no frame at all: nothing is returned
        for times in itertools.combinations(range(0, 7), n):
            for T in range(-2, 9):
                for tol in range(0, 5):
                    why = check_lookup(list(times), T, tol)
                    if why:
                        return dict(function="lookup", input=dict(times=list(times), t=T, tol=tol), observed=why)
    return None


def replay(payload):
    i = payload["input"]
    if payload["function"] == "interpolate_ground_truth_frames":
        why = check_objects(i)
    else:
        why = check_list(i["l1"], i["l2"], i["t1"], i["t2"], i["t"]) if payload["function"] == "interpolate_list" else check_lookup(i["times"], i["t"], i["tol"])
    return (why is None, why or "ok")


if __name__ == "__main__":
    sys.exit(main("C17", search, replay))
