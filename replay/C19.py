"""C19 native harness: a real PerceptionAnalyzer3D fed with natively evaluated frames (no dataset on disk); the table, the counts,
the errors, the rates, the confusion matrix and get_object_status are compared with the frames' own pass/fail lists.

Bounded stand-in for the DataFrame-level clauses (pandas is outside the verifier's reach); also the replayer for the contracts
on get_object_status / GroundTruthStatus."""
import math
import random
import shutil
import sys
import tempfile

from common import main
from common import budget as common_budget
import build
import frames

TARGETS = ["car", "pedestrian", "bicycle", "unknown"]
# known findings of the unchanged tree that this harness can observe (matched by tag; see known_findings.json)
DOUBLE_GT = "gt-row-of-failing-pair-counted-twice"


def analyzer(task, ndiv, frame_id, root):
    from perception_eval.config import PerceptionEvaluationConfig
    from perception_eval.tool import PerceptionAnalyzer3D
    cfg = dict(evaluation_task=task, target_labels=list(TARGETS), max_x_position=100.0, max_y_position=100.0, min_point_numbers=[0] * len(TARGETS),
               label_prefix="autoware", center_distance_thresholds=[1.0], plane_distance_thresholds=[1.0], iou_2d_thresholds=[0.5], iou_3d_thresholds=[0.5])
    if task == "fp_validation":
        for k in ("center_distance_thresholds", "plane_distance_thresholds", "iou_2d_thresholds", "iou_3d_thresholds"):
            cfg.pop(k)
    ec = PerceptionEvaluationConfig(dataset_paths=[""], frame_id=frame_id, result_root_directory=root, evaluation_config_dict=cfg, load_raw_data=False)
    return PerceptionAnalyzer3D(ec, num_area_division=ndiv)


def wrap(a):
    while a > math.pi:
        a -= 2 * math.pi
    while a < -math.pi:
        a += 2 * math.pi
    return a


def evaluate(case):
    """-> (None | message, set of known-finding tags observed)"""
    import numpy as np
    from perception_eval.evaluation import get_object_status
    from perception_eval.common.status import get_scene_rates
    seen = set()
    root = tempfile.mkdtemp(prefix="c19-")
    try:
        task = case.get("task", "detection")
        an = analyzer(task, case.get("ndiv", 1), "map" if case.get("ego") else "base_link", root)
        total = dict(TP=0, FP=0, TN=0, FN=0)
        n_est = n_gt = n_pairs = 0
        expect_rows = []          # per row pair: (status, gt description | None, est description | None, ego)
        per_gt = {}               # uuid -> list of (frame number) in which it is critical
        for scene in case["scenes"]:
            frs = []
            for fi, f in enumerate(scene):
                ego = f.get("ego")
                fr, eo, go, res = frames.frame_result(f["est"], f["gt"], ego=ego, task=task, targets=TARGETS, crit=case.get("crit"),
                                                      pass_thr=case.get("pass_thr"), frame_name=str(fi), unix_time=fi * 100000)
                frs.append(fr)
                pf = fr.pass_fail_result
                total["TP"] += len(pf.tp_object_results); total["FP"] += len(pf.fp_object_results)
                total["TN"] += len(pf.tn_objects); total["FN"] += len(pf.fn_objects)
                n_est += len(fr.object_results)
                n_gt += len(fr.frame_ground_truth.objects)
                for g in fr.frame_ground_truth.objects:
                    per_gt.setdefault(g.uuid, []).append(fi)
                desc = {id(o): d for o, d in list(zip(eo, f["est"])) + list(zip(go, f["gt"]))}
                for r in pf.tp_object_results:
                    expect_rows.append(("TP", desc[id(r.ground_truth_object)], desc[id(r.estimated_object)], ego))
                for r in pf.fp_object_results:
                    expect_rows.append(("FP", desc[id(r.ground_truth_object)] if r.ground_truth_object is not None else None, desc[id(r.estimated_object)], ego))
                    if r.ground_truth_object is not None and any(r.ground_truth_object is g for g in pf.fn_objects):
                        seen.add(DOUBLE_GT)
                for g in pf.tn_objects:
                    expect_rows.append(("TN", desc[id(g)], None, ego))
                for g in pf.fn_objects:
                    expect_rows.append(("FN", desc[id(g)], None, ego))
            an.add(frs)
            # ---- per-object tallies: each ground truth once per frame in which it is critical
            sts = get_object_status(frs)
            uu = [s.uuid for s in sts]
            if len(set(uu)) != len(uu):
                return f"get_object_status lists a uuid twice: {uu}", seen
            mine = {}
            by_status = {}
            for fr in frs:
                for g in fr.frame_ground_truth.objects:
                    mine.setdefault(g.uuid, []).append(int(fr.frame_name))
                pf = fr.pass_fail_result
                for st_name, gts in (("tp", [r.ground_truth_object for r in pf.tp_object_results]),
                                     ("fp", [r.ground_truth_object for r in pf.fp_object_results
                                             if r.ground_truth_object is not None and r.ground_truth_object.semantic_label.is_fp()]),
                                     ("tn", pf.tn_objects), ("fn", pf.fn_objects)):
                    for g in gts:
                        by_status.setdefault((g.uuid, st_name), []).append(int(fr.frame_name))
            for s in sts:
                for st_name in ("tp", "fp", "tn", "fn"):
                    got_l = sorted(getattr(s, st_name + "_frame_nums"))
                    if got_l != sorted(by_status.get((s.uuid, st_name), [])):
                        return (f"ground truth {s.uuid}: {st_name.upper()} tallied in frames {got_l}, the frames' {st_name.upper()} lists hold it in "
                                f"frames {sorted(by_status.get((s.uuid, st_name), []))}"), seen
            for s in sts:
                if sorted(s.total_frame_nums) != sorted(mine.get(s.uuid, [])):
                    return (f"ground truth {s.uuid} is critical in frames {sorted(mine.get(s.uuid, []))} but tallied in frames {sorted(s.total_frame_nums)} "
                            f"(TP {s.tp_frame_nums} FP {s.fp_frame_nums} TN {s.tn_frame_nums} FN {s.fn_frame_nums})"), seen
                if len(s.total_frame_nums) != len(s.tp_frame_nums) + len(s.fp_frame_nums) + len(s.tn_frame_nums) + len(s.fn_frame_nums):
                    return f"tallies of {s.uuid} do not add up", seen
                rs = s.get_status_rates()
                for r in rs:
                    # a tallied ground truth was seen in at least one frame: each of its four rates is a share of those frames
                    if not 0.0 <= r.rate <= 1.0:
                        return f"{r.status.value} rate of ground truth {s.uuid} is {r.rate}, outside [0, 1] (seen in {len(s.total_frame_nums)} frames)", seen
                if abs(sum(r.rate for r in rs) - 1.0) > 1e-9:
                    return f"the four status rates of ground truth {s.uuid} sum to {sum(r.rate for r in rs)}", seen
            if set(mine) - set(uu):
                return f"critical ground truths {sorted(set(mine) - set(uu))} have no status entry", seen
            rates = get_scene_rates(sts)
            if sts and not (all(0.0 <= x <= 1.0 for x in rates) and abs(sum(rates) - 1.0) < 1e-9):
                return f"scene rates {rates} are not a distribution", seen
        df = an.df
        nrows = sum(total.values())
        if len(df) != 2 * nrows:
            return f"table has {len(df)} rows for {nrows} TP/FP/TN/FN items", seen
        got = dict(TP=an.num_tp, FP=an.num_fp, TN=an.num_tn, FN=an.num_fn)
        if got != total:
            return f"per-status counts {got} differ from the sizes of the pass/fail lists {total}", seen
        if an.num_estimation != n_est:
            return f"num_estimation {an.num_estimation} but {n_est} estimates were evaluated", seen
        if an.num_ground_truth != n_gt:
            dup = sum(1 for st, g, e, _ in expect_rows if st == "FP" and g is not None and g["label"] != "false_positive")
            if DOUBLE_GT in seen and an.num_ground_truth == n_gt + dup and not case.get("strict"):
                pass          # exactly the known finding: every surplus row is the ground truth of a failing pair that is also in the FN list
            else:
                return f"num_ground_truth {an.num_ground_truth} but {n_gt} critical ground truths", seen
        # ---- rows: order, status, ego-frame pose
        if nrows:
            gdf, edf = df.xs("ground_truth", level=1), df.xs("estimation", level=1)
            for k, (st, g, e, ego) in enumerate(expect_rows):
                for side, d, row in (("ground_truth", g, gdf.iloc[k]), ("estimation", e, edf.iloc[k])):
                    if d is None:
                        if row["status"] is not None:
                            return f"row {k} {side}: expected an empty row, got status {row['status']}", seen
                        continue
                    if row["status"] != st:
                        return f"row {k} {side}: status {row['status']}, expected {st}", seen
                    x, y = build.ego_xy(d, ego)
                    yaw = d.get("yaw", 0.0) - (ego.get("yaw", 0.0) if ego and d.get("frame") == "map" else 0.0)
                    if abs(row["x"] - x) > 1e-6 or abs(row["y"] - y) > 1e-6 or abs(wrap(row["yaw"] - yaw)) > 1e-6:
                        return f"row {k} {side}: pose ({row['x']:.4f}, {row['y']:.4f}, {row['yaw']:.4f}) is not the ego-frame pose ({x:.4f}, {y:.4f}, {wrap(yaw):.4f})", seen
                    if row["uuid"] != d.get("uuid") or abs(row["distance"] - math.hypot(x, y)) > 1e-6:
                        return f"row {k} {side}: uuid/distance mismatch", seen
            # ---- errors of paired rows
            pairs = [(g, e, ego) for st, g, e, ego in expect_rows if g is not None and e is not None and st in ("TP", "FP", "TN")]
            for col in ("x", "y", "yaw"):
                err = an.calculate_error(col)
                if col == "yaw":
                    mine_e = [wrap((g.get("yaw", 0.0) - (ego.get("yaw", 0.0) if ego and g.get("frame") == "map" else 0.0)) -
                                   (e.get("yaw", 0.0) - (ego.get("yaw", 0.0) if ego and e.get("frame") == "map" else 0.0))) for g, e, ego in pairs]
                else:
                    i = 0 if col == "x" else 1
                    mine_e = [build.ego_xy(g, ego)[i] - build.ego_xy(e, ego)[i] for g, e, ego in pairs]
                if len(err) != len(mine_e):
                    return f"calculate_error({col}) has {len(err)} entries for {len(mine_e)} paired rows", seen
                for a, b in zip(err, mine_e):
                    d_ = abs(a - b) if col != "yaw" else min(abs(a - b), abs(abs(a - b) - 2 * math.pi))
                    if d_ > 1e-6 or (col == "yaw" and not -math.pi - 1e-9 <= a <= math.pi + 1e-9):
                        return f"calculate_error({col}) = {a}, ground truth minus estimate is {b}", seen
                if mine_e and col != "yaw":
                    se = an.summarize_error()
                    got_s = se.loc[("ALL", col)]
                    arr = np.array(mine_e)
                    exp = dict(average=arr.mean(), rms=math.sqrt((arr ** 2).mean()), max=np.abs(arr).max())
                    for kname, v in exp.items():
                        if abs(got_s[kname] - v) > 1e-6:
                            return f"summarize_error ALL/{col}/{kname} = {got_s[kname]}, expected {v}", seen
            # ---- selections: scene / area / frame / label pick exactly the row pairs one of whose rows carries that value
            scene_of = []
            for si, scene in enumerate(case["scenes"]):
                for fi, f in enumerate(scene):
                    pass
            full = an.df
            keys = sorted(set(full.index.get_level_values(0)))
            for col, values in (("scene", range(len(case["scenes"]))), ("area", range(case.get("ndiv", 1))), ("frame", range(max(len(sc) for sc in case["scenes"]))),
                                ("label", ["car", "pedestrian"])):
                for v in values:
                    want = [k for k in keys if any(full.loc[(k, side), col] == v for side in ("ground_truth", "estimation"))]
                    got_sel = sorted(set(an.get(**{col: v}).index.get_level_values(0)))
                    if got_sel != want:
                        return f"selection {col}={v!r} returns row pairs {got_sel}, the pairs carrying that value are {want}", seen
            # selection by distance range: a row pair is kept when one of its members lies in [lo, hi)
            import math as _m
            for lo, hi in ((0.0, 6.0), (4.0, 9.0), (8.0, 40.0)):
                def in_rng(k, side):
                    v = full.loc[(k, side), "distance"]
                    return v is not None and not (isinstance(v, float) and _m.isnan(v)) and lo <= v < hi
                want = [k for k in keys if in_rng(k, "ground_truth") or in_rng(k, "estimation")]
                got_sel = sorted(set(an.filter_by_distance((lo, hi)).index.get_level_values(0)))
                if got_sel != want:
                    return f"selection distance in [{lo}, {hi}) returns row pairs {got_sel}, the pairs with a member in that range are {want}", seen
            for si in range(len(case["scenes"])):
                sel = an.get(scene=si)
                n_tp = an.get_num_tp(df=sel) if len(sel) else 0
                want_tp = sum(1 for k in keys if full.loc[(k, "estimation"), "status"] == "TP" and full.loc[(k, "estimation"), "scene"] == si)
                if n_tp != want_tp:
                    return f"selection scene={si}: {n_tp} TP, the scene's frames hold {want_tp}", seen
            ratio = an.summarize_ratio()
            vals = ratio.to_numpy().reshape(-1)
            if not all(0.0 <= v <= 1.0 for v in vals):
                return f"a rate lies outside [0, 1]: {ratio.to_dict()}", seen
            cm = an.get_confusion_matrix()
            n_paired = sum(1 for st, g, e, ego in expect_rows if g is not None and e is not None)
            s = 0 if cm is None else int(cm.to_numpy().sum())
            if s != n_paired:
                return f"confusion matrix sums to {s}, paired rows: {n_paired}", seen
            # an analysis restricted to a distance range reads the stored frames: they, and a later unrestricted analysis, stay as they were
            stored = [f for fl in an.frame_results.values() for f in fl] if isinstance(an.frame_results, dict) else list(an.frame_results)
            snap = lambda: [(len(f.pass_fail_result.tp_object_results), len(f.pass_fail_result.fp_object_results), len(f.pass_fail_result.fn_objects),
                             len(f.pass_fail_result.tn_objects), len(f.object_results), len(f.frame_ground_truth.objects)) for f in stored]
            before, counts0 = snap(), (an.num_tp, an.num_fp, an.num_fn)
            for rng_ in (((0.0, 6.0), (4.0, 30.0)) if case.get("distance_ranges", True) else ()):
                try:
                    an.summarize_score(distance=rng_)
                except Exception as ex:
                    return f"summarize_score(distance={rng_}) raised {type(ex).__name__}: {ex}", seen
                if snap() != before:
                    return f"summarize_score(distance={rng_}) changed the stored frame results: {before} -> {snap()}", seen
            if (an.num_tp, an.num_fp, an.num_fn) != counts0:
                return "a distance-restricted analysis changed the table's counts", seen
        return None, seen
    finally:
        shutil.rmtree(root, ignore_errors=True)


def rand_case(rng):
    def obj(u, frame, lab=None):
        return dict(label=lab or rng.choice(["car", "car", "pedestrian", "bicycle"]), x=round(rng.uniform(-12, 12), 2), y=round(rng.uniform(-12, 12), 2),
                    yaw=(round(rng.uniform(-3.1, 3.1), 2) if rng.random() < 0.7 else rng.choice([3.1, -3.1, 3.05, -2.95])),   # headings next to +-pi: the error of a pair wraps
                    score=round(rng.uniform(0.1, 1.0), 2), uuid=str(u), frame=frame, size=(1.0, 2.0, 1.0))
    scenes = []
    use_map = rng.random() < 0.5
    for _ in range(rng.choice([1, 1, 2])):
        scene = []
        pool = [obj(100 + i, "map" if use_map else "base_link") for i in range(rng.randint(0, 4))]
        for fi in range(rng.randint(1, 3)):
            ego = dict(x=round(rng.uniform(-5, 5), 2), y=round(rng.uniform(-5, 5), 2), yaw=round(rng.uniform(-3, 3), 2)) if use_map else None
            gts = [dict(g) for g in pool if rng.random() < 0.8]
            ests = []
            for g in gts:
                r = rng.random()
                if r < 0.45:      # close estimate
                    ests.append(dict(g, x=g["x"] + rng.choice([0.0, 0.1, -0.2]), y=g["y"] + rng.choice([0.0, 0.15]), yaw=g["yaw"] + rng.choice([0.0, 0.1, -0.3]), uuid="e" + g["uuid"]))
                elif r < 0.7:     # paired but failing
                    ests.append(dict(g, x=g["x"] + rng.choice([1.5, -2.0]), uuid="e" + g["uuid"]))
            for j in range(rng.randint(0, 2)):
                ests.append(dict(obj("x%d" % j, "map" if use_map else "base_link")))
            f = dict(est=ests, gt=gts)
            if ego:
                f["ego"] = ego
            scene.append(f)
        scenes.append(scene)
    case = dict(scenes=scenes, ego=use_map, ndiv=rng.choice([1, 3, 9]), crit=dict(max_x_position_list=[10.0] * 4, max_y_position_list=[10.0] * 4), pass_thr=[1.0] * 4)
    case["distance_ranges"] = rng.random() < 0.25       # the distance-restricted analyses deep-copy every frame: run them on a quarter of the cases
    if rng.random() < 0.3:
        # false-positive validation: every ground truth is an FP-labelled region
        case["task"] = "fp_validation"
        for scene in scenes:
            for f in scene:
                for g in f["gt"]:
                    g["label"] = "false_positive"
    return case


def search(item, seed):
    rng = random.Random(seed or 20260928)
    budget = 60 if item["name"] == "bounded-native-search" else 120
    known_seen = set()
    for _ in range(common_budget(budget)):
        case = rand_case(rng)
        msg, seen = evaluate(case)
        known_seen |= seen
        if msg:
            return dict(function="PerceptionAnalyzer3D.add / get_object_status", input=case, observed=msg)
    return dict(known_only=known_seen) if known_seen else None


def replay(payload):
    msg, seen = evaluate(payload["input"])
    return (msg is None), (msg or "holds")


if __name__ == "__main__":
    sys.exit(main("C19", search, replay))
