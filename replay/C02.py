"""C02 native harness: same scenes as C01, with the no-blocking-pair and greedy-equality clauses switched on."""
import sys
import C01 as base
from common import main
base.PID = "C02"
if __name__ == "__main__":
    sys.exit(main("C02", base.search, base.replay))
