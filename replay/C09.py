"""C09 native harness: real APH weight and yaw error for pairs of yaw angles, both quaternion signs, ego and map frame."""
import math
import random
import sys

from common import main
import build


def wrap(x):
    while x > math.pi:
        x -= 2 * math.pi
    while x < -math.pi:
        x += 2 * math.pi
    return x


def mk(yaw, neg, frame, tilt=(0.0, 0.0)):
    from pyquaternion import Quaternion
    o = build.obj3d(dict(label="car", x=1.0, y=2.0, yaw=yaw, frame=frame))
    if tilt[0] or tilt[1]:
        # yaw about z, then a small pitch and roll: the yaw angle of the orientation is still `yaw`
        o.state.orientation = Quaternion(axis=[0, 0, 1], radians=yaw) * Quaternion(axis=[0, 1, 0], radians=tilt[0]) * Quaternion(axis=[1, 0, 0], radians=tilt[1])
    if neg:
        q = o.state.orientation
        o.state.orientation = Quaternion(-q.w, -q.x, -q.y, -q.z)
    return o


def check(case):
    from perception_eval.evaluation.metrics.detection.tp_metrics import TPMetricsAph
    from perception_eval.evaluation.result.object_result import DynamicObjectWithPerceptionResult
    ye, yg = case["yaw_est"], case["yaw_gt"]
    e, g = mk(ye, case["neg_est"], case["frame"], case.get("tilt_est", (0.0, 0.0))), mk(yg, case["neg_gt"], case["frame"], case.get("tilt_gt", (0.0, 0.0)))
    tf = build.transforms(dict(x=3.0, y=-1.0, yaw=0.8))
    r = DynamicObjectWithPerceptionResult(e, g, transforms=tf)
    if case.get("warm"):
        # the weight depends on the orientations only: a heading read earlier through the real ego transform (of one object) must leave no trace
        g.get_heading_bev(tf if case["frame"] != "base_link" else None)
    d = abs(wrap(ye - yg))
    tilted = any(case.get(k, (0.0, 0.0)) != (0.0, 0.0) and tuple(case.get(k)) != (0.0, 0.0) for k in ("tilt_est", "tilt_gt"))
    if tilted:
        # with roll / pitch "the yaw angle of an object" needs a convention: the library's own (pyquaternion's yaw of the object's orientation in the
        # ego frame) is used, so only the ego-frame rendering has an independent expected value; symmetry and agreement with the reported yaw error
        # are checked in both renderings
        if case["frame"] == "base_link":
            d = abs(wrap(e.state.orientation.yaw_pitch_roll[0] - g.state.orientation.yaw_pitch_roll[0]))
        else:
            d = None
    if d is None:
        got = TPMetricsAph().get_value(r)
        rev = TPMetricsAph().get_value(DynamicObjectWithPerceptionResult(g, e, transforms=tf))
        if abs(rev - got) > 1e-6:
            return f"APH weight is not symmetric: {got:.6f} vs {rev:.6f}"
        return None
    want = 1.0 - d / math.pi
    got = TPMetricsAph().get_value(r)
    if abs(got - want) > 1e-6:
        return f"APH weight for yaw {ye:.3f} vs {yg:.3f} (signs {case['neg_est']}/{case['neg_gt']}, frame {case['frame']}) is {got:.4f}, expected 1 - d/pi = {want:.4f}"
    rev = TPMetricsAph().get_value(DynamicObjectWithPerceptionResult(g, e, transforms=tf))
    if abs(rev - got) > 1e-6:
        return f"APH weight is not symmetric: {got:.4f} vs {rev:.4f}"
    if not tilted and case.get("turn") is not None:
        # ... nor may the orientation an object had before it was re-assigned
        e.state.orientation = build.quat_yaw(ye + case["turn"])
        got2 = TPMetricsAph().get_value(r)
        want2 = 1.0 - abs(wrap(ye + case["turn"] - yg)) / math.pi
        if abs(got2 - want2) > 1e-6:
            return f"after the estimate was turned by {case['turn']} rad the APH weight is {got2:.4f}, expected {want2:.4f}"
        e.state.orientation = build.quat_yaw(ye)
    err = e.get_heading_error(g)[2]
    if not (-math.pi - 1e-9 <= err <= math.pi + 1e-9) or abs(abs(err) - d) > 1e-6:
        return f"yaw error for estimate yaw {ye:.3f}, ground truth yaw {yg:.3f} is {err:.4f}; expected magnitude {d:.4f} within [-pi, pi]"
    return None


def search(item, seed):
    rnd = random.Random(seed * 17 + 1)
    # ... including headings exactly at (and next to) the wrap-around: +-pi is where a matrix -> quaternion conversion has w = 0
    yaws = [0.0, 0.5, -0.5, 1.0, -1.0, 2.0, -2.0, 3.0, -3.0, math.pi / 2, -math.pi / 2, 3.1, -3.1, math.pi, -math.pi, math.pi - 1e-9]
    cases = [dict(yaw_est=a, yaw_gt=b, neg_est=ne, neg_gt=ng, frame=f) for a in yaws for b in yaws for ne in (False, True) for ng in (False, True) for f in ("base_link", "map")]
    # small roll / pitch on either object, or the same tilt on both (a common slope): the yaw angles, hence d, are unchanged
    tilts = [(0.1, 0.1), (0.05, -0.1), (-0.08, 0.0), (0.0, 0.12)]
    for c in list(cases[::7]):
        t = rnd.choice(tilts)
        k = rnd.random()
        cases.append(dict(c, tilt_est=t) if k < 0.4 else dict(c, tilt_gt=t) if k < 0.7 else dict(c, tilt_est=t, tilt_gt=t))
    for c in cases[::5]:
        c["warm"] = True
    for c in cases[2::9]:
        c["turn"] = rnd.choice([1.0, -2.0, math.pi])
    rnd.shuffle(cases)
    for case in cases[:900]:
        why = check(case)
        if why:
            return dict(function="heading", input=case, observed=why)
    return None


def replay(payload):
    why = check(payload["input"])
    return (why is None, why or "ok")


if __name__ == "__main__":
    sys.exit(main("C09", search, replay))
