"""C10 — object filtering keeps exactly the objects satisfying the configured criteria.

`keep` below is written from the property statement (not from the code): false-positive-labelled objects always pass;
unknown-labelled estimates are *relaxed* when unknown is not a target (label / attribute tests waived, mean bounds,
confidence 0, point count 0); otherwise the label must be targeted, carry no ignored attribute, lie strictly inside
the x / y / distance bounds configured for its label (first matching target), and pass the confidence (estimates) or
point-count and uuid (ground truth) thresholds of that label.  Positions are ego-relative.
"""
from pyvc.api import *
from pyvc.lemmas import count_fn, add_count_lemmas

OF = "evaluation.matching.objects_filter"
LISTS = ["max_x_position_list", "max_y_position_list", "max_distance_list", "min_distance_list", "confidence_threshold_list"]


def models(P, label_cls="AutowareLabel"):
    idx = P.index
    P.model(ClassModel("Label", {"label": TEnum(idx.lookup(f"common.label:{label_cls}")), "name": TStr(), "attributes": TSList(TStr())},
                       repo_class=idx.lookup("common.label:Label")))
    P.model(ClassModel("ObjectState", {"position": TTuple(TReal(), TReal(), TReal())}, repo_class=idx.lookup("common.object:ObjectState")))
    P.model(ClassModel("DynamicObject", {
        "unix_time": TInt(), "frame_id": TEnum(idx.lookup("common.schema:FrameID")), "state": TSObj("ObjectState"),
        "semantic_score": TReal(), "semantic_label": TSObj("Label"), "pointcloud_num": TOpt(TInt()), "uuid": TOpt(TStr()),
    }, repo_class=idx.lookup("common.object:DynamicObject")))


def keep(o, is_gt, tf, parts=False):
    """spec text of the statement's predicate for the object expression `o`"""
    L = f"{o}.semantic_label.label"
    fp = f"({L} is AutowareLabel.FP)"
    unknown_targeted = "(target_labels is not None and exists(j, 0, len(target_labels), target_labels[j] is AutowareLabel.UNKNOWN))"
    relaxed = f"(({L} is AutowareLabel.UNKNOWN) and (not {is_gt}) and not {unknown_targeted})"
    targeted = f"exists(j, 0, len(target_labels), target_labels[j] is {L})"
    first = lambda j: f"(target_labels[{j}] is {L} and forall(m, 0, {j}, target_labels[m] is not {L}))"
    pos = f"{o}.state.position" if tf is None else f"{tf}.transform(({o}.frame_id, FrameID.BASE_LINK), {o}.state.position)"
    X, Y = f"{pos}[0]", f"{pos}[1]"
    D = f"hypot({X}, {Y})"

    def bound(lst, test, relaxed_value):
        """`test(b)` with b the bound of this object's label in `lst` (None: no such bound configured)"""
        return (f"implies({lst} is not None, ite({relaxed}, {test(relaxed_value)}, "
                f"forall(j, 0, len(target_labels), implies({first('j')}, {test(f'{lst}[j]')}))))")
    clauses = [
        f"implies(target_labels is not None and len(target_labels) > 0, {relaxed} or {targeted})",
        f"implies(ignore_attributes is not None, {relaxed} or not exists(a, 0, len(ignore_attributes), "
        f"str_contains({o}.semantic_label.name, ignore_attributes[a]) or exists(b, 0, len({o}.semantic_label.attributes), {o}.semantic_label.attributes[b] == ignore_attributes[a])))",
        # confidence is a criterion for estimates only (the statement; the code applied it to ground truths too until the fix recorded in known_findings.json)
        f"implies(not {is_gt}, " + bound("confidence_threshold_list", lambda b: f"{o}.semantic_score > {b}", "0") + ")",
        bound("max_x_position_list", lambda b: f"abs({X}) < {b}", "mean(max_x_position_list)"),
        bound("max_y_position_list", lambda b: f"abs({Y}) < {b}", "mean(max_y_position_list)"),
        bound("max_distance_list", lambda b: f"{D} < {b}", "mean(max_distance_list)"),
        bound("min_distance_list", lambda b: f"{D} > {b}", "mean(min_distance_list)"),
        f"implies(min_point_numbers is not None and {is_gt}, ite({relaxed}, {o}.pointcloud_num >= 0, "
        f"forall(j, 0, len(target_labels), implies({first('j')}, {o}.pointcloud_num >= min_point_numbers[j]))))",
        f"implies(target_uuids is not None and {is_gt}, exists(u, 0, len(target_uuids), {o}.uuid == target_uuids[u]))",
    ]
    if parts:
        names = ["label_targeted", "no_ignored_attribute", "confidence", "max_x", "max_y", "max_distance", "min_distance", "point_count", "uuid"]
        return fp, list(zip(names, clauses))
    return f"({fp} or (" + " and ".join(f"({c})" for c in clauses) + "))"


def keep_ensures(o, is_gt, tf, res="result"):
    """the equivalence result == keep(o), split clause-wise so that each obligation stays small"""
    fp, cl = keep(o, is_gt, tf, parts=True)
    ens = [("false_positive_label_always_kept", f"implies({fp}, {res})")]
    for nm, c in cl:
        ens.append((f"kept_only_if.{nm}", f"implies({res} and not {fp}, {c})"))
    ens.append(("kept_if_all_criteria_hold", f"implies(not {fp} and " + " and ".join(f"({c})" for _, c in cl) + f", {res})"))
    return ens


def list_requires(extra=()):
    r = []
    for l in LISTS + ["min_point_numbers"] + list(extra):
        r.append((f"{l}_per_label", f"implies({l} is not None, target_labels is not None and len(target_labels) > 0 and len({l}) == len(target_labels))"))
    return r


def params(tf_given):
    R = lambda: Opt(TSList(TReal()))
    p = {"is_gt": TBool(), "target_labels": Opt(TSList(TEnum(None))), "ignore_attributes": Opt(TSList(TStr())),
         "max_x_position_list": R(), "max_y_position_list": R(), "max_distance_list": R(), "min_distance_list": R(),
         "confidence_threshold_list": R(), "min_point_numbers": Opt(TSList(TInt())), "target_uuids": Opt(TSList(TStr())),
         "transforms": (lambda it: VOpaque("transformdict", it.ctx.fresh("transforms", I))) if tf_given else (lambda it: NONE)}
    return p


def kept(interp, e, fr):
    """uninterpreted predicate of all its arguments (abstract keep predicate)"""
    import z3
    zs = []
    for a in e.args:
        v = interp.ev(a, fr)
        if v.kind == "none":
            zs.append(z3.IntVal(0))
        elif v.kind == "bool":
            zs.append(v.z)
        elif hasattr(v, "z") and v.z is not None:
            zs.append(v.z)
        else:
            raise EngineError(f"kept(): argument {v}")
    f = z3.Function("kept", *[z.sort() for z in zs], z3.BoolSort())
    return VBool(f(*zs))


def str_contains(interp, e, fr):
    import z3
    a, b = interp.ev(e.args[0], fr), interp.ev(e.args[1], fr)
    return VBool(z3.Contains(a.z, b.z))


def build(P, tf_options=(True, False), filters=True):
    """tf_options / filters: C07 re-runs only the ego-relative core (_is_target_object with a transform registry)"""
    idx = P.index
    models(P)
    P.min_obligations = 60
    P.install(lambda it: it.spec_funcs.update(str_contains=str_contains, kept=kept))
    AL = TEnum(idx.lookup("common.label:AutowareLabel"))
    add_count_lemmas(P)
    # ------------------------------------------------------------------ get_label_threshold (cut at its contract by the callers)
    L0 = "semantic_label.label"
    first0 = lambda j: f"(target_labels[{j}] is {L0} and forall(m, 0, {j}, target_labels[m] is not {L0}))"
    def glt(elem):
        return Contract("common.threshold:get_label_threshold",
                        params={"semantic_label": TSObj("Label"), "target_labels": Opt(TSList(AL)), "threshold_list": Opt(TSList(elem))},
                        returns=lambda it, cf: Opt(cf.vars["threshold_list"].elem if cf.vars["threshold_list"].kind == "slist" else TReal()).fresh(it.ctx, "label_threshold"),
                        requires=E("one_threshold_per_label", "implies(target_labels is not None and threshold_list is not None, len(threshold_list) == len(target_labels))"),
                        ensures=E("none_iff_no_threshold_for_this_label",
                                  f"(result is None) == (target_labels is None or threshold_list is None or not exists(j, 0, len(target_labels), target_labels[j] is {L0}))",
                                  "some_first_matching_target_gives_it",
                                  f"implies(result is not None, exists(j, 0, len(target_labels), {first0('j')} and result == threshold_list[j]))",
                                  "threshold_of_first_matching_target",
                                  f"implies(result is not None, forall(j, 0, len(target_labels), implies({first0('j')}, result == threshold_list[j])))"))
    P.contract(glt(TReal()), name="get_label_threshold[real thresholds]")
    P.verify("common.threshold:get_label_threshold", name="get_label_threshold[int thresholds]", contract=glt(TInt()))
    for tf_given in tf_options:
        tag = "transforms given" if tf_given else "ego frame, no transforms"
        tf = "transforms" if tf_given else None
        pr = params(tf_given)
        pr["target_labels"] = Opt(TSList(AL))
        frame_req = [] if tf_given else [("ego_frame_without_transforms", "dynamic_object.frame_id is FrameID.BASE_LINK")]
        pnum_req = [("gt_point_count_known", "implies(min_point_numbers is not None and is_gt, dynamic_object.pointcloud_num is not None)")]
        # ------------------------------------------------------------------ _is_target_object
        c_obj = Contract(f"{OF}:_is_target_object",
                         params=dict(pr, dynamic_object=TSObj("DynamicObject")), returns=TBool(),
                         requires=list_requires() + frame_req + pnum_req,
                         ensures=keep_ensures("dynamic_object", "is_gt", tf))
        P.verify(f"{OF}:_is_target_object", name=f"_is_target_object[{tag}]", contract=c_obj)
        if not filters:
            continue
        # ------------------------------------------------------------------ filter_objects: exactly the kept ones, in order, input untouched
        # Modular step: inside filter_objects the callee is known only through the abstract contract
        #   _is_target_object(o, args...) == kept(o, args...)
        # with `kept` an uninterpreted predicate of *all* arguments (so a mis-wired call site changes the term).  The verified
        # contract above instantiates kept := the statement's predicate, whose value does not depend on the loop state because
        # the loop writes only the fresh result list (frame obligation below).
        ARGS = ["is_gt", "target_labels", "ignore_attributes", "max_x_position_list", "max_y_position_list", "max_distance_list",
                "min_distance_list", "confidence_threshold_list", "min_point_numbers", "target_uuids", "transforms"]
        KEPT = lambda o: f"kept({o}, " + ", ".join(ARGS) + ")"
        c_abs = Contract(f"{OF}:_is_target_object", params=dict(pr, dynamic_object=TSObj("DynamicObject")), returns=TBool(),
                         requires=list_requires() + frame_req + pnum_req,
                         ensures=E("abstract_keep_predicate", f"result == {KEPT('dynamic_object')}"))
        cnt_ghost, cnt_defs = count_fn("kept_before")
        KEEP_K = lambda k: KEPT(f"objects[{k}]")
        obj_req = ([] if tf_given else [("ego_frame_without_transforms", "forall(k, 0, len(objects), objects[k].frame_id is FrameID.BASE_LINK)")]) + \
                  [("gt_point_count_known", "implies(min_point_numbers is not None and is_gt, forall(k, 0, len(objects), objects[k].pointcloud_num is not None))")]
        untouched = "len(objects) == old(len(objects)) and forall(k, 0, len(objects), objects[k] is old(objects[k]))"
        inv = E("length_is_number_kept", "len(filtered_objects) == kept_before(i)",
                "kept_objects_in_order", "forall(k, 0, i, implies(" + KEEP_K("k") + ", filtered_objects[kept_before(k)] is objects[k]))",
                "result_is_new", "not is_old(filtered_objects) and filtered_objects is not None",
                "input_untouched", untouched)
        c_fo = Contract(f"{OF}:filter_objects",
                        params=dict(pr, objects=TSList(TSObj("DynamicObject"))), returns=TSList(TSObj("DynamicObject")),
                        locals={"filtered_objects": TSList(TSObj("DynamicObject")), "is_target": TBool()},
                        ghosts={"kept_before": cnt_ghost}, defs=cnt_defs(KEEP_K, "len(objects)"),
                        requires=list_requires() + obj_req,
                        loops={1: LoopSpec(index="i", invariants=inv)},
                        ensures=E("as_many_as_kept", "len(result) == kept_before(len(objects))",
                                  "exactly_the_kept_objects_in_order", "forall(k, 0, len(objects), implies(" + KEEP_K("k") + ", result[kept_before(k)] is objects[k]))",
                                  "input_untouched", untouched,
                                  "result_is_a_new_list", "not is_old(result)"))
        P.verify(f"{OF}:filter_objects", name=f"filter_objects[{tag}]", contract=c_fo,
                 extra_contracts={idx.lookup(f"{OF}:_is_target_object").fq: c_abs})
        # ------------------------------------------------------------------ filter_object_results: a result goes when either side fails
        P.model(ClassModel("DynamicObjectWithPerceptionResult", {
            "estimated_object": TSObj("DynamicObject"), "ground_truth_object": TSObj("DynamicObject", nullable=True)},
            repo_class=idx.lookup("evaluation.result.object_result:DynamicObjectWithPerceptionResult")))
        RES = TSObj("DynamicObjectWithPerceptionResult")
        def kept_args(o, **over):
            vals = {a: a for a in ARGS}
            vals.update(over)
            return f"kept({o}, " + ", ".join(vals[a] for a in ARGS) + ")"
        EST = lambda r: kept_args(f"{r}.estimated_object", is_gt="False", ignore_attributes="None", min_point_numbers="None", target_uuids="None")
        GT = lambda r: kept_args(f"{r}.ground_truth_object", is_gt="True", confidence_threshold_list="None")
        KEEP_R = lambda k: (f"({EST(f'object_results[{k}]')} and ({GT(f'object_results[{k}]')} if object_results[{k}].ground_truth_object is not None "
                            f"else not (target_uuids is not None and len(target_uuids) > 0)))")
        rcnt_ghost, rcnt_defs = count_fn("results_kept_before")
        r_untouched = "len(object_results) == old(len(object_results)) and forall(k, 0, len(object_results), object_results[k] is old(object_results[k]))"
        pr_r = {k: v for k, v in pr.items() if k != "is_gt"}
        res_req = ([] if tf_given else [("ego_frame_without_transforms", "forall(k, 0, len(object_results), object_results[k].estimated_object.frame_id is FrameID.BASE_LINK and "
                                         "implies(object_results[k].ground_truth_object is not None, object_results[k].ground_truth_object.frame_id is FrameID.BASE_LINK))")]) + \
                  [("gt_point_count_known", "implies(min_point_numbers is not None, forall(k, 0, len(object_results), implies(object_results[k].ground_truth_object is not None, object_results[k].ground_truth_object.pointcloud_num is not None)))")]
        c_for = Contract(f"{OF}:filter_object_results",
                         params=dict(pr_r, object_results=TSList(RES)), returns=TSList(RES),
                         locals={"filtered_object_results": TSList(RES), "is_target": TBool()},
                         ghosts={"results_kept_before": rcnt_ghost}, defs=rcnt_defs(KEEP_R, "len(object_results)"),
                         requires=list_requires() + res_req,
                         loops={1: LoopSpec(index="i", invariants=E(
                             "length_is_number_kept", "len(filtered_object_results) == results_kept_before(i)",
                             "kept_results_in_order", "forall(k, 0, i, implies(" + KEEP_R("k") + ", filtered_object_results[results_kept_before(k)] is object_results[k]))",
                             "result_is_new", "not is_old(filtered_object_results) and filtered_object_results is not None",
                             "input_untouched", r_untouched))},
                         ensures=E("as_many_as_kept", "len(result) == results_kept_before(len(object_results))",
                                   "exactly_the_results_whose_both_sides_pass_in_order",
                                   "forall(k, 0, len(object_results), implies(" + KEEP_R("k") + ", result[results_kept_before(k)] is object_results[k]))",
                                   "input_untouched", r_untouched, "result_is_a_new_list", "not is_old(result)"))
        P.verify(f"{OF}:filter_object_results", name=f"filter_object_results[{tag}]", contract=c_for,
                 extra_contracts={idx.lookup(f"{OF}:_is_target_object").fq: c_abs})
    P.trust("TransformDict.transform abstracted: identity on X->X, otherwise an uninterpreted function of (registry, frames, point) [verified for the real class under C18]")
    P.assume("per-label bound lists, when given, have one entry per target label and target labels are given (the configuration classes establish this: C15)")
    P.assume("without transforms, objects are in the ego frame (otherwise the code skips the range test; outside the property's domain)")
    P.uncover("idempotence and monotonicity-in-the-bounds are consequences of `result == filter(keep, objects)` with keep monotone in each bound; "
              "stated, proved only for the strict comparisons (lemma), not re-proved through np.mean for the relaxed bounds")
