"""nuscenes-devkit (NuScenes / Box) as an abstract database (assumed contracts; installed by the property that needs them).

`nusc.get(table, token)` is a record whose fields are uninterpreted functions of (table, token, field); `sample['data']` is a map from channel names
to sample_data tokens; `nusc.get_sample_data(t)[1]` / `nusc.get_boxes(t)` are two lists of Box objects (ego frame / global frame) determined by
the database and the token.  Nothing about the devkit's geometry is assumed here: positions are whatever the boxes hold."""
import z3

from ..values import *
from ..ops import to_int_z

S = z3.StringSort()
REC_INT = z3.Function("db_int", I, S, S, S, I)
REC_STR = z3.Function("db_str", I, S, S, S, S)
REC_LIST = z3.Function("db_list", I, S, S, S, I)
DATA_HAS = z3.Function("sample_has_channel", I, S, S, B)
DATA_GET = z3.Function("sample_channel_token", I, S, S, S)
BOXES_EGO = z3.Function("boxes_in_ego_frame", I, S, I)
BOXES_MAP = z3.Function("boxes_in_global_frame", I, S, I)
VIS_LEN = z3.Function("visibility_table_len", I, I)
V3 = z3.Function("ndarray3_item", I, I, R)

INT_FIELDS = {("sample", "timestamp"), ("sample_annotation", "num_lidar_pts"), ("sample_annotation", "num_radar_pts"), ("sample_data", "timestamp"), ("ego_pose", "timestamp")}
STR_FIELDS = {("sample_annotation", "instance_token"), ("sample_annotation", "visibility_token"), ("sample_annotation", "sample_token"), ("sample_annotation", "category_name"),
              ("visibility", "level"), ("attribute", "name"), ("sample_data", "sample_token"), ("sample_data", "ego_pose_token"), ("sample_data", "calibrated_sensor_token"),
              ("sample_data", "channel"), ("instance", "category_token"), ("category", "name")}
LIST_FIELDS = {("sample_annotation", "attribute_tokens")}


def _sz(v):
    return z3.StringVal(v.const) if v.const is not None else v.z


def old_list(interp, lid, elem):
    t = TSList(elem)
    interp.ctx.assume(z3.And(lid != 0, interp.ctx.is_old(lid), REF_TYPE(lid) == t.tag(), interp.ctx.slen(lid) >= 0))
    return VSList(lid, elem)


def _get(interp, args, kwargs, node):
    nusc, table, token = args
    return VOpaque("record", None, data={"db": nusc.z, "table": table.const, "token": _sz(token)})


def _getitem(interp, args, kwargs, node):
    o, key = args
    if o.tag == "record":
        db, table, token = o.data["db"], o.data["table"], o.data["token"]
        k = (table, key.const)
        tz, kz = z3.StringVal(table), z3.StringVal(key.const)
        if k in INT_FIELDS:
            return VInt(REC_INT(db, tz, token, kz))
        if k in STR_FIELDS:
            return VStr(REC_STR(db, tz, token, kz))
        if k in LIST_FIELDS:
            return old_list(interp, REC_LIST(db, tz, token, kz), TStr())
        if k == ("sample", "data"):
            return VOpaque("datamap", None, data={"db": db, "token": token})
        raise EngineError(f"database field {table}.{key.const} has no assumed type")
    if o.tag == "datamap":
        return VStr(DATA_GET(o.data["db"], o.data["token"], _sz(key)))
    raise EngineError(f"subscript of opaque {o.tag}")


def _contains(interp, args, kwargs, node):
    c, x = args
    if c.tag == "datamap":
        return VBool(DATA_HAS(c.data["db"], c.data["token"], _sz(x)))
    raise EngineError(f"`in` on opaque {c.tag}")


def _variant(fn_name, args, kwargs, n_plain):
    """the assumed contract covers the plain call only: any further argument selects a different (unrelated) result"""
    if len(args) == n_plain and not kwargs:
        return None
    desc = fn_name + "|" + ",".join(repr(getattr(a, "const", None)) for a in args[n_plain:]) + "|" + ",".join(f"{k}={getattr(v, 'const', None)!r}" for k, v in sorted(kwargs.items()))
    return z3.Function("devkit_variant_" + str(abs(hash(desc)) % 10**8), I, S, I)


def _get_sample_data(interp, args, kwargs, node):
    nusc, token = args[0], args[1]
    f = _variant("get_sample_data", args, kwargs, 2)
    f = BOXES_EGO if f is None else f
    boxes = old_list(interp, f(nusc.z, _sz(token)), TSObj("Box"))
    return VTuple([VOpaque("path", None), boxes, VOpaque("intrinsic", None)])


def _get_boxes(interp, args, kwargs, node):
    nusc, token = args[0], args[1]
    f = _variant("get_boxes", args, kwargs, 2)
    f = BOXES_MAP if f is None else f
    return old_list(interp, f(nusc.z, _sz(token)), TSObj("Box"))


def _visibility(interp, o, node):
    return VOpaque("dbtable", None, data={"len": VIS_LEN(o.z)})


def _table_len(interp, args, kwargs, node):
    n = args[0].data["len"]
    interp.ctx.assume(n >= 0)
    return VInt(n)


def _astype(interp, args, kwargs, node):
    return args[0]


def _tolist3(interp, args, kwargs, node):
    v = args[0]
    return interp.ctx.new_cell("list", [VReal(V3(v.z, z3.IntVal(i))) for i in range(3)])


def vec3_of(interp, v):
    return VTuple([VReal(V3(v.z, z3.IntVal(i))) for i in range(3)])


HANDLERS = {
    "nusc.get": (_get, "nusc.get(table, token) is the record of that table with that token; its fields are functions of (database, table, token, field)"),
    "opaque.getitem": (_getitem, "record[field] / sample['data'][channel]"),
    "opaque.contains": (_contains, "channel in sample['data']"),
    "nusc.get_sample_data": (_get_sample_data, "nusc.get_sample_data(token)[1]: the annotation boxes of that sample data in the sensor (ego) frame, a list determined by (database, token)"),
    "nusc.get_boxes": (_get_boxes, "nusc.get_boxes(token): the annotation boxes of that sample data in the global frame, a list determined by (database, token)"),
    "dbtable.__len__": (_table_len, "len(nusc.visibility) >= 0"),
    "ndarray3.astype": (_astype, "astype(float64) keeps the values"),
    "ndarray3.tolist": (_tolist3, "a 3-vector's tolist() is its three numbers"),
}
ATTRS = {("nusc", "visibility"): _visibility}


def _spec(name):
    def f(interp, e, fr):
        vals = [interp.ev(a, fr) for a in e.args]
        if name == "db_int":
            return VInt(REC_INT(vals[0].z, _sz(vals[1]), _sz(vals[2]), _sz(vals[3])))
        if name == "db_str":
            return VStr(REC_STR(vals[0].z, _sz(vals[1]), _sz(vals[2]), _sz(vals[3])))
        if name == "db_list":
            return VSList(REC_LIST(vals[0].z, _sz(vals[1]), _sz(vals[2]), _sz(vals[3])), TStr())
        if name == "channel_present":
            return VBool(DATA_HAS(vals[0].z, _sz(vals[1]), _sz(vals[2])))
        if name == "channel_token":
            return VStr(DATA_GET(vals[0].z, _sz(vals[1]), _sz(vals[2])))
        if name == "boxes_ego":
            return VSList(BOXES_EGO(vals[0].z, _sz(vals[1])), TSObj("Box"))
        if name == "boxes_map":
            return VSList(BOXES_MAP(vals[0].z, _sz(vals[1])), TSObj("Box"))
        if name == "visibility_rows":
            return VInt(VIS_LEN(vals[0].z))
        if name == "vec3":
            return vec3_of(interp, vals[0])
        raise EngineError(name)
    return f


SPEC_FUNCS = {n: _spec(n) for n in ("db_int", "db_str", "db_list", "channel_present", "channel_token", "boxes_ego", "boxes_map", "visibility_rows", "vec3")}


def install(it):
    from . import _wrap
    for dotted, (fn, doc) in HANDLERS.items():
        it.externals[dotted] = _wrap(it, dotted, fn, doc)
    for key, fn in ATTRS.items():
        it.ext_attrs[key] = fn
    it.spec_funcs.update(SPEC_FUNCS)
