"""shapely polygons as abstract values (assumed contracts; installed by the property that needs them).

A polygon is an element of an uninterpreted universe; PINTER(a, b) is `a.intersection(b)`, PAREA(p) is `p.area`.
Assumed (the library boundary): areas are non-negative and the area of an intersection does not exceed the area of either operand.
FOOT(o) is the world-frame footprint `o.get_footprint()` of a box; its area equals the area of the object-frame footprint
(a rigid motion preserves areas: assumed, checked by the native harness)."""
import z3

from ..values import *

PINTER = z3.Function("shapely_intersection", I, I, I)
PAREA = z3.Function("shapely_area", I, R)
FOOT = z3.Function("world_footprint", I, I)


def poly(z, parts=None):
    return VOpaque("polygon", z, data={"parts": parts})


def _intersection(interp, args, kwargs, node):
    a, b = args
    return poly(PINTER(a.z, b.z), parts=(a.z, b.z))


def _area(interp, o, node):
    a = PAREA(o.z)
    facts = [a >= 0]
    if o.data.get("parts"):
        x, y = o.data["parts"]
        facts += [a <= PAREA(x), a <= PAREA(y), PAREA(x) >= 0, PAREA(y) >= 0]
    interp.ctx.assume(z3.And(*facts))
    return VReal(a)


def world_footprint(interp, obj, object_frame_footprint):
    """value of obj.get_footprint(): FOOT(obj), with the area of the object-frame footprint"""
    z = FOOT(obj.z)
    interp.ctx.assume(PAREA(z) == PAREA(object_frame_footprint.z))
    return poly(z)


def _spec(name):
    def f(interp, e, fr):
        vals = [interp.ev(a, fr) for a in e.args]
        if name == "poly_area":
            return VReal(PAREA(vals[0].z))
        if name == "poly_inter":
            return poly(PINTER(vals[0].z, vals[1].z), parts=(vals[0].z, vals[1].z))
        if name == "footprint_of":
            return poly(FOOT(vals[0].z))
        raise EngineError(name)
    return f


HANDLERS = {"polygon.intersection": (_intersection, "a.intersection(b) is a polygon determined by a and b")}
ATTRS = {("polygon", "area"): _area}
SPEC_FUNCS = {n: _spec(n) for n in ("poly_area", "poly_inter", "footprint_of")}


def install(it):
    from . import _wrap
    for dotted, (fn, doc) in HANDLERS.items():
        it.externals[dotted] = _wrap(it, dotted, fn, doc)
    for key, fn in ATTRS.items():
        it.ext_attrs[key] = fn
    it.spec_funcs.update(SPEC_FUNCS)
