"""Generic spec functions available to every contract: uninterpreted functions of arbitrary arguments."""
import z3
from .values import *


def _zs(interp, vals):
    zs = []
    for v in vals:
        if v.kind == "none":
            zs.append(z3.IntVal(0))
        elif v.kind == "class":
            name = v.cls if isinstance(v.cls, str) else v.cls.name
            zs.append(z3.IntVal(sum((i + 1) * ord(ch) for i, ch in enumerate(name))))
        elif v.kind == "enum":
            zs.append(v.z)
        elif v.kind == "tuple":
            zs.extend(_zs(interp, v.items))
        elif v.kind == "opt":
            zs.extend([v.isnone] + _zs(interp, [v.inner]))
        elif v.kind == "ref" and v.rkind == "obj":
            zs.append(z3.IntVal(-1000 - v.addr))       # a concrete-heap object: its identity
        elif getattr(v, "z", None) is not None:
            zs.append(v.z)
        else:
            raise EngineError(f"uf argument {v}")
    return zs


def _uf(sort, wrap):
    def f(interp, e, fr):
        name = interp.ev(e.args[0], fr).const
        zs = _zs(interp, [interp.ev(a, fr) for a in e.args[1:]])
        fn = z3.Function("uf_" + name, *[z.sort() for z in zs], sort)
        return wrap(fn(*zs))
    return f


_ENV = z3.Function("envelope_area", z3.ArraySort(I, R), z3.ArraySort(I, R), I, R)


def envsum(interp, e, fr):
    """envsum(mp, mr, m) = sum_{t<m} mp[t] * (mr[t] - mr[t+1]) of two real lists: ghost function defined by primitive recursion
    on m (the two defining equations are added for the lists it is applied to)"""
    mp, mr = interp.ev(e.args[0], fr), interp.ev(e.args[1], fr)
    m = interp.ev(e.args[2], fr)
    ctx = interp.ctx
    a = z3.Select(ctx.item_map("", R), mp.z)
    b = z3.Select(ctx.item_map("", R), mr.z)
    key = ("envsum", a.get_id(), b.get_id())
    if key not in ctx.literals:
        ctx.literals.add(key)
        t = z3.Int("t!env")
        ctx.add_definition(_ENV(a, b, 0) == 0)
        ctx.add_definition(z3.ForAll([t], z3.Implies(t >= 0, _ENV(a, b, t + 1) == _ENV(a, b, t) + z3.Select(a, t) * (z3.Select(b, t) - z3.Select(b, t + 1)))))
    return VReal(_ENV(a, b, m.z))


SPEC_FUNCS = {"envsum": envsum, "uf_bool": _uf(B, VBool), "uf_real": _uf(R, VReal), "uf_int": _uf(I, VInt)}
