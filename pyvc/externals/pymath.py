"""math.* : assumed contracts over the reals"""
import z3
from ..values import *
from ..ops import to_real_z

SQRT = z3.Function("real_sqrt", R, R)


def sqrt_of(interp, xz, node=None):
    r = SQRT(xz)
    interp.ctx.assume(z3.Implies(xz >= 0, z3.And(r >= 0, r * r == xz)))
    return r


def _sqrt(interp, args, kwargs, node):
    x = to_real_z(interp.unwrap(args[0], node))
    if not interp.spec:
        interp.ctx.oblige("safety.sqrt_nonneg", x >= 0, node)
    return VReal(sqrt_of(interp, x))


def _hypot(interp, args, kwargs, node):
    xs = [to_real_z(interp.unwrap(a, node)) for a in args]
    s = sum((x * x for x in xs[1:]), xs[0] * xs[0])
    return VReal(sqrt_of(interp, s))


def _isclose(interp, args, kwargs, node):
    a, b = [to_real_z(interp.unwrap(x, node)) for x in args[:2]]
    return VBool(a == b)     # reals: no rounding, closeness is equality (stated assumption)


HANDLERS = {
    "math.sqrt": (_sqrt, "sqrt(x) >= 0 and sqrt(x)^2 == x for x >= 0"),
    "math.hypot": (_hypot, "hypot(x, y, ...) is the non-negative root of the sum of squares"),
    "math.isclose": (_isclose, "floats are reals: isclose is equality"),
}
ATTRS = {}
