"""C17 — ground-truth lookup picks the nearest frame in tolerance; interpolation is exact.

get_now_frame / get_interpolated_now_frame: integers and sequences, proved for all frame lists.
interpolate_list: exact linear interpolation over the reals.  Orientation: relative to the assumed
contract of pyquaternion slerp.
"""
from pyvc.api import *

DS = "common.dataset"
GEO = "common.geometry"


def models(P):
    P.model(ClassModel("FrameGroundTruth", {
        "unix_time": TInt(), "frame_name": TStr(),
        "interp_before": TSObj("FrameGroundTruth", nullable=True),    # ghost: set by interpolate_ground_truth_frames' contract
        "interp_after": TSObj("FrameGroundTruth", nullable=True),
    }, repo_class=P.index.lookup(f"{DS}:FrameGroundTruth")))


FRAMES = "ground_truth_frames"
T_ = "unix_time"
TOL = "threshold_min_time"
n = f"len({FRAMES})"
t = lambda k: f"{FRAMES}[{k}].unix_time"


def build(P):
    idx = P.index
    models(P)
    P.min_obligations = 40
    FR = TSObj("FrameGroundTruth")
    # ------------------------------------------------------------------ get_now_frame
    P.contract(Contract(
        f"{DS}:get_now_frame",
        params={FRAMES: TSList(FR), T_: TInt(), TOL: TInt()},
        returns=TSObj("FrameGroundTruth", nullable=True),
        locals={"ground_truth_now_frame": FR, "min_time": TInt(), "diff_time": TInt()},
        requires=E("some_frame_loaded", f"{n} > 0"),
        raises={"DatasetLoadingError": f"{T_} > 10**17"},
        loops={1: LoopSpec(index="i", invariants=E(
            "candidate_is_a_loaded_frame", f"exists(j, 0, {n}, ground_truth_now_frame is {FRAMES}[j])",
            "min_time_is_its_distance", f"min_time == abs({T_} - ground_truth_now_frame.unix_time)",
            "no_earlier_frame_is_closer", f"forall(k, 0, i, min_time <= abs({T_} - {t('k')}))",
        ))},
        ensures=E(
            "result_is_a_loaded_frame", f"implies(result is not None, exists(j, 0, {n}, result is {FRAMES}[j]))",
            "result_is_closest", f"implies(result is not None, forall(k, 0, {n}, abs({T_} - result.unix_time) <= abs({T_} - {t('k')})))",
            "result_within_tolerance", f"implies(result is not None, abs({T_} - result.unix_time) <= {TOL})",
            "none_only_if_all_far", f"implies(result is None, forall(k, 0, {n}, abs({T_} - {t('k')}) > {TOL}))",
            "accepts_times_up_to_limit", f"{T_} <= 10**17",
        )))
    # ------------------------------------------------------------------ interpolate_ground_truth_frames (cut here; see below)
    P.contract(Contract(
        f"{DS}:interpolate_ground_truth_frames",
        params={"before_frame": FR, "after_frame": FR, T_: TInt()},
        returns=FR,
        requires=E("ordered", f"before_frame.unix_time <= {T_} and {T_} <= after_frame.unix_time and before_frame.unix_time < after_frame.unix_time"),
        ensures=E("stamped_with_query_time", f"result.unix_time == {T_}",
                  "interpolates_these_two", "result.interp_before is before_frame and result.interp_after is after_frame",
                  "fresh_frame", "not is_old(result) and allocated(result)")),
        verify=False)
    # ------------------------------------------------------------------ get_interpolated_now_frame
    is_before = lambda k: f"({t(k)} <= {T_} and forall(m, 0, {n}, implies({t('m')} <= {T_}, {t('m')} <= {t(k)})))"
    is_after = lambda k: f"({t(k)} > {T_} and forall(m, 0, {n}, implies({t('m')} > {T_}, {t('m')} >= {t(k)})))"
    hasB = f"exists(k, 0, {n}, {t('k')} <= {T_} and {T_} - {t('k')} <= {TOL})"
    hasA = f"exists(k, 0, {n}, {t('k')} > {T_} and {t('k')} - {T_} <= {TOL})"
    P.contract(Contract(
        f"{DS}:get_interpolated_now_frame",
        params={FRAMES: TSList(FR), T_: TInt(), TOL: TInt()},
        returns=TSObj("FrameGroundTruth", nullable=True),
        locals={"before_frame": Opt(FR), "after_frame": Opt(FR), "dt_before": TReal(), "dt_after": TReal(), "diff_time": TInt()},
        requires=E("frames_time_ordered", f"forall(j, 0, {n}, forall(k, 0, {n}, implies(j < k, {t('j')} < {t('k')})))",
                   "tolerance_non_negative", f"{TOL} >= 0"),
        loops={1: LoopSpec(index="i", invariants=E(
            "no_later_frame_seen", "after_frame is None and dt_after == 0",
            "all_seen_are_not_later", f"forall(k, 0, i, {t('k')} <= {T_})",
            "before_is_last_seen", f"(before_frame is None) == (i == 0)",
            "before_is_previous_frame", f"implies(i > 0, before_frame is {FRAMES}[i - 1] and dt_before == {T_} - {t('i - 1')})",
            "dt_before_zero_initially", "implies(i == 0, dt_before == 0)",
        ))},
        ensures=E(
            "nothing_iff_no_frame_within_tolerance", f"(result is None) == forall(k, 0, {n}, abs({T_} - {t('k')}) > {TOL})",
            "only_earlier_neighbour_in_tolerance", f"implies(({hasB}) and not ({hasA}), exists(k, 0, {n}, result is {FRAMES}[k] and {is_before('k')}))",
            "only_later_neighbour_in_tolerance", f"implies(({hasA}) and not ({hasB}), exists(k, 0, {n}, result is {FRAMES}[k] and {is_after('k')}))",
            "both_neighbours_interpolated", f"implies(({hasA}) and ({hasB}), result is not None and not is_old(result) and result.unix_time == {T_} and "
                                           f"exists(k, 0, {n}, result.interp_before is {FRAMES}[k] and {is_before('k')}) and "
                                           f"exists(k, 0, {n}, result.interp_after is {FRAMES}[k] and {is_after('k')}))",
        )))
    # ------------------------------------------------------------------ interpolate_list: exact linear interpolation
    P.contract(Contract(
        f"{GEO}:interpolate_list",
        params={"list_1": TSList(TReal()), "list_2": TSList(TReal()), "t1": TReal(), "t2": TReal(), "t": TReal()},
        returns=TSList(TReal()),
        locals={"state": TSList(TReal())},
        requires=E("distinct_times", "t1 < t2"),
        raises={"AssertionError": "not (t1 <= t and t <= t2) or len(list_1) != len(list_2)"},
        loops={1: LoopSpec(index="i", invariants=E(
            "prefix_built", "len(state) == i",
            "prefix_is_interpolated", "forall(k, 0, i, state[k] == list_1[k] + (list_2[k] - list_1[k]) * (t - t1) / (t2 - t1))",
            "state_is_the_new_list", "not is_old(state)",
        ))},
        ensures=E(
            "same_length", "len(result) == len(list_1)",
            "proportional_point_on_the_segment", "forall(k, 0, len(list_1), result[k] == list_1[k] + (list_2[k] - list_1[k]) * (t - t1) / (t2 - t1))",
            "inputs_untouched", "len(list_1) == old(len(list_1)) and len(list_2) == old(len(list_2))",
        )))
    # the interpolated value (functional postcondition above) lies on the segment between the endpoints: lemma over the reals
    def on_segment(z3):
        a, b, t1, t2, t = z3.Reals("a b t1 t2 t")
        r = a + (b - a) * (t - t1) / (t2 - t1)
        return [t1 < t2, t1 <= t, t <= t2], z3.Or(z3.And(a <= r, r <= b), z3.And(b <= r, r <= a))
    P.lemma("interpolated_value_lies_between_the_endpoints", on_segment)
    def exact_at_ends(z3):
        a, b, t1, t2 = z3.Reals("a b t1 t2")
        f = lambda t: a + (b - a) * (t - t1) / (t2 - t1)
        return [t1 < t2], z3.And(f(t1) == a, f(t2) == b)
    P.lemma("interpolation_reproduces_the_neighbours_at_their_own_time", exact_at_ends)
    P.uncover("interpolate_object_list / interpolate_state / interpolate_quaternion / interpolate_ground_truth_frames bodies: "
              "interpolate_ground_truth_frames is cut at an assumed contract (stamped with the query time, built from the two given frames); "
              "the per-object pose clauses (shortest rotation arc, objects in one neighbour kept) are not decided in this build")
    P.assume("contract of interpolate_ground_truth_frames (result stamped with the query time and built from exactly the two frames passed) is assumed, not proved")
    P.assume("FrameGroundTruth.unix_time is an int; frames are strictly time-ordered (the property's own quantifier domain)")
