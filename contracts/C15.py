"""C15 — configurations are validated; thresholds normalised to one value per label.

Threshold values are dynamically typed (the code branches on isinstance): they are symbolic values of an uninterpreted universe
with a type tag, a length and items (two levels deep — the code never looks deeper).  Under contract: check_thresholds,
check_nested_thresholds, set_thresholds (what a normal return guarantees, which errors are raised and only when),
_EvaluationConfigBase._check_tasks, PerceptionEvaluationConfig._extract_params (range kinds, mandatory parameters,
per-label list lengths) and MetricsScoreConfig._check_parameters (unknown metric parameters).
"""
from pyvc.api import *
from pyvc.dyn import TAG, DLEN, DITEM

TH = "common.threshold"


def spec_dyn(P):
    import z3

    def is_real(interp, e, fr):
        v = interp.ev(e.args[0], fr)
        return VBool(z3.Or(TAG(v.z) == 1, TAG(v.z) == 2, TAG(v.z) == 3)) if v.kind == "dyn" else VBool(v.kind in ("int", "real", "bool"))

    def is_list(interp, e, fr):
        v = interp.ev(e.args[0], fr)
        return VBool(TAG(v.z) == 5) if v.kind == "dyn" else VBool(v.kind in ("slist",) or (v.kind == "ref" and v.rkind == "list"))

    def dlen(interp, e, fr):
        v = interp.ev(e.args[0], fr)
        return VInt(DLEN(v.z)) if v.kind == "dyn" else interp.bi_len([v], {}, e)

    def ditem(interp, e, fr):
        v, k = interp.ev(e.args[0], fr), interp.ev(e.args[1], fr)
        if v.kind == "dyn":
            return VDyn(DITEM(v.z, k.z))
        return interp.getitem(v, k, e)
    P.install(lambda it: it.spec_funcs.update(is_real=is_real, is_list=is_list, dlen=dlen, ditem=ditem))


def build(P):
    idx = P.index
    P.min_obligations = 10
    spec_dyn(P)
    D = TDyn()
    all_real = lambda x: f"forall(k, 0, dlen({x}), is_real(ditem({x}, k)))"
    # ---------------------------------------------------------------- flat lists
    P.verify(f"{TH}:check_thresholds", name="check_thresholds",
             contract=Contract(f"{TH}:check_thresholds", cut=False, params={"thresholds": D, "num_elements": TInt()},
                               requires=E("a_list", "is_list(thresholds)"),
                               raises={"ThresholdError": f"not ({all_real('thresholds')}) or dlen(thresholds) != num_elements"},
                               ensures=E("one_number_per_label", f"dlen(result) == num_elements and {all_real('result')}",
                                         "nothing_padded_or_truncated", "result is thresholds")))
    # ---------------------------------------------------------------- nested lists
    inner_ok = "forall(k, 0, dlen(thresholds), is_list(ditem(thresholds, k)) and dlen(ditem(thresholds, k)) == num_elements and num_elements != 0 and " + \
               "forall(m, 0, dlen(ditem(thresholds, k)), is_real(ditem(ditem(thresholds, k), m))))"
    P.verify(f"{TH}:check_nested_thresholds", name="check_nested_thresholds",
             contract=Contract(f"{TH}:check_nested_thresholds", cut=False, params={"thresholds": D, "num_elements": TInt()},
                               requires=E("a_list", "is_list(thresholds)"),
                               raises={"ThresholdError": f"not ({inner_ok})", "TypeError": f"not ({inner_ok})"},
                               ensures=E("every_inner_list_holds_one_number_per_label", inner_ok,
                                         "nothing_padded_or_truncated", "result is thresholds")))
    # ---------------------------------------------------------------- set_thresholds: whatever the normalisation produced is validated before it is returned
    get_flat = Contract(f"{TH}:__get_thresholds", params={}, returns=D, raises={"ThresholdError": "True", "TypeError": "True"}, ensures=E("a_list", "is_list(result)"))
    get_nested = Contract(f"{TH}:__get_nested_thresholds", params={}, returns=D, raises={"ThresholdError": "True", "TypeError": "True"}, ensures=E("a_list", "is_list(result)"))
    for nest in (False, True):
        post = (E("every_inner_list_holds_one_number_per_label", inner_ok.replace("thresholds", "result")) if nest else
                E("one_number_per_label", f"dlen(result) == target_objects_num and {all_real('result')}".replace("num_elements", "target_objects_num")))
        post = [(a, b.replace("num_elements", "target_objects_num")) for a, b in post]
        P.verify(f"{TH}:set_thresholds", name=f"set_thresholds[nest={nest}]",
                 contract=Contract(f"{TH}:set_thresholds", cut=False, params={"thresholds": D, "target_objects_num": TInt(), "nest": VBool(nest)},
                                   raises={"ThresholdError": "True", "TypeError": "True"}, ensures=post),
                 extra_contracts={idx.lookup(f"{TH}:__get_thresholds").fq: get_flat, idx.lookup(f"{TH}:__get_nested_thresholds").fq: get_nested})
    # ---------------------------------------------------------------- __get_thresholds: a number or a singleton is repeated for every label, a full list is taken as it is,
    # any other length is rejected (never padded, tiled or truncated)
    P.verify(f"{TH}:__get_thresholds", name="__get_thresholds",
             contract=Contract(f"{TH}:__get_thresholds", cut=False, params={"threshold": D, "num_elements": TInt()},
                               requires=E("a_number_or_a_list", "is_real(threshold) or is_list(threshold)", "label_count", "num_elements >= 1"),
                               raises={"ThresholdError": f"is_list(threshold) and (dlen(threshold) == 0 or not ({all_real('threshold')}) or (dlen(threshold) != 1 and dlen(threshold) != num_elements))"},
                               ensures=E("a_list_of_another_length_is_rejected_not_padded", "implies(is_list(threshold), dlen(threshold) == 1 or dlen(threshold) == num_elements)",
                                         "only_numbers_are_accepted", f"implies(is_list(threshold), dlen(threshold) > 0 and {all_real('threshold')})",
                                         "one_entry_per_label", "is_list(result) and dlen(result) == num_elements",
                                         "a_number_is_repeated", "implies(is_real(threshold), forall(k, 0, num_elements, ditem(result, k) is threshold))",
                                         "a_singleton_is_repeated", "implies(is_list(threshold) and dlen(threshold) == 1, forall(k, 0, num_elements, ditem(result, k) is ditem(threshold, 0)))",
                                         "a_full_list_is_taken_as_it_is", "implies(is_list(threshold) and dlen(threshold) != 1, forall(k, 0, num_elements, ditem(result, k) is ditem(threshold, k)))")))
    # ---------------------------------------------------------------- task supported by the manager
    CFG = "config.perception_evaluation_config"
    PEC = idx.lookup(f"{CFG}:PerceptionEvaluationConfig")
    SEC = idx.lookup("config.sensing_evaluation_config:SensingEvaluationConfig")
    ETC = idx.lookup("common.evaluation_task:EvaluationTask")
    set_task_c = Contract("common.evaluation_task:set_task", params={}, returns=TEnum(ETC, nullable=True),
                          ensures=E("member_named_by_the_string", "all([implies(task_name == m.value, result is m) for m in EvaluationTask])",
                                    "none_only_for_non_members", "implies(result is None, not any([task_name == m.value for m in EvaluationTask]))"))
    for cls, cname in ((PEC, "PerceptionEvaluationConfig"), (SEC, "SensingEvaluationConfig")):
        mk_cfg = lambda it, cls=cls: it.ctx.new_cell("obj", {}, cls)
        P.verify("config._evaluation_config_base:_EvaluationConfigBase._check_tasks", name=f"_check_tasks[{cname}]",
                 contract=Contract("config._evaluation_config_base:_EvaluationConfigBase._check_tasks", cut=False,
                                   params={"self": mk_cfg, "evaluation_config_dict": lambda it: it.ctx.new_cell("dict", ([VStr("evaluation_task")], [TStr().fresh(it.ctx, "task")]))},
                                   raises={"ValueError": "not any([evaluation_config_dict['evaluation_task'] == t for t in self._support_tasks])"},
                                   ensures=E("task_is_supported_by_this_manager", "any([evaluation_config_dict['evaluation_task'] == t for t in self._support_tasks])",
                                             "task_is_the_member_named", "result is not None and result.value == evaluation_config_dict['evaluation_task']")),
                 extra_contracts={idx.lookup("common.evaluation_task:set_task").fq: set_task_c})
    # ---------------------------------------------------------------- unknown metric parameters are rejected
    MSC = "evaluation.metrics.metrics_score_config"
    for cfgcls in ("detection_metrics_config:DetectionMetricsConfig", "tracking_metrics_config:TrackingMetricsConfig", "classification_metrics_config:ClassificationMetricsConfig"):
        ci = idx.lookup("evaluation.metrics.config." + cfgcls)
        init = ci.find_method(idx, "__init__")
        names = [a.arg for a in init.node.args.args][1:]
        def params_dict(it, names=names):
            return it.ctx.new_cell("dict", ([VStr(n) for n in names] + [TStr().fresh(it.ctx, "extra_key")], [NONE for _ in names] + [NONE]))
        known = " or ".join(f"k == '{n}'" for n in names)
        P.verify(f"{MSC}:MetricsScoreConfig._check_parameters", name=f"MetricsScoreConfig._check_parameters[{ci.name}]",
                 contract=Contract(f"{MSC}:MetricsScoreConfig._check_parameters", cut=False,
                                   params={"config": VClass(ci), "params": params_dict},
                                   raises={"MetricsParameterError": f"not all([({known}) for k in params.keys()])"},
                                   ensures=E("every_supplied_parameter_is_a_parameter_of_the_metrics_config", f"all([({known}) for k in params.keys()])")))
    # ---------------------------------------------------------------- PerceptionEvaluationConfig._extract_params
    import ast as _ast
    ep = idx.lookup(f"{CFG}:PerceptionEvaluationConfig._extract_params")
    read_keys = []
    for nd in _ast.walk(ep.node):
        if isinstance(nd, _ast.Call) and isinstance(nd.func, _ast.Attribute) and nd.func.attr == "get" and _ast.unparse(nd.func.value) == "e_cfg" and isinstance(nd.args[0], _ast.Constant):
            if nd.args[0].value not in read_keys:
                read_keys.append(nd.args[0].value)
    AL = TEnum(idx.lookup("common.label:AutowareLabel"))
    stl = Contract("common.label:set_target_lists", params={}, returns=TSList(AL), ensures=E("some", "len(result) >= 0"))
    st_cut = Contract(f"{TH}:set_thresholds", params={}, returns=D, raises={"ThresholdError": "True", "TypeError": "True"},
                      ensures=E("one_number_per_label", f"is_list(result) and dlen(result) == target_objects_num and {all_real('result')}"))

    def cfg_dict(it, with_extra):
        ks = [VStr(k) for k in read_keys]
        vs = [TDyn().fresh(it.ctx, "cfg_" + k) for k in read_keys]
        if with_extra:
            ks.append(TStr().fresh(it.ctx, "extra_key"))
            vs.append(TDyn().fresh(it.ctx, "extra_value"))
        return it.ctx.new_cell("dict", (ks, vs))
    mk_self = lambda it: (lambda o: (it.ctx.cell(o).update(evaluation_task=TEnum(ETC).fresh(it.ctx, "task"), label_converter=it.ctx.new_cell("obj", {}, None)), o)[1])(it.ctx.new_cell("obj", {}, PEC))
    given = lambda k: f"(evaluation_config_dict['{k}'] is not None)"
    XY = f"({given('max_x_position')} and {given('max_y_position')})"
    DD = f"({given('max_distance')} and {given('min_distance')})"
    IS3D = "(self.evaluation_task in (EvaluationTask.DETECTION, EvaluationTask.TRACKING, EvaluationTask.PREDICTION, EvaluationTask.SENSING, EvaluationTask.FP_VALIDATION))"
    n_ = "len(self.target_labels)"
    per_label = lambda k: f"implies(result[0]['{k}'] is not None, is_list(result[0]['{k}']) and dlen(result[0]['{k}']) == {n_} and {all_real('result[0][' + repr(k) + ']')})"
    lists = ["max_x_position_list", "max_y_position_list", "max_distance_list", "min_distance_list", "max_matchable_radii", "min_point_numbers", "confidence_threshold_list"]
    P.verify(f"{CFG}:PerceptionEvaluationConfig._extract_params", name="PerceptionEvaluationConfig._extract_params",
             contract=Contract(f"{CFG}:PerceptionEvaluationConfig._extract_params", cut=False,
                               params={"self": mk_self, "evaluation_config_dict": lambda it: cfg_dict(it, False)},
                               modifies=[("attr", "self", "target_labels")],
                               raises={"RuntimeError": f"({XY} and {DD}) or ((not {XY}) and (not {DD}) and {IS3D}) or (self.evaluation_task is EvaluationTask.DETECTION and not {given('min_point_numbers')})",
                                       "ThresholdError": "True", "TypeError": "True"},
                               ensures=[("exactly_one_kind_of_range_bound_for_3d_tasks", f"implies({IS3D}, {XY} != {DD})"),
                                        ("never_both_kinds", f"not ({XY} and {DD})"),
                                        ("min_point_numbers_present_for_detection", f"implies(self.evaluation_task is EvaluationTask.DETECTION, {given('min_point_numbers')})")] +
                                       [(f"{k}_holds_one_number_per_label", per_label(k)) for k in lists]),
             extra_contracts={idx.lookup("common.label:set_target_lists").fq: stl, idx.lookup(f"{TH}:set_thresholds").fq: st_cut})
    # an unknown key must not disappear silently: it has to reach the metric parameters, where _check_parameters rejects it
    req_unknown = [("extra_key_is_not_a_known_parameter", " and ".join(f"evaluation_config_dict.keys()[{len(read_keys)}] != '{k}'" for k in read_keys))]
    P.verify(f"{CFG}:PerceptionEvaluationConfig._extract_params", name="PerceptionEvaluationConfig._extract_params[unknown key]",
             contract=Contract(f"{CFG}:PerceptionEvaluationConfig._extract_params", cut=False,
                               params={"self": mk_self, "evaluation_config_dict": lambda it: cfg_dict(it, True)},
                               requires=req_unknown,
                               modifies=[("attr", "self", "target_labels")],
                               raises={"RuntimeError": "True", "ThresholdError": "True", "TypeError": "True"},
                               ensures=E("unknown_parameter_reaches_the_metric_parameters",
                                         f"any([k == evaluation_config_dict.keys()[{len(read_keys)}] for k in result[1].keys()])")),
             extra_contracts={idx.lookup("common.label:set_target_lists").fq: stl, idx.lookup(f"{TH}:set_thresholds").fq: st_cut})
    # ---------------------------------------------------------------- frame-level configurations: every per-label list has one number per target label
    FC = "evaluation.result.perception_frame_config"
    ct_cut = Contract(f"{TH}:check_thresholds", params={}, returns=D, requires=E("a_list", "is_list(thresholds)"), raises={"ThresholdError": "True"},
                      ensures=E("one_number_per_label", f"is_list(result) and dlen(result) == num_elements and {all_real('result')}", "nothing_padded_or_truncated", "result is thresholds"))
    mk_ev = lambda it: (lambda o: (it.ctx.cell(o).update(evaluation_task=TEnum(ETC).fresh(it.ctx, "task"), label_converter=it.ctx.new_cell("obj", {}, None)), o)[1])(it.ctx.new_cell("obj", {}, None))
    listy = lambda it, nm: TDyn().fresh(it.ctx, nm)
    per_attr = lambda a: f"implies(self.{a} is not None, is_list(self.{a}) and dlen(self.{a}) == len(self.target_labels) and {all_real('self.' + a)})"
    is_l = lambda a: f"implies({a} is not None, is_list({a}))"
    CO = idx.lookup(f"{FC}:CriticalObjectFilterConfig")
    co_lists = ["max_x_position_list", "max_y_position_list", "max_distance_list", "min_distance_list", "min_point_numbers", "confidence_threshold_list"]
    P.verify(f"{FC}:CriticalObjectFilterConfig.__init__", name="CriticalObjectFilterConfig.__init__",
             contract=Contract(f"{FC}:CriticalObjectFilterConfig.__init__", cut=False,
                               params=dict({"self": lambda it: it.ctx.new_cell("obj", {}, CO), "evaluator_config": mk_ev, "target_labels": lambda it: it.ctx.new_cell("list", []),
                                            "ignore_attributes": NONE, "target_uuids": NONE}, **{a: (lambda it, a=a: listy(it, a)) for a in co_lists}),
                               requires=[(f"{a}_is_a_list_when_given", is_l(a)) for a in co_lists],
                               raises={"RuntimeError": "not (max_x_position_list and max_y_position_list) and not (max_distance_list and min_distance_list) and not "
                                                       "(evaluator_config.evaluation_task in (EvaluationTask.DETECTION2D, EvaluationTask.TRACKING2D, EvaluationTask.CLASSIFICATION2D, EvaluationTask.FP_VALIDATION2D))",
                                       "ThresholdError": "True"},
                               ensures=[(f"{a}_holds_one_number_per_label", per_attr(a)) for a in co_lists] +
                                       [("one_kind_of_range_bound_is_exposed", "(self.max_x_position_list is None and self.max_y_position_list is None) or "
                                                                               "(self.max_distance_list is None and self.min_distance_list is None)"),
                                        ("filtering_params_expose_the_validated_lists", " and ".join(f"self.filtering_params['{a}'] is self.{a}" for a in co_lists) +
                                         " and self.filtering_params['target_labels'] is self.target_labels")]),
             extra_contracts={idx.lookup("common.label:set_target_lists").fq: stl, idx.lookup(f"{TH}:check_thresholds").fq: ct_cut})
    PFCC = idx.lookup(f"{FC}:PerceptionPassFailConfig")
    pf_lists = ["matching_threshold_list", "confidence_threshold_list"]
    P.verify(f"{FC}:PerceptionPassFailConfig.__init__", name="PerceptionPassFailConfig.__init__",
             contract=Contract(f"{FC}:PerceptionPassFailConfig.__init__", cut=False,
                               params=dict({"self": lambda it: it.ctx.new_cell("obj", {}, PFCC), "evaluator_config": mk_ev, "target_labels": lambda it: it.ctx.new_cell("list", [])},
                                           **{a: (lambda it, a=a: listy(it, a)) for a in pf_lists}),
                               requires=[(f"{a}_is_a_list_when_given", is_l(a)) for a in pf_lists],
                               raises={"ThresholdError": "True"},
                               ensures=[(f"{a}_holds_one_number_per_label", per_attr(a)) for a in pf_lists] +
                                       [("task_of_the_evaluator", "self.evaluation_task is evaluator_config.evaluation_task")]),
             extra_contracts={idx.lookup("common.label:set_target_lists").fq: stl, idx.lookup(f"{TH}:check_thresholds").fq: ct_cut})
    P.assume("threshold values are modelled two levels deep with a type tag (None, bool, int, float, str, list, other); the code never inspects deeper levels")
    P.uncover("__get_nested_thresholds (broadcast of scalars and singleton rows, idempotence, 'output entries are input entries'): bounded native harness only")
