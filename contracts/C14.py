"""C14 — label names convert totally, case-insensitively and consistently with merging.

Postconditions come from the statement; the *documented* table below is transcribed from
docs/en/perception/label.md (independent of the code).  Rows of the documentation that name enum
members which do not exist, or names the code's table does not register in the chosen configuration,
are documentation drift: they are listed in the evidence and decide nothing.
`name` is a symbolic string; the tables are program constants, so loops over them are unrolled exactly.
"""
from pyvc.api import *
from pyvc.ops import to_int_z

LABEL = "common.label"

DOC_AUTOWARE = {
    "CAR": ["car", "vehicle.car", "vehicle.construction", "vehicle.emergency (ambulance & police)", "vehicle.police", "vehicle.fire", "vehicle.ambulance"],
    "TRUCK": ["truck", "vehicle.truck", "trailer", "vehicle.trailer"],
    "BUS": ["bus", "vehicle.bus", "vehicle.bus (bendy & rigid)"],
    "BICYCLE": ["bicycle", "vehicle.bicycle"],
    "MOTORBIKE": ["motorbike", "motorcycle", "vehicle.motorcycle"],
    "PEDESTRIAN": ["pedestrian", "stroller", "pedestrian.adult", "pedestrian.child", "pedestrian.construction_worker",
                   "pedestrian.personal_mobility", "pedestrian.police_officer", "pedestrian.stroller", "pedestrian.wheelchair"],
    "UNKNOWN": ["unknown", "animal", "movable_object.barrier", "movable_object.debris", "movable_object.pushable_pullable",
                "movable_object.trafficcone", "movable_object.traffic_cone", "static_object.bicycle rack", "static_object.bollard",
                "static_object.forklift"],
}
MERGE = {"TRUCK": "CAR", "BUS": "CAR", "MOTORBIKE": "BICYCLE"}
DOC_TL_DETECTION = {
    "TRAFFIC_LIGHT": ["traffic_light", "green", "red", "yellow", "red_straight", "red_left", "red_left_straight", "red_right",
                      "red_right_straight", "red_right_diagonal", "yellow_right"],
    "UNKNOWN": ["unknown"],
}
DOC_TL_CLASSIFICATION = {
    "GREEN": ["green"], "RED": ["red"], "YELLOW": ["yellow"], "RED_STRAIGHT": ["red_straight"], "RED_LEFT": ["red_left"],
    "RED_LEFT_STRAIGHT": ["red_left_straight"], "RED_RIGHT": ["red_right"], "RED_RIGHT_STRAIGHT": ["red_right_straight"],
    "RED_RIGHT_DIAGONAL": ["red_right_diagonal"], "YELLOW_RIGHT": ["yellow_right"], "UNKNOWN": ["unknown"],
}


def doc_rows(P, cls_spec, table, merge=False):
    ci = P.index.lookup(cls_spec)
    names = [n for n, _ in ci.enum_members(P.index)]
    rows, drift = [], []
    for member, strings in table.items():
        target = MERGE.get(member, member) if merge else member
        if target not in names:
            drift.append(f"documented member {ci.name}.{target} does not exist")
            continue
        for s in strings:
            rows.append(VTuple((VStr(s), VEnum(ci, names.index(target)))))
    return rows, drift


def first_match(interp, e, fr):
    """first_match(infos, key, default): label of the first LabelInfo whose name equals key (spec function)"""
    infos = interp.iter_concrete(interp.ev(e.args[0], fr), e)
    key = interp.ev(e.args[1], fr)
    res = interp.ev(e.args[2], fr)
    for li in reversed(infos):
        cell = interp.ctx.cell(li)
        res = interp.merge(interp.py_eq(cell["name"], key, e), cell["label"], res)
    return res


CONFIGS = [
    # (tag, evaluation_task member, merge, prefix, label class, documented table)
    ("autoware", "DETECTION", False, "autoware", "AutowareLabel", DOC_AUTOWARE),
    ("autoware+merge", "DETECTION", True, "autoware", "AutowareLabel", DOC_AUTOWARE),
    ("traffic_light/detection2d", "DETECTION2D", False, "traffic_light", "TrafficLightLabel", DOC_TL_DETECTION),
    ("traffic_light/tracking2d", "TRACKING2D", False, "traffic_light", "TrafficLightLabel", DOC_TL_DETECTION),
    ("traffic_light/classification2d", "CLASSIFICATION2D", False, "traffic_light", "TrafficLightLabel", DOC_TL_CLASSIFICATION),
]


def build(P):
    idx = P.index
    P.min_obligations = 100
    P.install(lambda it: it.spec_funcs.update(first_match=first_match))
    LC = idx.lookup(f"{LABEL}:LabelConverter")
    TASK = idx.lookup("common.evaluation_task:EvaluationTask")

    def converter(it, task, merge, prefix, as_str=False):
        t = member(idx, "common.evaluation_task:EvaluationTask", task)
        if as_str:
            t = it.enum_value(TASK, t.idx)
        return it.instantiate(LC, [t, VBool(merge), VStr(prefix)], {}, None)

    MERGE_OF = "(AutowareLabel.CAR if (L is AutowareLabel.TRUCK or L is AutowareLabel.BUS) else AutowareLabel.BICYCLE if L is AutowareLabel.MOTORBIKE else L)"

    for tag, task, merge, prefix, lcls, table in CONFIGS:
        rows, drift = doc_rows(P, f"{LABEL}:{lcls}", table, merge)
        for d in drift:
            P.notes.append(f"documentation drift [{tag}]: {d}")
        for as_str in (False, True):
            if as_str and tag not in ("autoware", "traffic_light/classification2d"):
                continue
            sfx = f"[{tag}{',task as str' if as_str else ''}]"
            # ---- LabelConverter.__init__: the table it builds is a function (no name registered for two labels)
            P.verify(f"{LABEL}:LabelConverter.__init__", name=f"LabelConverter.__init__{sfx}",
                     contract=Contract(f"{LABEL}:LabelConverter.__init__", cut=False,
                                       params={"self": lambda it: it.ctx.new_cell("obj", {}, LC),
                                               "evaluation_task": (lambda it, task=task, as_str=as_str: it.enum_value(TASK, member(idx, "common.evaluation_task:EvaluationTask", task).idx) if as_str else member(idx, "common.evaluation_task:EvaluationTask", task)),
                                               "merge_similar_labels": VBool(merge), "label_prefix": VStr(prefix)},
                                       ensures=E("label_family_selected", f"self.label_type is {lcls}",
                                                 "task_is_a_member", "isinstance(self.evaluation_task, EvaluationTask)",
                                                 "table_is_a_function", "all([implies(a.name == b.name, a.label is b.label) for a in self.label_infos for b in self.label_infos])",
                                                 "registered_names_are_lower_case", "all([a.name == a.name.lower() for a in self.label_infos])",
                                                 "labels_belong_to_the_family", f"all([isinstance(a.label, {lcls}) for a in self.label_infos])") +
                                               (E("same_table_as_for_the_task_member", "len(self.label_infos) == len(ref.label_infos) and "
                                                  "all([any([b.name == a.name and b.label is a.label for b in ref.label_infos]) for a in self.label_infos])") if as_str else []),
                                       ghosts=({"ref": lambda it, fr, task=task, merge=merge, prefix=prefix: converter(it, task, merge, prefix)} if as_str else None)))
            if as_str:
                continue
            conv = lambda it, task=task, merge=merge, prefix=prefix: converter(it, task, merge, prefix)
            ghosts = {"DOC": lambda it, fr, rows=rows: it.ctx.new_cell("list", list(rows))}
            ens = E(
                "registered_name_maps_to_its_label", "result.label is first_match(self.label_infos, lower(name), self.label_type.UNKNOWN)",
                "documented_rows", "all([implies(any([li.name == d for li in self.label_infos]) and lower(name) == d, result.label is L) for (d, L) in DOC])",
                "canonical_name_of_every_producible_label", "all([implies(lower(name) == li.label.value, result.label is li.label) for li in self.label_infos])",
                "unknown_is_its_own_image", "implies(lower(name) == self.label_type.UNKNOWN.value, result.label is self.label_type.UNKNOWN)",
                "unregistered_maps_to_unknown", "implies(not any([lower(name) == li.name for li in self.label_infos]), result.label is self.label_type.UNKNOWN)",
                "original_name_and_attributes_kept", "result.name == name and result.attributes is attributes",
            )
            attrs = lambda it: it.ctx.new_cell("list", [])
            P.verify(f"{LABEL}:LabelConverter.convert_label", name=f"LabelConverter.convert_label{sfx}",
                     contract=Contract(f"{LABEL}:LabelConverter.convert_label", cut=False,
                                       params={"self": conv, "name": TStr(), "attributes": attrs}, ghosts=ghosts, ensures=ens))
            P.verify(f"{LABEL}:LabelConverter.convert_name", name=f"LabelConverter.convert_name{sfx}",
                     contract=Contract(f"{LABEL}:LabelConverter.convert_name", cut=False,
                                       params={"self": conv, "name": TStr()}, ghosts=ghosts,
                                       ensures=E("agrees_with_convert_label", "result is first_match(self.label_infos, lower(name), self.label_type.UNKNOWN)",
                                                 "documented_rows", "all([implies(any([li.name == d for li in self.label_infos]) and lower(name) == d, result is L) for (d, L) in DOC])")))
        if merge:
            # merged conversion == merge(un-merged conversion): the un-merged table is built by the real constructor
            ghosts = {"plain": lambda it, fr, task=task, prefix=prefix: converter(it, task, False, prefix)}
            P.verify(f"{LABEL}:LabelConverter.convert_label", name=f"LabelConverter.convert_label[merge == merge_of(no-merge)]",
                     contract=Contract(f"{LABEL}:LabelConverter.convert_label", cut=False,
                                       params={"self": conv, "name": TStr(), "attributes": attrs}, ghosts=ghosts,
                                       ensures=E("merged_image_of_unmerged_result",
                                                 "result.label is [" + MERGE_OF + " for L in [first_match(plain.label_infos, lower(name), AutowareLabel.UNKNOWN)]][0]")))

    # ---- target lists use the same mapping (same converter instance, same function of lower(name))
    for tag, task, merge, prefix, lcls, table in CONFIGS[:2] + CONFIGS[4:]:
        conv = lambda it, task=task, merge=merge, prefix=prefix: converter(it, task, merge, prefix)
        cn = Contract(f"{LABEL}:LabelConverter.convert_name", params={}, returns=TEnum(idx.lookup(f"{LABEL}:{lcls}")),
                      ensures=E("functional", "result is first_match(self.label_infos, lower(name), self.label_type.UNKNOWN)"))
        P.verify(f"{LABEL}:set_target_lists", name=f"set_target_lists[{tag}]",
                 contract=Contract(f"{LABEL}:set_target_lists", cut=False,
                                   params={"target_labels": TSList(TStr()), "label_converter": conv},
                                   locals={"#comp2": TEnum(idx.lookup(f"{LABEL}:{lcls}"))},
                                   requires=E("non_empty", "len(target_labels) > 0"),
                                   ensures=E("one_label_per_name", "len(result) == len(target_labels)",
                                             "same_mapping_as_objects", "forall(k, 0, len(target_labels), result[k] is first_match(label_converter.label_infos, lower(target_labels[k]), label_converter.label_type.UNKNOWN))")),
                 extra_contracts={idx.lookup(f"{LABEL}:LabelConverter.convert_name").fq: cn})
    P.trust("str.lower as an uninterpreted idempotent function with ground instances at every literal compared with")
    P.assume("the documented table is the one in docs/en/perception/label.md at the pinned commit, transcribed by hand into contracts/C14.py")
    P.uncover("rows of docs/en/perception/label.md that name members which do not exist (RED_LEFT_STRAIGHT, RED_RIGHT_STRAIGHT) or spell a "
              "name differently from the code's table (static_object.forklift vs forklift) decide nothing: documentation drift")
