#!/bin/sh
# Full self-test of the machinery: every deliberate-breakage list and every stored seeded change, each on a scratch copy outside /repo and /verif.
# usage: tools/regress.sh > /tmp/regress.out
cd "$(dirname "$0")/.." || exit 3
for f in mutants/*.json; do
  p=$(basename "$f" .json)
  echo "##### $p"
  timeout 7200 python3 tools/mutants.py "$p" 2>&1 | awk -F'|' '{print $1}'
done
echo "##### seeded changes (scratch copies)"
for d in seeded/*/; do
  s=$(basename "$d")
  p=$(jq -r .breaks_property "$d/meta.json")
  t=$(mktemp -d /tmp/pyvc-seed-XXXXXX)
  cp -r /repo/perception_eval "$t/"
  rm -rf "$t/perception_eval/test"
  if ! (cd "$t" && patch -p1 -s < "/verif/$d/patch.diff"); then echo "$s: PATCH DOES NOT APPLY"; rm -rf "$t"; continue; fi
  PYVC_REPO="$t" PYVC_EVIDENCE_DIR="$t/ev" timeout 1800 ./check "$p" > "/tmp/seeded-$s.log" 2>&1
  rc=$?
  rm -rf "$t"
  echo "$s ($p): rc=$rc, $(grep -c '^VIOLATION' "/tmp/seeded-$s.log") violation lines; $(grep '^VIOLATION\|^ENGINE\|^UNDEC' "/tmp/seeded-$s.log" | head -1 | cut -c1-150)"
done
