"""Execution context: path condition, decisions (DFS by re-execution), heaps, obligations."""
from __future__ import annotations

import os

import z3

from .values import *


class PathEnd(Exception):
    """this path ends here (infeasible, or cut after a loop-iteration check)"""


class NeedFork(Exception):
    """raised in no-branch (merge) mode when evaluation would have to branch or mutate"""


class Obligation:
    __slots__ = ("name", "kind", "func", "line", "hyps", "goal", "decisions", "note")

    def __init__(self, name, kind, func, line, hyps, goal, decisions, note=""):
        self.name, self.kind, self.func, self.line = name, kind, func, line
        self.hyps, self.goal, self.decisions, self.note = hyps, goal, decisions, note

    def key(self):
        return (self.name, self.func, self.line)


def _is_value(t):
    return z3.is_int_value(t) or z3.is_rational_value(t) or z3.is_string_value(t) or z3.is_true(t) or z3.is_false(t)


_HQ = {}


def has_quant(f):
    k = f.get_id()
    hit = _HQ.get(k)
    if hit is not None and hit[0].eq(f):
        return hit[1]
    r = _has_quant(f)
    if len(_HQ) > 200000:
        _HQ.clear()
    _HQ[k] = (f, r)
    return r


def _has_quant(f):
    seen, stack = set(), [f]
    while stack:
        x = stack.pop()
        i = x.get_id()
        if i in seen:
            continue
        seen.add(i)
        if z3.is_quantifier(x):
            return True
        stack.extend(x.children())
    return False


class Ctx:
    """one symbolic run; re-created state on every re-execution, decisions persist across them"""

    def __init__(self, index):
        self.index = index
        self.trace = []            # [[current choice position, [feasible options]]]
        self.obligations = []      # all paths
        self._seen_obl = set()
        self.covers = {}           # cover point -> reached on some feasible path
        self.stats = {"paths": 0, "feas_checks": 0, "feas_time": 0.0}
        self.feas_timeout_ms = 400
        self.enum_cache = {}
        self.lower_fn = z3.Function("str_lower", S, S)
        self.upper_fn = z3.Function("str_upper", S, S)
        self.reset()

    # ------------------------------------------------------------------ per-run state
    def reset(self):
        self.pos = 0
        self.pc = []               # z3 facts
        self.guards = []           # guards of merged evaluation
        self.params = []           # bound index variables of parametric evaluation
        self.param_marks = []
        self.counter = 0
        self.cheap = {}            # concrete heap: addr -> cell
        self.next_addr = 1
        self.sheap = {}            # SMT heap maps (key -> z3 array)
        self.alloc = z3.Const("alloc0", z3.ArraySort(I, B))   # references allocated so far (arbitrary at entry: modular)
        self.fresh_refs = []       # refs of SMT objects/lists allocated on this path
        self.preexisting = set()   # concrete-heap addresses of objects built by module-level assignments (exist before any call)
        self.no_branch = 0
        self.merge_fresh = set()
        self.keep_ids = set()      # ids of heap-frame facts (glue between heap versions): survive loop-cut resets
        self.kept = []
        self.entry_addr = None     # concrete-heap addresses below this existed at function entry (frame conditions)
        self.base_len = None       # length of pc after requires/definitions: facts before it survive loop cuts
        self.literals = set()
        self.subst = []
        self.written = []          # heap writes to SMT lists / fields on this path (frame conditions)
        self.func_stack = []
        self.decisions_desc = []

    # ------------------------------------------------------------------ symbols / facts
    def fresh(self, name, sort):
        self.counter += 1
        if self.params:
            # inside a parametric evaluation (element of a comprehension at a symbolic index): a Skolem function
            f = z3.Function(f"{name}!{self.counter}", *[p.sort() for p in self.params], sort)
            return f(*self.params)
        return z3.Const(f"{name}!{self.counter}", sort)

    def bound(self, name, sort=None):
        """a constant usable as bound variable of a quantifier (never a Skolem application)"""
        self.counter += 1
        return z3.Const(f"{name}!{self.counter}", sort or I)

    def push_param(self, k, guard):
        self.params.append(k)
        self.param_marks.append(len(self.guards))
        self.guards.append(guard)

    def pop_param(self):
        self.params.pop()
        m = self.param_marks.pop()
        del self.guards[m:]

    def _close(self, f):
        """close a fact / goal produced under parameters: forall params. inner guards => f"""
        if not self.params:
            return f, list(self.guards)
        m = self.param_marks[0]
        inner = self.guards[m:]
        body = z3.Implies(z3.And(*inner), f) if inner else f
        return z3.ForAll(list(self.params), body), list(self.guards[:m])

    def default_of(self, sort):
        if sort == I:
            return z3.IntVal(0)
        if sort == R:
            return z3.RealVal(0)
        if sort == B:
            return z3.BoolVal(False)
        if sort == S:
            return z3.StringVal("")
        raise EngineError(f"no default for {sort}")

    def assume(self, f):
        if isinstance(f, bool):
            f = z3.BoolVal(f)
        if z3.is_true(f):
            return
        if z3.is_and(f) and not self.params:
            # conjuncts separately: the quantifier-free ones stay visible to the cheap feasibility check
            for c in f.children():
                self.assume(c)
            return
        if not self.guards and not self.params:
            self._note_equality(f)
        f, outer = self._close(f)
        if outer:
            f = z3.Implies(z3.And(*outer), f)
        self.pc.append(f)

    def add_definition(self, f):
        """definitional axiom of a ghost function: part of the base context, survives loop-cut resets"""
        if self.base_len is None:
            self.pc.append(f)
        else:
            self.pc.insert(self.base_len, f)
            self.base_len += 1

    def _note_equality(self, f):
        """remember `term == literal` facts: branch conditions are rewritten with them before asking the solver"""
        if z3.is_and(f):
            for c in f.children():
                self._note_equality(c)
            return
        if z3.is_eq(f):
            a, b = f.children()
            for x, y in ((a, b), (b, a)):
                if _is_value(y) and not _is_value(x):
                    self.subst.append((x, y))
                    return

    def hyps(self):
        if self.params:
            return list(self.pc) + list(self.guards[:self.param_marks[0]])
        return list(self.pc) + list(self.guards)

    def oblige(self, name, goal, node=None, kind="safety", note=""):
        if isinstance(goal, bool):
            goal = z3.BoolVal(goal)
        if self.params:
            goal, _ = self._close(goal)
        if z3.is_true(goal):
            goal_s = goal
        else:
            goal_s = z3.simplify(goal)
        fn = self.func_stack[-1] if self.func_stack else "?"
        line = getattr(node, "lineno", 0) if node is not None else 0
        if z3.is_true(goal_s):
            # trivially true after simplification: still counted, discharged syntactically
            pass
        o = Obligation(name, kind, fn, line, self.hyps(), goal, list(self.decisions_desc), note)
        # the same obligation is met again on every re-execution of a shared prefix: dedupe
        k = (name, fn, line, hash(tuple(h.get_id() for h in o.hyps)), goal.get_id())
        if k in self._seen_obl:
            return
        self._seen_obl.add(k)
        self.obligations.append(o)

    def note_literal(self, c):
        """ground instances of the case-mapping axioms at every string literal the path compares with"""
        if c in self.literals:
            return
        self.literals.add(c)
        lit = z3.StringVal(c)
        self.pc.append(self.lower_fn(lit) == z3.StringVal(c.lower()))
        self.pc.append(self.upper_fn(lit) == z3.StringVal(c.upper()))
        if c.lower() != c:
            self.note_literal(c.lower())
        if c.upper() != c:
            self.note_literal(c.upper())

    # ------------------------------------------------------------------ feasibility / decisions
    def feasible(self, extra):
        import time
        t = time.time()
        s = z3.Solver()
        s.set("timeout", self.feas_timeout_ms)
        for f in self.pc + self.guards + list(extra):
            if not has_quant(f):
                s.add(f)
        r = s.check()
        self.stats["feas_checks"] += 1
        self.stats["feas_time"] += time.time() - t
        return r != z3.unsat

    def decide(self, options, desc):
        """options: list of (label, [facts]); returns index of the chosen option.
        Facts of the chosen option are added to the path condition."""
        if self.no_branch:
            raise NeedFork(desc)
        if self.pos < len(self.trace):
            entry = self.trace[self.pos]
        else:
            feas = [k for k, (_, facts) in enumerate(options) if self.feasible(facts)]
            if not feas:
                raise PathEnd()
            entry = [0, feas]
            self.trace.append(entry)
        self.pos += 1
        k = entry[1][entry[0]]
        label, facts = options[k]
        for f in facts:
            self.assume(f)
        self.decisions_desc.append(f"{desc}:{label}")
        return k

    def branch(self, cond, desc):
        """cond: z3 Bool; returns python bool, path condition extended"""
        cond_s = z3.simplify(cond)
        if self.subst and not z3.is_true(cond_s) and not z3.is_false(cond_s):
            cond_s = z3.simplify(z3.substitute(cond_s, *self.subst))
        if z3.is_true(cond_s):
            return True
        if z3.is_false(cond_s):
            return False
        return self.decide([("T", [cond]), ("F", [z3.Not(cond)])], desc) == 0

    def backtrack(self):
        """advance the decision trace to the next unexplored path; False when exhausted"""
        while self.trace and self.trace[-1][0] == len(self.trace[-1][1]) - 1:
            self.trace.pop()
        if not self.trace:
            return False
        self.trace[-1][0] += 1
        return True

    # ------------------------------------------------------------------ concrete heap
    def new_cell(self, rkind, payload, cls=None):
        a = self.next_addr
        self.next_addr += 1
        self.cheap[a] = payload
        return VRef(rkind, a, cls)

    def cell(self, ref):
        return self.cheap[ref.addr]

    def cell_write(self, addr, what, node):
        """a store into a concrete-heap object/list/dict that existed when the verified function was entered"""
        if (self.entry_addr is not None and addr < self.entry_addr) or addr in self.preexisting:
            self.written.append(("cell", addr, what, node))
        # every store into a concrete container is also remembered for the loop cuts: a container created BEFORE a cut loop and mutated inside its body
        # keeps, in this engine, the state it had before the loop on every iteration - that is only sound when the cut forgets it (see Interp.loop_frame_check)
        if not hasattr(self, "all_cell_writes"):
            self.all_cell_writes = []
        self.all_cell_writes.append((addr, what, node))

    def mutating(self, ref=None):
        if self.no_branch and not (ref is not None and ref.get_id() in self.merge_fresh):
            raise NeedFork("mutation")

    # ------------------------------------------------------------------ SMT heap
    def smap(self, key, dom_sorts, rng):
        if key not in self.sheap:
            sort = rng
            for d in reversed(dom_sorts):
                sort = z3.ArraySort(d, sort)
            self.sheap[key] = z3.Const("H_" + "_".join(str(k) for k in key), sort)
        return self.sheap[key]

    def len_map(self):
        return self.smap(("len",), [I], I)

    def slen(self, ref):
        return z3.Select(self.len_map(), ref)

    def item_map(self, path, sort):
        return self.smap(("item", str(sort), path), [I, I], sort)

    def sitem(self, lst, idx):
        return lst.elem.unpack(self.item_terms(lst, idx))

    def set_list(self, lst, new_len, item_fn_or_store):
        """functional update of one SMT list. item_fn_or_store: ('store', idx, val) or
        ('fn', lambda k: [component terms])"""
        self.mutating(lst.z)
        comps = lst.elem.comps()
        if item_fn_or_store[0] == "store":
            _, idx, val = item_fn_or_store
            zs = lst.elem.pack(val, self)
            for (p, s), zv in zip(comps, zs):
                m = self.item_map(p, s)
                if getattr(self, "append_carry", False) and not z3.is_int_value(z3.simplify(idx)):
                    # the updated row as a named array with an explicit carry-over fact triggered by reads of the OLD row: a witness
                    # known for the old list (e.g. the Skolem constant of an existential invariant) becomes a term of the new list
                    old_row = z3.Select(m, lst.z)
                    row = self.fresh("row", old_row.sort())
                    self.counter += 1
                    k = z3.Int(f"k!cw{self.counter}")
                    self.pc.append(row == z3.Store(old_row, idx, zv))
                    carry = z3.ForAll([k], z3.Select(row, k) == z3.If(k == idx, zv, z3.Select(old_row, k)), patterns=[z3.Select(old_row, k), z3.Select(row, k)])
                    self.pc.append(carry)
                    self.keep_ids.add(carry.get_id())
                    self.sheap[("item", str(s), p)] = z3.Store(m, lst.z, row)
                else:
                    self.sheap[("item", str(s), p)] = z3.Store(m, lst.z, z3.Store(z3.Select(m, lst.z), idx, zv))
        else:
            fn = item_fn_or_store[1]
            self.counter += 1
            k = z3.Int(f"k!lr{self.counter}")
            terms = fn(k)
            if not os.environ.get("PYVC_LIST_LAMBDA"):
                new_inners = []
                for (p, s_), t in zip(comps, terms):
                    inner = self.fresh("items", z3.ArraySort(I, s_))
                    d = z3.ForAll([k], z3.Select(inner, k) == t)
                    self.pc.append(d)
                    if not hasattr(self, "list_defs"):
                        self.list_defs = {}
                    self.list_defs.setdefault(lst.z.get_id(), []).append(d)
                    new_inners.append(inner)
            else:
                new_inners = [z3.Lambda([k], t) for t in terms]
            for (p, s), inner in zip(comps, new_inners):
                m = self.item_map(p, s)
                self.sheap[("item", str(s), p)] = z3.Store(m, lst.z, inner)
        self.sheap[("len",)] = z3.Store(self.len_map(), lst.z, new_len)

    def item_terms(self, lst, idx):
        return [z3.simplify(z3.Select(z3.Select(self.item_map(p, s), lst.z), idx)) for p, s in lst.elem.comps()]

    def field_map(self, cname, fname, path, sort):
        return self.smap(("f", cname, fname, path), [I], sort)

    def new_sref(self, name):
        if self.params:
            raise EngineError("allocation inside a parametric (per-element) evaluation")
        r = self.fresh(name, I)
        # facts about a fresh symbol: assumed unconditionally, also when the allocation sits under a merge guard
        # (otherwise the heap stores at r could clobber other objects where the guard is false)
        self.pc.append(r > 0)
        self.pc.append(z3.Not(z3.Select(self.alloc, r)))
        self.pc.append(z3.Not(self.is_old(r)))
        self.alloc = z3.Store(self.alloc, r, z3.BoolVal(True))
        for other in self.fresh_refs:
            self.pc.append(r != other)
        self.fresh_refs.append(r)
        if self.no_branch:
            self.merge_fresh.add(r.get_id())
        return r

    _is_old = z3.Function("is_old", I, B)

    def is_old(self, r):
        return Ctx._is_old(r)

    # ------------------------------------------------------------------ enums
    def enum_members(self, ecls):
        """[(name, value-expr-ast)] in class-body order"""
        k = id(ecls)
        if k not in self.enum_cache:
            self.enum_cache[k] = ecls.enum_members(self.index)
        return self.enum_cache[k]
