"""C11 — classification pairs objects by identity and scores them by label agreement.

Deductive part: ClassificationAccuracy (counting loop and the four formulas, their range, the all-correct case).
Bounded part (stand-in, never counted as proved): the identity-based pairing functions _get_object_results_with_id /
_get_object_results_for_tlr use list.remove on working copies inside nested loops; they are checked exhaustively on
the real code for all label assignments of up to 3 estimates x 3 ground truths over 2 camera frames (replay/C11.py).
"""
from pyvc.api import *
from pyvc.lemmas import count_fn, add_count_lemmas
import contracts.C03 as C03

ACC = "evaluation.metrics.classification.accuracy"
OR = "evaluation.result.object_result"


def build(P):
    idx = P.index
    C03.models(P)
    P.min_obligations = 30
    add_count_lemmas(P)
    CA = idx.lookup(f"{ACC}:ClassificationAccuracy")
    RT = TSList(TSObj("DynamicObjectWithPerceptionResult"))

    def mk(it, **f):
        o = it.ctx.new_cell("obj", {}, CA)
        it.ctx.cell(o).update(f)
        return o
    # ---------------------------------------------------------------- counting
    ok = lambda k: f"uf_bool('label_ok', object_results[{k}])"
    g, d = count_fn("correct_before")
    named = Contract(f"{OR}:DynamicObjectWithPerceptionResult.is_label_correct", params={}, returns=TBool(), ensures=E("named", "result == uf_bool('label_ok', self)"))
    P.verify(f"{ACC}:ClassificationAccuracy.calculate_tp_fp", name="ClassificationAccuracy.calculate_tp_fp",
             contract=Contract(f"{ACC}:ClassificationAccuracy.calculate_tp_fp", cut=False,
                               params={"self": lambda it: mk(it), "object_results": RT},
                               locals={"num_tp": TInt(), "num_fp": TInt()},
                               ghosts={"correct_before": g}, defs=d(ok, "len(object_results)"),
                               loops={1: LoopSpec(index="i", invariants=E("tp_counts_label_correct_pairs", "num_tp == correct_before(i)", "every_pair_counted_once", "num_tp + num_fp == i"))},
                               ensures=E("tp_is_number_of_label_correct_pairs", "result[0] == correct_before(len(object_results))",
                                         "tp_plus_fp_is_number_of_pairs", "result[0] + result[1] == len(object_results)",
                                         "tp_within_bounds", "0 <= result[0] and result[0] <= len(object_results)")),
             extra_contracts={idx.lookup(f"{OR}:DynamicObjectWithPerceptionResult.is_label_correct").fq: named})
    # ---------------------------------------------------------------- formulas
    st = lambda it: mk(it, objects_results_num=TInt().fresh(it.ctx, "n"), num_ground_truth=TInt().fresh(it.ctx, "G"))
    dom = E("counts", "self.objects_results_num >= 0 and self.num_ground_truth >= 0 and 0 <= num_tp and num_tp <= self.objects_results_num and num_tp <= self.num_ground_truth")
    N, G = "self.objects_results_num", "self.num_ground_truth"
    P.verify(f"{ACC}:ClassificationAccuracy.calculate_accuracy", name="ClassificationAccuracy.calculate_accuracy",
             contract=Contract(f"{ACC}:ClassificationAccuracy.calculate_accuracy", cut=False, params={"self": st, "num_tp": TInt()}, requires=dom,
                               ensures=E("accuracy_is_tp_over_union", f"implies({N} + {G} - num_tp != 0, result == num_tp / ({N} + {G} - num_tp))",
                                         "in_unit_interval_when_defined", f"implies({N} + {G} - num_tp != 0, 0 <= result and result <= 1)",
                                         "one_when_everything_is_paired_correctly", f"implies(num_tp == {N} and num_tp == {G} and num_tp > 0, result == 1)")))
    P.verify(f"{ACC}:ClassificationAccuracy.calculate_precision_recall", name="ClassificationAccuracy.calculate_precision_recall",
             contract=Contract(f"{ACC}:ClassificationAccuracy.calculate_precision_recall", cut=False, params={"self": st, "num_tp": TInt()}, requires=dom,
                               ensures=E("precision_is_tp_over_pairs", f"implies({N} != 0, result[0] == num_tp / {N} and 0 <= result[0] and result[0] <= 1)",
                                         "recall_is_tp_over_ground_truths", f"implies({G} != 0, result[1] == num_tp / {G} and 0 <= result[1] and result[1] <= 1)",
                                         "both_one_when_everything_is_paired_correctly", f"implies(num_tp == {N} and num_tp == {G} and num_tp > 0, result[0] == 1 and result[1] == 1)")))
    P.verify(f"{ACC}:ClassificationAccuracy.calculate_f1score", name="ClassificationAccuracy.calculate_f1score",
             contract=Contract(f"{ACC}:ClassificationAccuracy.calculate_f1score", cut=False,
                               params={"self": st, "precision": TReal(), "recall": TReal()},
                               requires=E("defined_inputs_in_unit_interval", "0 <= precision and precision <= 1 and 0 <= recall and recall <= 1"),
                               ensures=E("harmonic_mean", "implies(precision + recall != 0, result == 2 * precision * recall / (precision + recall))",
                                         "in_unit_interval_when_defined", "implies(precision + recall != 0, 0 <= result and result <= 1)",
                                         "one_when_both_are_one", "implies(precision == 1 and recall == 1, result == 1)")))
    P.bounded.append(dict(what="_get_object_results_with_id / _get_object_results_for_tlr (identity-based pairing, maximal number of label-correct pairs)",
                          bound="exhaustive: up to 3 estimates x 3 ground truths, 3 labels, 2 camera frames, unique uuids per side and frame, both uuid-first settings",
                          where="replay/C11.py on the real functions"))
    P.uncover("pairing clauses of the statement are decided only up to the stated bound (list.remove on working copies inside nested loops is outside the engine's list model)")
    P.assume("label agreement of a pair is is_label_correct (policy table: C01's _get_score_table contract)")
