"""C14 native harness: the real LabelConverter on candidate names, against the property statement."""
import random
import sys

from common import main, model_strings

MERGE = {"truck": "car", "bus": "car", "motorbike": "bicycle"}


def configs():
    from perception_eval.common.evaluation_task import EvaluationTask
    return {
        "autoware": (EvaluationTask.DETECTION, False, "autoware"),
        "autoware+merge": (EvaluationTask.DETECTION, True, "autoware"),
        "traffic_light/detection2d": (EvaluationTask.DETECTION2D, False, "traffic_light"),
        "traffic_light/tracking2d": (EvaluationTask.TRACKING2D, False, "traffic_light"),
        "traffic_light/classification2d": (EvaluationTask.CLASSIFICATION2D, False, "traffic_light"),
        # the task may be given by its string value: the same tables
        "traffic_light/classification2d,task as str": ("classification2d", False, "traffic_light"),
        "autoware,task as str": ("detection", True, "autoware"),
    }


def check(cfg, name):
    from perception_eval.common.label import LabelConverter
    task, merge, prefix = configs()[cfg]
    conv = LabelConverter(task, merge, prefix)
    infos = conv.label_infos
    try:
        got = conv.convert_label(name).label
        got_name = conv.convert_name(name)
    except Exception as ex:
        return f"convert_label({name!r}) raised {type(ex).__name__}: {ex}"
    if isinstance(task, str):
        from perception_eval.common.evaluation_task import EvaluationTask
        ref = LabelConverter(EvaluationTask.from_value(task), merge, prefix).convert_label(name).label
        if got is not ref:
            return f"with the task given as the string {task!r}, {name!r} converts to {got!r}; with the task member to {ref!r}"
    if got is not got_name:
        return f"convert_label({name!r}).label is {got!r} but convert_name gives {got_name!r}"
    for variant in (name.upper(), name.lower(), name.title()):
        if variant.lower() == name.lower() and conv.convert_label(variant).label is not got:
            return f"case variant {variant!r} converts to {conv.convert_label(variant).label!r}, {name!r} to {got!r}"
    # every name registered for the family maps to the label it is registered with (first row wins), whatever characters it contains
    row = next((li for li in infos if li.name == name.lower()), None)
    if row is not None and got is not row.label:
        return f"registered name {name!r} converts to {got!r}, it is registered for {row.label!r}"
    image = {li.label for li in infos} | {conv.label_type.UNKNOWN}
    for L in image:
        if name.lower() == L.value and got is not L:
            return f"canonical name {name!r} of producible label {L!r} converts to {got!r}"
    if not any(name.lower() == li.name for li in infos) and got is not conv.label_type.UNKNOWN:
        return f"unregistered name {name!r} converts to {got!r}, not UNKNOWN"
    # the target-list entry point resolves names with the same mapping (alone, and next to other names)
    from perception_eval.common.label import set_target_lists
    for names in ([name], ["car" if prefix == "autoware" else "green", name, name.upper()]):
        try:
            tl = set_target_lists(names, LabelConverter(task, merge, prefix))
        except Exception as ex:
            return f"set_target_lists({names!r}) raised {type(ex).__name__}: {ex}"
        want_tl = [LabelConverter(task, merge, prefix).convert_label(n).label for n in names]
        if len(tl) != len(want_tl) or any(a is not b for a, b in zip(tl, want_tl)):
            return f"set_target_lists({names!r}) gives {tl!r}, objects with these names are labelled {want_tl!r}"
    if prefix == "traffic_light":
        # one label family, two task groups: a light state the classification tasks know by name is a traffic light (documented label) for every other task
        from perception_eval.common.evaluation_task import EvaluationTask
        cls_conv = LabelConverter(EvaluationTask.CLASSIFICATION2D, False, prefix)
        det_conv = LabelConverter(EvaluationTask.DETECTION2D, False, prefix)
        LT = cls_conv.label_type
        if any(li.name == name.lower() for li in cls_conv.label_infos):
            c_lab, d_lab = cls_conv.convert_label(name).label, det_conv.convert_label(name).label
            want_d = c_lab if c_lab in (LT.UNKNOWN, LT.FP) else LT.TRAFFIC_LIGHT
            if d_lab is not want_d:
                return f"{name!r} is the registered light state {c_lab!r} of the family, but for the detection tasks it converts to {d_lab!r} instead of {want_d!r}"
    if merge:
        plain = LabelConverter(task, False, prefix).convert_label(name).label
        want = conv.label_type(MERGE.get(plain.value, plain.value))
        if got is not want:
            return f"merged conversion of {name!r} is {got!r}, merge(unmerged {plain!r}) is {want!r}"
    return None


def search(item, seed):
    from perception_eval.common.label import LabelConverter
    rnd = random.Random(seed)
    task = item["task"]
    cfgs = [c for c in configs() if f"[{c}]" in task or f"[{c}," in task] or list(configs())
    if "merge_of" in task:
        cfgs = ["autoware+merge"]
    for cfg in cfgs:
        t, m, p = configs()[cfg]
        conv = LabelConverter(t, m, p)
        cands = [s for _, s in model_strings(item.get("model"))]
        cands += [li.name for li in conv.label_infos] + [L.value for L in conv.label_type] + [li.name.upper() for li in conv.label_infos]
        if p == "traffic_light":
            from perception_eval.common.evaluation_task import EvaluationTask
            cands += [li.name for li in LabelConverter(EvaluationTask.CLASSIFICATION2D, False, p).label_infos]
        cands += ["", "bogus"] + ["".join(rnd.choice("abc._ XY") for _ in range(rnd.randint(1, 9))) for _ in range(40)]
        for s in cands:
            why = check(cfg, s)
            if why:
                return dict(config=cfg, input=s, observed=why)
    return None


def replay(payload):
    why = check(payload["config"], payload["input"])
    return (why is None, why or "ok")


if __name__ == "__main__":
    sys.exit(main("C14", search, replay))
