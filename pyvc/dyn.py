"""Dynamically typed symbolic values ("threshold" inputs whose Python type is itself unknown).

A VDyn is a reference into an uninterpreted universe with a tag function; used for C15 where the
code branches on isinstance() of user-supplied configuration values.
tags: 0 none, 1 bool, 2 int, 3 float, 4 str, 5 list, 6 other
"""
from __future__ import annotations

import ast

import z3

from .values import *


TAG = z3.Function("dyn_tag", I, I)
DREAL = z3.Function("dyn_real", I, R)
DLEN = z3.Function("dyn_len", I, I)
DITEM = z3.Function("dyn_item", I, I, I)
TAGS = {"NoneType": 0, "bool": 1, "int": 2, "float": 3, "str": 4, "list": 5, "other": 6}


class VDyn(Val):
    kind = "dyn"

    def __init__(self, z):
        self.z = z

    def __repr__(self):
        return f"VDyn({self.z})"


class TDyn(T):
    def comps(self): return [("", I)]
    def pack(self, v, ctx):
        if v.kind != "dyn":
            raise EngineError(f"expected dyn, got {v}")
        return [v.z]
    def unpack(self, zs): return VDyn(zs[0])
    def facts(self, v, ctx):
        return [z3.And(0 <= TAG(v.z), TAG(v.z) <= 6), DLEN(v.z) >= 0]
    def __repr__(self): return "dyn"


class DynOps:
    def dyn_isinstance(self, v, name, node):
        t = TAG(v.z)
        if name == "int":
            return z3.Or(t == 1, t == 2)          # bool is a subclass of int
        if name in ("float",):
            return t == 3
        if name == "bool":
            return t == 1
        if name == "str":
            return t == 4
        if name in ("list",):
            return t == 5
        if name in ("tuple", "dict", "set", "ndarray"):
            return z3.BoolVal(False)               # 'other' stands for every type the code does not test for
        if name == "NoneType":
            return t == 0
        if name == "object":
            return z3.BoolVal(True)
        if name == "Sequence":
            return z3.Or(t == 5, t == 4)
        if name in ("Number", "Real"):
            return z3.Or(t == 1, t == 2, t == 3)
        raise EngineError(f"isinstance(dyn, {name})")

    def dyn_is_none(self, v):
        return TAG(v.z) == 0

    def dyn_truth(self, v):
        t = TAG(v.z)
        return z3.If(t == 0, False, z3.If(z3.Or(t == 1, t == 2, t == 3), DREAL(v.z) != 0, z3.If(z3.Or(t == 5, t == 4), DLEN(v.z) > 0, True)))

    def dyn_len(self, v, node):
        """len() of a dynamically typed value: TypeError (a branch of the caller, judged by its contract) unless it is a list or a str"""
        t = TAG(v.z)
        sized = z3.Or(t == 5, t == 4)
        if not self.spec:
            if self.ctx.no_branch:
                # inside a merged / per-element evaluation there is no branching: the TypeError is a safety obligation here
                self.ctx.oblige("safety.len_of_sized_value", sized, node)
                self.ctx.assume(sized)
            elif not self.ctx.branch(sized, f"dynlen@{getattr(node, 'lineno', 0)}"):
                from .interp import PyRaise
                raise PyRaise(VExc("TypeError"), node)
        return VInt(DLEN(v.z))

    def dyn_item(self, v, k):
        """k-th element of a sized dynamic value (characters of a str are strs)"""
        r = VDyn(DITEM(v.z, k))
        self.ctx.assume(z3.And(0 <= TAG(r.z), TAG(r.z) <= 6, DLEN(r.z) >= 0, z3.Implies(TAG(v.z) == 4, TAG(r.z) == 4)))
        return r

    def dyn_iter(self, v, node):
        """symbolic iteration over a dynamic value: TypeError unless list / str"""
        t = TAG(v.z)
        sized = z3.Or(t == 5, t == 4)
        if not self.spec:
            if self.ctx.no_branch:
                self.ctx.oblige("safety.iteration_over_sized_value", sized, node)
                self.ctx.assume(sized)
            elif not self.ctx.branch(sized, f"dyniter@{getattr(node, 'lineno', 0)}"):
                from .interp import PyRaise
                raise PyRaise(VExc("TypeError"), node)
        return (DLEN(v.z), lambda k: self.dyn_item(v, k), [])

    def dyn_getitem(self, v, i, node):
        t = TAG(v.z)
        if not self.spec:
            self.ctx.oblige("safety.subscript_of_list", t == 5, node)
            self.ctx.assume(t == 5)
        idx = self.norm_index(i, DLEN(v.z), node)
        return self.dyn_item(v, idx)

    def dyn_eq(self, a, b, node):
        if a.kind == "dyn" and b.kind == "dyn":
            return a.z == b.z
        return z3.BoolVal(False)

    def dyn_binop(self, op, a, b, node):
        # list * n (the only arithmetic the configuration code performs on a value of unknown type): a new list of n copies, item k = item (k mod len)
        if isinstance(op, ast.Mult) and a.kind == "dyn" and b.kind in ("int", "bool") and not self.spec:
            self.ctx.oblige("safety.repetition_of_a_list", TAG(a.z) == 5, node)
            self.ctx.assume(TAG(a.z) == 5)
            from .ops import to_int_z
            n = to_int_z(b)
            r = VDyn(self.ctx.fresh("dynrep", I))
            k = z3.Int("k!rep")
            la = DLEN(a.z)
            cnt = z3.If(n > 0, n, 0)
            self.ctx.assume(z3.And(TAG(r.z) == 5, r.z != a.z,
                                   DLEN(r.z) == z3.If(la == 1, cnt, z3.If(la == 0, 0, la * cnt)),
                                   z3.ForAll([k], z3.Implies(z3.And(0 <= k, k < DLEN(r.z)), DITEM(r.z, k) == DITEM(a.z, z3.If(la == 1, 0, k % la))),
                                             patterns=[DITEM(r.z, k)])))
            return r
        raise EngineError("arithmetic on dyn value")

    def dyn_compare(self, op, a, b, node):
        raise EngineError("ordering on dyn value")
