"""What a sidecar contract file (/verif/contracts/Cxx.py) uses to describe a property's verification."""
from __future__ import annotations

import z3

from .values import *
from .interp import Interp, Contract, ClassModel, LoopSpec, Frame
from .dyn import TDyn, VDyn
from .repoindex import RepoIndex


class Task:
    def __init__(self, kind, name, **kw):
        self.kind, self.name = kind, name
        self.__dict__.update(kw)


class PropertyBuilder:
    """collects contracts, class models, verification tasks, lemmas and declared assumptions"""

    def __init__(self, pid, index):
        self.pid, self.index = pid, index
        self.contracts = {}
        self.class_models = {}
        self.tasks = []
        self.assumptions = []
        self.trusted = []
        self.uncovered = []
        self.bounded = []
        self.installers = []      # callables(interp) that install externals / spec functions
        self.min_obligations = 1
        self.notes = []

    # ---- declarations
    def model(self, cm):
        self.class_models[cm.name] = cm
        return cm

    def contract(self, c, verify=True, **kw):
        fi = self.index.lookup(c.target)
        self.contracts[fi.fq] = c
        c.fq = fi.fq
        if verify:
            self.verify(c.target, **kw)
        return c

    def verify(self, target, name=None, contract=None, args_builder=None, setup=None, **kw):
        fi = self.index.lookup(target)
        self.tasks.append(Task("verify", name or fi.qual, target=target, contract=contract, args_builder=args_builder, setup=setup, opts=kw))

    def lemma(self, name, builder, expect="unsat"):
        """builder(z3) -> (hyps, goal): a statement over the spec functions, proved on every run"""
        self.tasks.append(Task("lemma", name, builder=builder, expect=expect))

    def spec_lemma(self, name, module, params, hyps, goal):
        """a statement over contract expressions (the same text the contracts use), for arbitrary values of `params`:
        hyps / goal are spec expressions evaluated in `module`'s namespace"""
        self.tasks.append(Task("spec_lemma", name, module=module, params=params, hyps=list(hyps), goal=goal))

    def install(self, fn):
        self.installers.append(fn)

    def assume(self, text):
        self.assumptions.append(text)

    def trust(self, text):
        self.trusted.append(text)

    def uncover(self, text):
        self.uncovered.append(text)

    # ---- interpreter factory
    def factory(self, extra_contracts=None):
        def make():
            it = Interp(self.index)
            it.contracts = dict(self.contracts)
            if extra_contracts:
                it.contracts.update(extra_contracts)
            it.class_models = dict(self.class_models)
            from . import externals
            externals.install(it)
            for f in self.installers:
                f(it)
            return it
        return make


def E(*pairs):
    """[(name, expr)] from alternating arguments or from a dict"""
    if len(pairs) == 1 and isinstance(pairs[0], dict):
        return list(pairs[0].items())
    return [(pairs[i], pairs[i + 1]) for i in range(0, len(pairs), 2)]


def const_class(index, spec):
    ci = index.lookup(spec)
    return lambda it: VClass(ci)


def member(index, spec, name):
    ci = index.lookup(spec)
    names = [n for n, _ in ci.enum_members(index)]
    return VEnum(ci, names.index(name))
