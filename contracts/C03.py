"""C03 — per-frame TP/FP/FN/TN accounting conserves objects.

Under contract: DynamicObjectWithPerceptionResult.is_result_correct / get_status, get_positive_objects (exactly one of
TP / FP per result, TP <=> the statement's predicate), PerceptionFrameResult.evaluate_frame (both critical filters get
the same parameters *and the frame's transforms*; what reaches the pass/fail lists is what survived the filters) and
PassFailResult.evaluate (argument wiring).  The filters themselves are C10's contracts (abstract keep predicate of all
arguments, so a mis-wired call site changes the term).
"""
from pyvc.api import *
from pyvc.lemmas import count_fn, add_count_lemmas, pred_fn
import contracts.C10 as C10

OR = "evaluation.result.object_result"
OM = "evaluation.matching.object_matching"
OF = "evaluation.matching.objects_filter"
FR = "evaluation.result.perception_frame_result"
PF = "evaluation.result.perception_pass_fail_result"
MODES = {"CENTERDISTANCE": ("center_distance", "CenterDistanceMatching"), "PLANEDISTANCE": ("plane_distance", "PlaneDistanceMatching"),
         "IOU2D": ("iou_2d", "IOU2dMatching"), "IOU3D": ("iou_3d", "IOU3dMatching")}


def models(P):
    idx = P.index
    C10.models(P)
    fields = {"estimated_object": TSObj("DynamicObject"), "ground_truth_object": TSObj("DynamicObject", nullable=True),
              "matching_label_policy": TEnum(idx.lookup(f"{OM}:MatchingLabelPolicy"))}
    for mode, (fld, cls) in MODES.items():
        P.model(ClassModel(cls, {"value": TOpt(TReal())}, repo_class=idx.lookup(f"{OM}:{cls}")))
        fields[fld] = TSObj(cls, nullable=True)
    cm = P.model(ClassModel("DynamicObjectWithPerceptionResult", fields, repo_class=idx.lookup(f"{OR}:DynamicObjectWithPerceptionResult")))
    cm.alloc_smt = True
    return cm


# ---- the statement's notions, as spec text over a result expression r
def label_ok(r):
    e, g = f"{r}.estimated_object.semantic_label.label", f"{r}.ground_truth_object.semantic_label.label"
    pol = f"{r}.matching_label_policy"
    return (f"(({g} is AutowareLabel.FP) or ({pol} is MatchingLabelPolicy.ALLOW_ANY) or ({e} is {g}) or "
            f"(({pol} is MatchingLabelPolicy.ALLOW_UNKNOWN) and ({e} is AutowareLabel.UNKNOWN)))")


def beats(r, mode, thr):
    fld = MODES[mode][0]
    op = ">" if mode.startswith("IOU") else "<"
    return f"({r}.{fld}.value is not None and {r}.{fld}.value {op} {thr})"


def correct_def(r, mode, thr):
    """is_result_correct per the statement: label-compatible ground truth whose score beats the threshold; a false-positive-labelled
    ground truth is 'correct' when it is NOT matched within the threshold; without threshold only the label decides"""
    fld = MODES[mode][0]
    gfp = f"({r}.ground_truth_object.semantic_label.label is AutowareLabel.FP)"
    return (f"({r}.ground_truth_object is not None and ite({thr} is None or {r}.{fld} is None, {label_ok(r)}, "
            f"ite({gfp}, not {beats(r, mode, thr)}, {beats(r, mode, thr)} and {label_ok(r)})))")


CORRECT = lambda r, mode, thr: f"uf_bool('correct', {r}, {mode}, {thr} is None, opt_value({thr}))"


def opt_value(interp, e, fr):
    import z3
    v = interp.ev(e.args[0], fr)
    if v.kind == "none":
        return VReal(0)
    if v.kind == "opt":
        v = v.inner
    if v.kind == "int":
        # a whole-number threshold is the same number: one sort for the named predicates over thresholds
        from pyvc.ops import to_real_z
        return VReal(to_real_z(v))
    return v


def status_contract(P):
    idx = P.index
    MS = idx.lookup("common.status:MatchingStatus")
    gfp = "(self.ground_truth_object.semantic_label.label is AutowareLabel.FP)"
    cor = CORRECT("self", "matching_mode", "matching_threshold")
    return Contract(f"{OR}:DynamicObjectWithPerceptionResult.get_status", params={},
                    returns=TTuple(TEnum(MS), TEnum(MS, nullable=True)),
                    ensures=E("one_of_the_five_documented_pairs",
                              f"ite(self.ground_truth_object is None, result[0] is MatchingStatus.FP and result[1] is None, "
                              f"ite({cor}, ite({gfp}, result[0] is MatchingStatus.FP and result[1] is MatchingStatus.TN, result[0] is MatchingStatus.TP and result[1] is MatchingStatus.TP), "
                              f"ite({gfp}, result[0] is MatchingStatus.FP and result[1] is MatchingStatus.FP, result[0] is MatchingStatus.FP and result[1] is MatchingStatus.FN)))"))


def threshold_named():
    L0 = "semantic_label.label"
    return Contract("common.threshold:get_label_threshold", params={}, returns=Opt(TReal()),
                    requires=E("one_threshold_per_label", "implies(target_labels is not None and threshold_list is not None, len(threshold_list) == len(target_labels))"),
                    ensures=E("none_flag", f"(result is None) == uf_bool('thr_none', {L0}, target_labels, threshold_list)",
                              "value", f"opt_value(result) == uf_real('thr', {L0}, target_labels, threshold_list)"))


def correctness_tasks(P):
    """is_result_correct, per matching mode, against the statement's definition of a correct result (shared with C08)"""
    idx = P.index
    RES = TSObj("DynamicObjectWithPerceptionResult")
    MM = idx.lookup(f"{OM}:MatchingMode")
    modes = [n for n, _ in MM.enum_members(idx)]
    for mi, mode in enumerate(modes):
        p = {"self": RES, "matching_mode": VEnum(MM, mi), "matching_threshold": Opt(TReal())}
        iou_req = E("iou_threshold_in_unit_interval", "implies(matching_threshold is not None, 0 <= matching_threshold and matching_threshold <= 1)") if mode.startswith("IOU") else []
        P.verify(f"{OR}:DynamicObjectWithPerceptionResult.is_result_correct", name=f"is_result_correct[{mode}]",
                 contract=Contract(f"{OR}:DynamicObjectWithPerceptionResult.is_result_correct", cut=False, params=p, requires=iou_req,
                                   ensures=E("correct_iff_statement", f"result == {correct_def('self', mode, 'matching_threshold')}")))


def build(P):
    idx = P.index
    models(P)
    P.min_obligations = 150
    P.install(lambda it: it.spec_funcs.update(opt_value=opt_value, kept=C10.kept, str_contains=C10.str_contains))
    add_count_lemmas(P)
    RES = TSObj("DynamicObjectWithPerceptionResult")
    MM = idx.lookup(f"{OM}:MatchingMode")
    MS = idx.lookup("common.status:MatchingStatus")
    AL = TEnum(idx.lookup("common.label:AutowareLabel"))
    modes = [n for n, _ in MM.enum_members(idx)]
    # ---------------------------------------------------------------- is_result_correct / get_status, per matching mode
    correctness_tasks(P)
    for mi, mode in enumerate(modes):
        p = {"self": RES, "matching_mode": VEnum(MM, mi), "matching_threshold": Opt(TReal())}
        iou_req = E("iou_threshold_in_unit_interval", "implies(matching_threshold is not None, 0 <= matching_threshold and matching_threshold <= 1)") if mode.startswith("IOU") else []
        named = Contract(f"{OR}:DynamicObjectWithPerceptionResult.is_result_correct", params={}, returns=TBool(), requires=iou_req,
                         ensures=E("named", f"result == {CORRECT('self', 'matching_mode', 'matching_threshold')}"))
        sc = status_contract(P)
        sc.cut = False
        sc.params = p
        sc.requires = iou_req
        P.verify(f"{OR}:DynamicObjectWithPerceptionResult.get_status", name=f"get_status[{mode}]", contract=sc,
                 extra_contracts={idx.lookup(f"{OR}:DynamicObjectWithPerceptionResult.is_result_correct").fq: named})
    # ---------------------------------------------------------------- get_positive_objects: every result exactly one of TP / FP
    THR = lambda r: ("uf_bool('thr_none', {g}, target_labels, matching_threshold_list)".format(g=f"{r}.ground_truth_object.semantic_label.label"),
                     "uf_real('thr', {g}, target_labels, matching_threshold_list)".format(g=f"{r}.ground_truth_object.semantic_label.label"))
    cor_k = lambda r: f"uf_bool('correct', {r}, matching_mode, {THR(r)[0]}, {THR(r)[1]})"
    is_tp = lambda r: f"({r}.ground_truth_object is not None and {cor_k(r)} and not ({r}.ground_truth_object.semantic_label.label is AutowareLabel.FP))"
    is_tn = lambda r: f"({r}.ground_truth_object is not None and {cor_k(r)} and ({r}.ground_truth_object.semantic_label.label is AutowareLabel.FP))"
    tp_ghost, tp_defs = count_fn("tp_before")
    TPK = lambda k: is_tp(f"object_results[{k}]")
    RT = TSList(RES)
    untouched = "len(object_results) == old(len(object_results)) and forall(k, 0, len(object_results), object_results[k] is old(object_results[k]))"
    fp_item = lambda lst, k: (f"({lst}[{k} - tp_before({k})].estimated_object is object_results[{k}].estimated_object and "
                              f"ite({is_tn(f'object_results[{k}]')}, {lst}[{k} - tp_before({k})].ground_truth_object is None and is_new({lst}[{k} - tp_before({k})]) and allocated({lst}[{k} - tp_before({k})]), "
                              f"{lst}[{k} - tp_before({k})] is object_results[{k}]))")
    inv = E("tp_list_length", "len(tp_object_results) == tp_before(i)",
            "fp_list_length", "len(fp_object_results) == i - tp_before(i)",
            "tp_results_in_order", "forall(k, 0, i, implies(" + TPK("k") + ", tp_object_results[tp_before(k)] is object_results[k]))",
            "fp_results_in_order", "forall(k, 0, i, implies(not " + TPK("k") + ", " + fp_item("fp_object_results", "k") + "))",
            "lists_are_new", "not is_old(tp_object_results) and not is_old(fp_object_results) and tp_object_results is not fp_object_results",
            "input_untouched", untouched)
    ctor = Contract(f"{OR}:DynamicObjectWithPerceptionResult.__init__", params={},
                    assigns={"self.estimated_object": "estimated_object", "self.ground_truth_object": "ground_truth_object",
                             "self.matching_label_policy": "matching_label_policy"})
    c_pos = Contract(
        f"{OF}:get_positive_objects",
        params={"object_results": RT, "target_labels": Opt(TSList(AL)), "matching_mode": TEnum(MM), "matching_threshold_list": Opt(TSList(TReal()))},
        returns=TTuple(RT, RT),
        locals={"tp_object_results": RT, "fp_object_results": RT},
        ghosts={"tp_before": tp_ghost}, defs=tp_defs(TPK, "len(object_results)"),
        requires=E("one_threshold_per_label", "implies(target_labels is not None and matching_threshold_list is not None, len(matching_threshold_list) == len(target_labels))"),
        loops={1: LoopSpec(index="i", invariants=inv)},
        ensures=E("every_result_is_exactly_one_of_tp_fp", "len(result[0]) + len(result[1]) == len(object_results)",
                  "tp_count", "len(result[0]) == tp_before(len(object_results))",
                  "tp_are_exactly_the_correct_results_in_order", "forall(k, 0, len(object_results), implies(" + TPK("k") + ", result[0][tp_before(k)] is object_results[k]))",
                  "fp_are_the_others_in_order", "forall(k, 0, len(object_results), implies(not " + TPK("k") + ", " + fp_item("result[1]", "k") + "))",
                  "input_untouched", untouched))
    sc_cut = status_contract(P)
    P.verify(f"{OF}:get_positive_objects", name="get_positive_objects", contract=c_pos,
             extra_contracts={idx.lookup(f"{OR}:DynamicObjectWithPerceptionResult.get_status").fq: sc_cut,
                              idx.lookup("common.threshold:get_label_threshold").fq: threshold_named(),
                              idx.lookup(f"{OR}:DynamicObjectWithPerceptionResult.__init__").fq: ctor})
    # ---------------------------------------------------------------- get_negative_objects: FN / TN lists
    # status of result k at the threshold of its ground truth's label (its estimate's label when unpaired): the statement's accounting
    lab_of = lambda r: f"({r}.ground_truth_object.semantic_label.label if {r}.ground_truth_object is not None else {r}.estimated_object.semantic_label.label)"
    thr2 = lambda r: (f"uf_bool('thr_none', {lab_of(r)}, target_labels, matching_threshold_list)", f"uf_real('thr', {lab_of(r)}, target_labels, matching_threshold_list)")
    cor2 = lambda r: f"uf_bool('correct', {r}, matching_mode, {thr2(r)[0]}, {thr2(r)[1]})"
    gfp = lambda r: f"({r}.ground_truth_object.semantic_label.label is AutowareLabel.FP)"
    res_tn = lambda r: f"({r}.ground_truth_object is not None and {cor2(r)} and {gfp(r)})"
    res_fn = lambda r: f"({r}.ground_truth_object is not None and (not {cor2(r)}) and not {gfp(r)})"
    R_ = lambda k: f"object_results[{k}]"
    G_ = lambda j: f"ground_truth_objects[{j}]"
    same_value = lambda a, b: f"uf_bool('same_object_value', {a}, {b})"
    # the paired ground truths enumerated by rank: nth_paired(paired_before(k)) is the ground truth of result k (ghost function)
    def nth_paired_ghost(it, fr):
        import z3 as _z3
        from pyvc.ops import to_int_z
        f = _z3.Function("nth_paired", I, I)
        return VSpecFn(lambda interp, a: VSObj(f(to_int_z(a[0])), "DynamicObject"), "nth_paired")
    matched_x = lambda j: f"exists(c, 0, paired_before(len(object_results)), {same_value('nth_paired(c)', G_(j))})"
    mg, md = pred_fn("gt_matched", 1)
    matched = lambda j: f"gt_matched({j})"
    un_tn = lambda j: f"((not {matched(j)}) and ({G_(j)}.semantic_label.label is AutowareLabel.FP))"
    un_fn = lambda j: f"((not {matched(j)}) and not ({G_(j)}.semantic_label.label is AutowareLabel.FP))"
    g1, d1 = count_fn("tn_results_before")
    g2, d2 = count_fn("fn_results_before")
    g3, d3 = count_fn("paired_before")
    g4, d4 = count_fn("unmatched_tn_before")
    g5, d5 = count_fn("unmatched_fn_before")
    nR, nG = "len(object_results)", "len(ground_truth_objects)"
    DL = TSList(DO) if False else None
    DOL = TSList(TSObj("DynamicObject"))
    paired = lambda k: f"({R_(k)}.ground_truth_object is not None)"
    inv1 = E("lists_are_new", "not is_old(tn_objects) and not is_old(fn_objects) and not is_old(non_candidates) and distinct(tn_objects, fn_objects, non_candidates)",
             "lengths", "len(tn_objects) == tn_results_before(i) and len(fn_objects) == fn_results_before(i) and len(non_candidates) == paired_before(i)",
             "tn_from_results", "forall(k, 0, i, implies(" + res_tn(R_('k')) + ", tn_objects[tn_results_before(k)] is " + R_('k') + ".ground_truth_object))",
             "fn_from_results", "forall(k, 0, i, implies(" + res_fn(R_('k')) + ", fn_objects[fn_results_before(k)] is " + R_('k') + ".ground_truth_object))",
             "non_candidates_are_the_paired_ground_truths", "forall(k, 0, i, implies(" + paired('k') + ", non_candidates[paired_before(k)] is " + R_('k') + ".ground_truth_object))",
             "non_candidates_by_rank", "forall(c, 0, len(non_candidates), non_candidates[c] is nth_paired(c))")
    inv2 = E("lists_are_new", "not is_old(tn_objects) and not is_old(fn_objects) and not is_old(non_candidates) and distinct(tn_objects, fn_objects, non_candidates)",
             "lengths", f"len(tn_objects) == tn_results_before({nR}) + unmatched_tn_before(j) and len(fn_objects) == fn_results_before({nR}) + unmatched_fn_before(j) and len(non_candidates) == paired_before({nR})",
             "tn_from_results", f"forall(k, 0, {nR}, implies(" + res_tn(R_('k')) + ", tn_objects[tn_results_before(k)] is " + R_('k') + ".ground_truth_object))",
             "fn_from_results", f"forall(k, 0, {nR}, implies(" + res_fn(R_('k')) + ", fn_objects[fn_results_before(k)] is " + R_('k') + ".ground_truth_object))",
             "non_candidates_are_the_paired_ground_truths", f"forall(k, 0, {nR}, implies(" + paired('k') + ", non_candidates[paired_before(k)] is " + R_('k') + ".ground_truth_object))",
             "non_candidates_by_rank", "forall(c, 0, len(non_candidates), non_candidates[c] is nth_paired(c))",
             "unmatched_tn_so_far", f"forall(m, 0, j, implies({un_tn('m')}, tn_objects[tn_results_before({nR}) + unmatched_tn_before(m)] is {G_('m')}))",
             "unmatched_fn_so_far", f"forall(m, 0, j, implies({un_fn('m')}, fn_objects[fn_results_before({nR}) + unmatched_fn_before(m)] is {G_('m')}))")
    eq_named = Contract("common.object:DynamicObject.__eq__", params={}, returns=TBool(),
                        ensures=E("named", "result == (other is not None and " + same_value("self", "other") + ")"))
    c_neg = Contract(
        f"{OF}:get_negative_objects",
        params={"ground_truth_objects": DOL, "object_results": RT, "target_labels": Opt(TSList(AL)), "matching_mode": TEnum(MM), "matching_threshold_list": Opt(TSList(TReal()))},
        returns=TTuple(DOL, DOL),
        locals={"tn_objects": DOL, "fn_objects": DOL, "non_candidates": DOL},
        ghosts={"tn_results_before": g1, "fn_results_before": g2, "paired_before": g3, "unmatched_tn_before": g4, "unmatched_fn_before": g5, "gt_matched": mg, "nth_paired": nth_paired_ghost},
        defs=[("nth_paired.def", f"forall(k, 0, {nR}, implies({paired('k')}, nth_paired(paired_before(k)) is {R_('k')}.ground_truth_object))")] + md(matched_x, nG) + d1(lambda k: res_tn(R_(k)), nR) + d2(lambda k: res_fn(R_(k)), nR) + d3(paired, nR) + d4(un_tn, nG) + d5(un_fn, nG),
        requires=E("one_threshold_per_label", "implies(target_labels is not None and matching_threshold_list is not None, len(matching_threshold_list) == len(target_labels))",
                   "an_object_equals_itself", f"forall(m, 0, {nG}, {same_value(G_('m'), G_('m'))})"),
        loops={1: LoopSpec(index="i", invariants=inv1), 2: LoopSpec(index="j", invariants=inv2)},
        ensures=E("tn_count", f"len(result[0]) == tn_results_before({nR}) + unmatched_tn_before({nG})",
                  "fn_count", f"len(result[1]) == fn_results_before({nR}) + unmatched_fn_before({nG})",
                  "tn_are_the_tn_pairs_then_the_unmatched_fp_labelled_ground_truths",
                  f"forall(k, 0, {nR}, implies(" + res_tn(R_('k')) + ", result[0][tn_results_before(k)] is " + R_('k') + ".ground_truth_object)) and "
                  f"forall(m, 0, {nG}, implies({un_tn('m')}, result[0][tn_results_before({nR}) + unmatched_tn_before(m)] is {G_('m')}))",
                  "fn_are_the_failing_pairs_then_the_unmatched_ordinary_ground_truths",
                  f"forall(k, 0, {nR}, implies(" + res_fn(R_('k')) + ", result[1][fn_results_before(k)] is " + R_('k') + ".ground_truth_object)) and "
                  f"forall(m, 0, {nG}, implies({un_fn('m')}, result[1][fn_results_before({nR}) + unmatched_fn_before(m)] is {G_('m')}))",
                  "inputs_untouched", f"len(object_results) == old({nR}) and len(ground_truth_objects) == old({nG})"))
    P.verify(f"{OF}:get_negative_objects", name="get_negative_objects", contract=c_neg,
             extra_contracts={idx.lookup(f"{OR}:DynamicObjectWithPerceptionResult.get_status").fq: status_contract(P),
                              idx.lookup("common.threshold:get_label_threshold").fq: threshold_named(),
                              idx.lookup("common.object:DynamicObject.__eq__").fq: eq_named})

    # ---------------------------------------------------------------- PassFailResult.evaluate: which lists, which mode, which thresholds
    PFC = idx.lookup(f"{PF}:PassFailResult")
    ET = idx.lookup("common.evaluation_task:EvaluationTask")
    DO = TSObj("DynamicObject")

    def plain_obj(it, **fields):
        o = it.ctx.new_cell("obj", {}, None)
        it.ctx.cell(o).update(fields)
        return o

    def make_pf(it):
        cfg = plain_obj(it, target_labels=Opt(TSList(AL)).fresh(it.ctx, "pf_targets"), evaluation_task=TEnum(ET).fresh(it.ctx, "task"),
                        matching_threshold_list=Opt(TSList(TReal())).fresh(it.ctx, "pf_thresholds"))
        o = it.ctx.new_cell("obj", {}, PFC)
        it.ctx.cell(o).update(frame_pass_fail_config=cfg, tn_objects=NONE, fn_objects=NONE, fp_object_results=NONE, tp_object_results=NONE)
        return o
    MODE = "(MatchingMode.IOU2D if self.frame_pass_fail_config.evaluation_task in (EvaluationTask.DETECTION2D, EvaluationTask.TRACKING2D, EvaluationTask.CLASSIFICATION2D, EvaluationTask.FP_VALIDATION2D) else MatchingMode.PLANEDISTANCE)"
    gp_named = Contract(f"{OF}:get_positive_objects", params={}, returns=TTuple(RT, RT),
                        ensures=E("named", "id(result[0]) == uf_int('positive_tp', object_results, target_labels, matching_mode, matching_threshold_list) and "
                                           "id(result[1]) == uf_int('positive_fp', object_results, target_labels, matching_mode, matching_threshold_list)"))
    gn_named = Contract(f"{OF}:get_negative_objects", params={}, returns=TTuple(TSList(DO), TSList(DO)),
                        ensures=E("named", "id(result[0]) == uf_int('negative_tn', ground_truth_objects, object_results, target_labels, matching_mode, matching_threshold_list) and "
                                           "id(result[1]) == uf_int('negative_fn', ground_truth_objects, object_results, target_labels, matching_mode, matching_threshold_list)"))
    PFARGS = f"self.frame_pass_fail_config.target_labels, {MODE}, self.frame_pass_fail_config.matching_threshold_list"
    P.verify(f"{PF}:PassFailResult.evaluate", name="PassFailResult.evaluate",
             contract=Contract(f"{PF}:PassFailResult.evaluate", cut=False,
                               params={"self": make_pf, "object_results": RT, "ground_truth_objects": TSList(DO)},
                               modifies=[("attr", "self", a) for a in ("tp_object_results", "fp_object_results", "tn_objects", "fn_objects")],
                               ensures=E("tp_fp_are_the_positive_objects_of_these_results",
                                         f"id(self.tp_object_results) == uf_int('positive_tp', object_results, {PFARGS}) and id(self.fp_object_results) == uf_int('positive_fp', object_results, {PFARGS})",
                                         "tn_fn_are_the_negative_objects_of_these_ground_truths_and_results",
                                         f"id(self.tn_objects) == uf_int('negative_tn', ground_truth_objects, object_results, {PFARGS}) and id(self.fn_objects) == uf_int('negative_fn', ground_truth_objects, object_results, {PFARGS})")),
             extra_contracts={idx.lookup(f"{OF}:get_positive_objects").fq: gp_named, idx.lookup(f"{OF}:get_negative_objects").fq: gn_named})

    # ---------------------------------------------------------------- PerceptionFrameResult.evaluate_frame: the two critical filters
    import ast as _ast
    cfc = idx.lookup("evaluation.result.perception_frame_config:CriticalObjectFilterConfig.__init__")
    keys = None
    for nd in _ast.walk(cfc.node):
        if isinstance(nd, (_ast.Assign, _ast.AnnAssign)) and isinstance(nd.value, _ast.Dict) and "filtering_params" in _ast.unparse(nd.targets[0] if isinstance(nd, _ast.Assign) else nd.target):
            keys = [k.value for k in nd.value.keys]
    assert keys, "CriticalObjectFilterConfig.filtering_params literal not found"
    P.model(ClassModel("FrameGroundTruth", {"objects": TSList(DO), "transforms": TOpaque("transformdict"), "frame_name": TStr(), "unix_time": TInt()},
                       repo_class=idx.lookup("common.dataset:FrameGroundTruth")))
    KT = {"target_labels": Opt(TSList(AL)), "ignore_attributes": Opt(TSList(TStr())), "min_point_numbers": Opt(TSList(TInt())), "target_uuids": Opt(TSList(TStr()))}
    FARGS = ["target_labels", "ignore_attributes", "max_x_position_list", "max_y_position_list", "max_distance_list", "min_distance_list",
             "min_point_numbers", "confidence_threshold_list", "target_uuids", "transforms"]
    FRC = idx.lookup(f"{FR}:PerceptionFrameResult")

    def make_frame_result(it):
        vals = {k: KT.get(k, Opt(TSList(TReal()))).fresh(it.ctx, "crit_" + k) for k in keys}
        crit = plain_obj(it, filtering_params=it.ctx.new_cell("dict", ([VStr(k) for k in keys], [vals[k] for k in keys])), target_labels=vals["target_labels"])
        pf = it.ctx.new_cell("obj", {}, PFC)
        it.ctx.cell(pf).update(critical_object_filter_config=crit, tn_objects=NONE, fn_objects=NONE, fp_object_results=NONE, tp_object_results=NONE)
        ms = plain_obj(it, detection_config=NONE, tracking_config=NONE, prediction_config=NONE, classification_config=NONE)
        o = it.ctx.new_cell("obj", {}, FRC)
        it.ctx.cell(o).update(object_results=RT.fresh(it.ctx, "frame_results"), frame_ground_truth=TSObj("FrameGroundTruth").fresh(it.ctx, "frame_gt"),
                              pass_fail_result=pf, metrics_score=ms)
        return o
    lists = [k for k in keys if k not in ("target_labels", "ignore_attributes", "target_uuids")]
    per_label = lambda pfx: [(f"{k}_per_label", f"implies({pfx(k)} is not None, {pfx('target_labels')} is not None and len({pfx('target_labels')}) > 0 and len({pfx(k)}) == len({pfx('target_labels')}))") for k in lists]
    callee_req = per_label(lambda k: k)
    named_filter = lambda fn, first, res_t, name: Contract(
        f"{OF}:{fn}", params={}, returns=res_t,
        requires=callee_req + [("transforms_given_unless_everything_is_in_the_ego_frame", "transforms is not None or uf_bool('all_in_ego_frame', " + first + ")")],
        ensures=E("named_result", f"len(result) == uf_int('{name}_len', {first}, " + ", ".join((["is_gt"] if fn == "filter_objects" else []) + FARGS) + ") and "
                                  f"forall(k, 0, len(result), id(result[k]) == uf_int('{name}_item', k, {first}, " + ", ".join((["is_gt"] if fn == "filter_objects" else []) + FARGS) + "))",
                  "new_list", "is_new(result)"))
    FPD = lambda k: f"self.pass_fail_result.critical_object_filter_config.filtering_params['{k}']"
    ACT = ", ".join([FPD(k) for k in FARGS[:-1]] + ["self.frame_ground_truth.transforms"])
    dict_cut = lambda fn: Contract(f"{OF}:{fn}", params={}, returns=lambda it, cf: it.ctx.new_cell("dict", ([], [])))
    pf_eval = Contract(f"{PF}:PassFailResult.evaluate", params={}, assigns={"self.seen_results": "object_results", "self.seen_ground_truths": "ground_truth_objects"})
    P.verify(f"{FR}:PerceptionFrameResult.evaluate_frame", name="PerceptionFrameResult.evaluate_frame[pass/fail only]",
             contract=Contract(
                 f"{FR}:PerceptionFrameResult.evaluate_frame", cut=False,
                 params={"self": make_frame_result, "previous_result": NONE},
                 requires=per_label(FPD),
                 modifies=[("field", "FrameGroundTruth", "objects"), ("attr", "self", "object_results"),
                           ("attr", "self.pass_fail_result", "seen_results"), ("attr", "self.pass_fail_result", "seen_ground_truths")],
                 ensures=E(
                     "results_are_exactly_those_passing_the_critical_filter_in_the_frames_transforms",
                     f"len(self.object_results) == uf_int('kept_results_len', old(self.object_results), {ACT}) and "
                     f"forall(k, 0, len(self.object_results), id(self.object_results[k]) == uf_int('kept_results_item', k, old(self.object_results), {ACT}))",
                     "ground_truths_are_exactly_those_passing_the_same_filter",
                     f"len(self.frame_ground_truth.objects) == uf_int('kept_objects_len', old(self.frame_ground_truth.objects), True, {ACT}) and "
                     f"forall(k, 0, len(self.frame_ground_truth.objects), id(self.frame_ground_truth.objects[k]) == uf_int('kept_objects_item', k, old(self.frame_ground_truth.objects), True, {ACT}))",
                     "pass_fail_sees_the_filtered_lists",
                     "self.pass_fail_result.seen_results is self.object_results and self.pass_fail_result.seen_ground_truths is self.frame_ground_truth.objects")),
             extra_contracts={idx.lookup(f"{OF}:filter_object_results").fq: named_filter("filter_object_results", "object_results", RT, "kept_results"),
                              idx.lookup(f"{OF}:filter_objects").fq: named_filter("filter_objects", "objects", TSList(DO), "kept_objects"),
                              idx.lookup(f"{OF}:divide_objects").fq: dict_cut("divide_objects"),
                              idx.lookup(f"{OF}:divide_objects_to_num").fq: dict_cut("divide_objects_to_num"),
                              idx.lookup(f"{PF}:PassFailResult.evaluate").fq: pf_eval})
    # ---------------------------------------------------------------- evaluate_frame with the detection metrics on: the frame's score is computed from the FILTERED lists
    import z3 as _z3
    DIVD = _z3.Function("divided_dict", I, I, I)

    def named_dict(tag):
        def f(it, cf):
            objs, tl = cf.vars["objects"], cf.vars["target_labels"]
            tz = tl.z if getattr(tl, "z", None) is not None else _z3.IntVal(0)
            return VOpaque("labeldict", DIVD(_z3.IntVal(tag), objs.z, ) if False else _z3.Function(f"divided_{tag}", I, I, I)(objs.z, tz))
        return f

    def same_dict(interp, e, fr):
        a = interp.ev(e.args[0], fr)
        tag = interp.ev(e.args[1], fr).const
        objs, tl = interp.ev(e.args[2], fr), interp.ev(e.args[3], fr)
        tz = tl.z if getattr(tl, "z", None) is not None else _z3.IntVal(0)
        return VBool(a.z == _z3.Function(f"divided_{tag}", I, I, I)(objs.z, tz))
    P.install(lambda it: it.spec_funcs.update(is_divided=same_dict))

    def make_frame_result_det(it):
        o = make_frame_result(it)
        ms = it.ctx.new_cell("obj", {}, idx.lookup("evaluation.metrics.metrics:MetricsScore"))
        it.ctx.cell(ms).update(detection_config=plain_obj(it), tracking_config=NONE, prediction_config=NONE, classification_config=NONE, seen_results=NONE, seen_num_gt=NONE)
        it.ctx.cell(o)["metrics_score"] = ms
        return o
    eval_det = Contract("evaluation.metrics.metrics:MetricsScore.evaluate_detection", params={}, assigns={"self.seen_results": "object_results", "self.seen_num_gt": "num_ground_truth"})
    TL_ = "self.pass_fail_result.critical_object_filter_config.target_labels"
    P.verify(f"{FR}:PerceptionFrameResult.evaluate_frame", name="PerceptionFrameResult.evaluate_frame[detection metrics on]",
             contract=Contract(
                 f"{FR}:PerceptionFrameResult.evaluate_frame", cut=False,
                 params={"self": make_frame_result_det, "previous_result": NONE},
                 requires=per_label(FPD),
                 modifies=[("field", "FrameGroundTruth", "objects"), ("attr", "self", "object_results"),
                           ("attr", "self.pass_fail_result", "seen_results"), ("attr", "self.pass_fail_result", "seen_ground_truths"),
                           ("attr", "self.metrics_score", "seen_results"), ("attr", "self.metrics_score", "seen_num_gt")],
                 ensures=E("frame_score_uses_the_filtered_results_divided_by_the_critical_target_labels",
                           f"is_divided(self.metrics_score.seen_results, 'objects', self.object_results, {TL_})",
                           "frame_ground_truth_counts_are_those_of_the_filtered_ground_truths",
                           f"is_divided(self.metrics_score.seen_num_gt, 'counts', self.frame_ground_truth.objects, {TL_})",
                           "pass_fail_sees_the_filtered_lists",
                           "self.pass_fail_result.seen_results is self.object_results and self.pass_fail_result.seen_ground_truths is self.frame_ground_truth.objects")),
             extra_contracts={idx.lookup(f"{OF}:filter_object_results").fq: named_filter("filter_object_results", "object_results", RT, "kept_results"),
                              idx.lookup(f"{OF}:filter_objects").fq: named_filter("filter_objects", "objects", TSList(DO), "kept_objects"),
                              idx.lookup(f"{OF}:divide_objects").fq: Contract(f"{OF}:divide_objects", params={}, returns=named_dict("objects")),
                              idx.lookup(f"{OF}:divide_objects_to_num").fq: Contract(f"{OF}:divide_objects_to_num", params={}, returns=named_dict("counts")),
                              idx.lookup(f"{PF}:PassFailResult.evaluate").fq: pf_eval,
                              idx.lookup("evaluation.metrics.metrics:MetricsScore.evaluate_detection").fq: eval_det})
    # ---------------------------------------------------------------- what "critical region" means: C10's _is_target_object with a registry, re-verified here
    # (x/y bounds and the planar distance ring are judged on the ego-frame position; a 3-D range or a map-frame position would count objects outside the region)
    n0_ = len(P.tasks)
    C10.build(P, tf_options=(True,), filters=False)
    P.tasks[n0_:] = [t for t in P.tasks[n0_:] if t.name.startswith("_is_target_object")]
    P.min_obligations = 150
    P.trust("matching score objects of a result (center_distance, plane_distance, iou_2d, iou_3d) are modelled by their `value` only")
    P.assume("get_label_threshold is a function of (label, target labels, threshold list): named here, meaning verified under C10")
    P.uncover("get_negative_objects / PassFailResult.evaluate / evaluate_frame: see the tasks below if present; divide_objects(_to_num) are C04/C13")
