"""numpy 4x4 homogeneous matrices / 3-vectors / pyquaternion construction as abstract sorts (assumed contracts).

A rigid 4x4 matrix is an element of an uninterpreted sort with product MUL, inverse INV, identity ID, the constructor
HOM(x, y, z, q) (translation + rotation quaternion) and projections POS*(m), QUAT(m).  What the code does with slices
(`m[:3, 3]`, `m[:3, :3]`, writing those blocks into np.eye(4)) is mapped onto these symbols; the algebraic laws are NOT
assumed here — the lemmas that need them list the ground instances they use.
"""
import z3

from ..values import *
from ..ops import to_real_z

MUL = z3.Function("mat_mul", I, I, I)
INV = z3.Function("mat_inv", I, I)
HOM = z3.Function("mat_hom", R, R, R, I, I)
POS = [z3.Function(f"mat_pos{i}", I, R) for i in range(3)]
QUAT = z3.Function("mat_quat", I, I)
QFROM4 = z3.Function("quat_from_wxyz", R, R, R, R, I)
QMAT3 = z3.Function("quat_from_matrix3", I, I)
ID = z3.IntVal(-1)
QID = z3.IntVal(-2)


def mat4(m):
    return VOpaque("ndarray", m, data={"kind": "mat4"})


def vec3(xs):
    return VOpaque("ndarray", None, data={"kind": "vec3", "items": [VReal(x) for x in xs], "xs": list(xs)})


def as_vec3(interp, v, node):
    if v.kind == "opaque" and v.data.get("kind") == "vec3":
        return v.data["xs"]
    if v.kind == "tuple" or (v.kind == "ref" and v.rkind == "list"):
        items = v.items if v.kind == "tuple" else interp.ctx.cell(v)
        if len(items) == 3:
            return [to_real_z(interp.unwrap(x, node)) for x in items]
    raise EngineError(f"expected a 3-vector, got {v}")


def _array(interp, args, kwargs, node):
    v = args[0]
    if v.kind == "opaque" and v.tag == "ndarray":
        return v
    return vec3(as_vec3(interp, v, node))


def _eye(interp, args, kwargs, node):
    if kwargs or len(args) != 1:
        # dtype / k / order change what block stores do to the matrix (an integer matrix truncates a rotation block): not modelled
        raise EngineError(f"np.eye with further arguments {sorted(kwargs)} (line {getattr(node, 'lineno', '?')}): no assumed contract")
    n = args[0].const
    if n != 4:
        return VOpaque("ndarray", None, data={"kind": "eye", "eye": n})
    # np.eye(4): a matrix under construction; the two block stores of __generate_homogeneous_matrix fill it
    return VOpaque("ndarray", ID, data={"kind": "mat4", "eye": 4, "pos": None, "rotq": None, "building": True})


def _array_equal(interp, args, kwargs, node):
    a, b = args[0], args[1]
    if kwargs or len(args) != 2 or not all(getattr(x, "kind", None) == "opaque" and x.data and x.data.get("kind") == "mat4" for x in (a, b)):
        raise EngineError(f"np.array_equal on other than two 4x4 matrices (line {getattr(node, 'lineno', '?')}): no assumed contract")
    if any(x.data.get("building") and (x.data.get("pos") is not None or x.data.get("rotq") is not None) for x in (a, b)):
        raise EngineError("np.array_equal on a matrix under construction")
    return VBool(a.z == b.z)


def _shape(interp, o, node):
    k = o.data.get("kind")
    if k == "mat4":
        return VTuple((VInt(4), VInt(4)))
    if k == "vec3":
        return VTuple((VInt(3),))
    if k == "mat3":
        return VTuple((VInt(3), VInt(3)))
    raise EngineError(f"shape of ndarray {k}")


def _ndim(interp, o, node):
    return VInt({"mat4": 2, "mat3": 2, "vec3": 1}[o.data.get("kind")])


def _is_slice(v, lo, hi):
    return v.kind == "opaque" and v.tag == "slice" and v.data["lo"] == lo and v.data["hi"] == hi


def _getitem(interp, args, kwargs, node):
    o, i = args
    if o.tag == "table" or o.data.get("kind") is None:
        from . import nptable
        return nptable._getitem(interp, args, kwargs, node)
    k = o.data.get("kind")
    if k == "mat4" and i.kind == "tuple" and len(i.items) == 2:
        a, b = i.items
        if _is_slice(a, None, 3) and b.kind == "int" and b.const == 3:
            return vec3([POS[j](o.z) for j in range(3)])
        if _is_slice(a, None, 3) and _is_slice(b, None, 3):
            return VOpaque("ndarray", None, data={"kind": "mat3", "of": o.z})
    if k == "vec3" and i.kind == "int" and i.const is not None:
        return VReal(o.data["xs"][i.const])
    raise EngineError(f"ndarray subscript {k}[{i}]")


def _setitem(interp, args, kwargs, node):
    o, i, v = args
    if o.tag == "table" or o.data.get("kind") is None:
        from . import nptable
        return nptable._setitem(interp, args, kwargs, node)
    if o.data.get("kind") == "mat4" and o.data.get("building") and i.kind == "tuple" and len(i.items) == 2:
        a, b = i.items
        if _is_slice(a, None, 3) and b.kind == "int" and b.const == 3:
            o.data["pos"] = as_vec3(interp, v, node)
        elif _is_slice(a, None, 3) and _is_slice(b, None, 3):
            if not (v.kind == "opaque" and v.data.get("kind") == "mat3" and "rotq" in v.data):
                raise EngineError("rotation block must be a quaternion's rotation_matrix")
            o.data["rotq"] = v.data["rotq"]
        else:
            raise EngineError("unsupported block store into a 4x4 matrix")
        pos = o.data["pos"] or [z3.RealVal(0)] * 3
        q = o.data["rotq"] if o.data["rotq"] is not None else QID
        o.z = HOM(pos[0], pos[1], pos[2], q)
        return NONE
    raise EngineError("ndarray item store")


def _quaternion(interp, args, kwargs, node):
    if "matrix" in kwargs:
        m = kwargs["matrix"]
        if m.kind == "opaque" and m.data.get("kind") == "mat3":
            if "of" in m.data:
                return VOpaque("quaternion", QUAT(m.data["of"]))
            return VOpaque("quaternion", m.data["rotq"])       # Quaternion(matrix=q.rotation_matrix) is q (up to sign: same rotation)
        if m.kind == "opaque" and m.data.get("kind") == "mat4":
            return VOpaque("quaternion", QUAT(m.z))
        raise EngineError(f"Quaternion(matrix={m})")
    if not args and not kwargs:
        return VOpaque("quaternion", QID)
    a = args[0] if args else None
    if a is not None and a.kind == "opaque" and a.tag == "quaternion":
        return VOpaque("quaternion", a.z)
    if a is not None and (a.kind == "tuple" or (a.kind == "ref" and a.rkind == "list")):
        items = a.items if a.kind == "tuple" else interp.ctx.cell(a)
        if len(items) == 4:
            zs = [to_real_z(interp.unwrap(x, node)) for x in items]
            return VOpaque("quaternion", QFROM4(*zs))
    raise EngineError(f"Quaternion({args}, {kwargs})")


def _rotation_matrix(interp, q, node):
    return VOpaque("ndarray", None, data={"kind": "mat3", "rotq": q.z})


def _dot(interp, args, kwargs, node):
    a, b = args
    if a.data.get("kind") == "mat4" and b.kind == "opaque" and b.data.get("kind") == "mat4":
        return mat4(MUL(a.z, b.z))
    raise EngineError("ndarray.dot: only 4x4 by 4x4")


def _inv(interp, args, kwargs, node):
    a = args[0]
    if a.kind == "opaque" and a.data.get("kind") == "mat4":
        return mat4(INV(a.z))
    raise EngineError("np.linalg.inv: only 4x4")


def _compare(interp, args, kwargs, node):
    raise EngineError("comparison of ndarrays")


HANDLERS = {
    "numpy.array": (_array, "np.array(3-sequence) is that 3-vector"),
    "numpy.eye": (_eye, "np.eye(4) is the identity; writing the translation column and the rotation block gives hom(p, q)"),
    "opaque.getitem": (_getitem, "m[:3, 3] / m[:3, :3] are the translation / rotation block of a 4x4 matrix"),
    "opaque.setitem": (_setitem, "block stores into np.eye(4)"),
    "pyquaternion.Quaternion": (_quaternion, "Quaternion(q) copies, Quaternion(matrix=R) is the quaternion of rotation R, Quaternion() the identity"),
    "ndarray.dot": (_dot, "a.dot(b) is the matrix product"),
    "numpy.linalg.inv": (_inv, "np.linalg.inv is the matrix inverse"),
    "numpy.array_equal": (_array_equal, "np.array_equal(a, b) of two 4x4 matrices: a and b are the same matrix"),
}
ATTRS = {("ndarray", "shape"): _shape, ("ndarray", "ndim"): _ndim, ("quaternion", "rotation_matrix"): _rotation_matrix}


def _spec_mat(name):
    def f(interp, e, fr):
        vals = [interp.ev(a, fr) for a in e.args]
        if name == "mat_mul":
            return mat4(MUL(vals[0].z, vals[1].z))
        if name == "mat_inv":
            return mat4(INV(vals[0].z))
        if name == "mat_hom":
            xs = as_vec3(interp, vals[0], e)
            return mat4(HOM(xs[0], xs[1], xs[2], vals[1].z))
        if name == "mat_pos":
            return VTuple([VReal(POS[j](vals[0].z)) for j in range(3)])
        if name == "mat_quat":
            return VOpaque("quaternion", QUAT(vals[0].z))
        if name == "quat_identity":
            return VOpaque("quaternion", QID)
        if name == "same_matrix":
            return VBool(vals[0].z == vals[1].z)
        if name == "same_quat":
            return VBool(vals[0].z == vals[1].z)
        if name == "same_vec":
            a, b = as_vec3(interp, vals[0], e), as_vec3(interp, vals[1], e)
            return VBool(z3.And(*[x == y for x, y in zip(a, b)]))
        raise EngineError(name)
    return f


SPEC_FUNCS = {n: _spec_mat(n) for n in ("mat_mul", "mat_inv", "mat_hom", "mat_pos", "mat_quat", "quat_identity", "same_matrix", "same_quat", "same_vec")}
