"""C06 — matching scores are geometrically exact, bounded and symmetric.

What a contract can decide here: the *formulas* the scores are computed with, relative to an assumed contract of the polygon library
(shapely) — `area(P ∩ Q)` is a symmetric function I of the two footprints with 0 <= I <= min(area P, area Q) and I(P, P) = area P — and
the consequences of those formulas for all real inputs (range, symmetry, 1 for identical boxes, 0 for disjoint ones, 3-D IoU <= BEV IoU,
invariance of the centre distance under common rigid motions).  That the library's clipping is the *true* intersection, that the rotated
footprint is the true footprint, and the plane-distance pipeline (argsort / fancy indexing in numpy) are outside the verifier: bounded
native harness against an independent polygon clipper (replay/C06.py).
"""
from pyvc.api import *

OM = "evaluation.matching.object_matching"
CM = "common"
PT = "common.point"
OB = "common.object"


def models(P):
    idx = P.index
    P.model(ClassModel("Shape", {"size": TTuple(TReal(), TReal(), TReal()), "type": TEnum(idx.lookup("common.shape:ShapeType")), "footprint": TOpaque("polygon")},
                       repo_class=idx.lookup("common.shape:Shape")))
    P.model(ClassModel("ObjectState", {"position": TTuple(TReal(), TReal(), TReal()), "shape": TSObj("Shape")},
                       repo_class=idx.lookup(f"{OB}:ObjectState")))
    P.model(ClassModel("DynamicObject", {"state": TSObj("ObjectState"), "frame_id": TEnum(idx.lookup("common.schema:FrameID"))},
                       repo_class=idx.lookup(f"{OB}:DynamicObject")))


AREA = lambda o: f"poly_area({o}.state.shape.footprint)"
INTER = lambda a, b: f"poly_area(poly_inter(footprint_of({a}), footprint_of({b})))"
HEIGHT = lambda o: f"{o}.state.shape.size[2]"
ZC = lambda o: f"{o}.state.position[2]"


def build(P):
    idx = P.index
    models(P)
    P.min_obligations = 25
    DO = TSObj("DynamicObject")
    DON = TSObj("DynamicObject", nullable=True)
    two = {"estimated_object": DO, "ground_truth_object": DO}
    # ---------------------------------------------------------------- the geometry library (shapely) at ITS boundary: abstract polygons, intersection, area
    from pyvc.externals import poly
    P.install(poly.install)
    foot_cut = Contract(f"{OB}:DynamicObject.get_footprint", params={},
                        returns=lambda it, cf: poly.world_footprint(it, cf.vars["self"], it.getattr(it.getattr(it.getattr(cf.vars["self"], "state", None), "shape", None), "footprint", None)))
    P.trust("shapely (externals/poly.py): a.intersection(b).area is a function of a and b, non-negative and at most the area of either operand; "
            "DynamicObject.get_footprint() is a function of the object whose area equals the area of the object-frame footprint (rigid motion) — ASSUMED; "
            "symmetry I(P,Q) = I(Q,P) and I(P,P) = area(P) are hypotheses of the lemmas that use them")
    fcuts = {idx.lookup(f"{OB}:DynamicObject.get_footprint").fq: foot_cut}
    P.verify(f"{OB}:DynamicObject.get_area_bev", name="DynamicObject.get_area_bev",
             contract=Contract(f"{OB}:DynamicObject.get_area_bev", cut=False, params={"self": DO},
                               ensures=E("area_of_the_footprint", f"result == {AREA('self')} and result >= 0")))
    P.verify(f"{OM}:_get_area_intersection", name="_get_area_intersection[3-D boxes]",
             contract=Contract(f"{OM}:_get_area_intersection", cut=False, params=two,
                               ensures=E("area_of_the_intersection_of_the_two_world_footprints", f"result == {INTER('estimated_object', 'ground_truth_object')}",
                                         "within_both_areas", f"0 <= result and result <= {AREA('estimated_object')} and result <= {AREA('ground_truth_object')}")),
             extra_contracts=fcuts)
    area_cut = Contract(f"{OB}:DynamicObject.get_area_bev", params={}, returns=TReal(),
                        requires=[],
                        ensures=E("area_of_the_footprint", f"result == {AREA('self')} and result >= 0"))
    inter_cut = Contract(f"{OM}:_get_area_intersection", params={}, returns=TReal(),
                         ensures=E("area_of_the_intersection_of_the_two_world_footprints", f"result == {INTER('estimated_object', 'ground_truth_object')}",
                                   "within_both_areas", f"0 <= result and result <= {AREA('estimated_object')} and result <= {AREA('ground_truth_object')}"))
    cuts = {idx.lookup(f"{OB}:DynamicObject.get_area_bev").fq: area_cut, idx.lookup(f"{OM}:_get_area_intersection").fq: inter_cut}
    POS = lambda *objs: " and ".join(f"{AREA(o)} > 0" for o in objs)
    # ---------------------------------------------------------------- height overlap: pure arithmetic of the real function
    lo = lambda o: f"({ZC(o)} - {HEIGHT(o)} / 2)"
    hi = lambda o: f"({ZC(o)} + {HEIGHT(o)} / 2)"
    E_, G_ = "estimated_object", "ground_truth_object"
    P.verify(f"{OM}:_get_height_intersection", name="_get_height_intersection",
             contract=Contract(f"{OM}:_get_height_intersection", cut=False, params=two,
                               requires=E("positive_heights", f"{HEIGHT(E_)} > 0 and {HEIGHT(G_)} > 0"),
                               ensures=E("overlap_of_the_two_z_intervals", f"result == max(0, min({hi(E_)}, {hi(G_)}) - max({lo(E_)}, {lo(G_)}))",
                                         "not_negative_and_within_both_heights", f"0 <= result and result <= {HEIGHT(E_)} and result <= {HEIGHT(G_)}",
                                         "full_height_for_equal_intervals", f"implies({ZC(E_)} == {ZC(G_)} and {HEIGHT(E_)} == {HEIGHT(G_)}, result == {HEIGHT(E_)})",
                                         "zero_for_disjoint_intervals", f"implies({hi(E_)} <= {lo(G_)} or {hi(G_)} <= {lo(E_)}, result == 0)")))
    P.spec_lemma("height_overlap_is_symmetric", OM, params={"a": DO, "b": DO}, hyps=[],
                 goal=f"max(0, min({hi('a')}, {hi('b')}) - max({lo('a')}, {lo('b')})) == max(0, min({hi('b')}, {hi('a')}) - max({lo('b')}, {lo('a')}))")
    # ---------------------------------------------------------------- volumes and the two IoU formulas
    P.verify(f"{OB}:DynamicObject.get_volume", name="DynamicObject.get_volume",
             contract=Contract(f"{OB}:DynamicObject.get_volume", cut=False, params={"self": DO},
                               ensures=E("area_times_height", f"result == {AREA('self')} * {HEIGHT('self')}")),
             extra_contracts=cuts)
    hcut = Contract(f"{OM}:_get_height_intersection", params={}, returns=TReal(),
                    ensures=E("named_height_overlap_within_both", f"result == uf_real('height_overlap', estimated_object, ground_truth_object) and 0 <= result and "
                                                                  f"result <= {HEIGHT('estimated_object')} and result <= {HEIGHT('ground_truth_object')}"))
    P.verify(f"{OM}:_get_volume_intersection", name="_get_volume_intersection",
             contract=Contract(f"{OM}:_get_volume_intersection", cut=False, params=two,
                               ensures=E("intersection_area_times_height_overlap", f"result == {INTER(E_, G_)} * uf_real('height_overlap', {E_}, {G_})")),
             extra_contracts=dict(cuts, **{idx.lookup(f"{OM}:_get_height_intersection").fq: hcut}))
    I2 = INTER(E_, G_)
    iou2 = f"({I2} / ({AREA(E_)} + {AREA(G_)} - {I2}))"
    ci2 = idx.lookup(f"{OM}:IOU2dMatching")
    mk2 = lambda it: it.ctx.new_cell("obj", {}, ci2)
    P.verify(f"{OM}:IOU2dMatching._calculate_matching_score", name="IOU2dMatching._calculate_matching_score",
             contract=Contract(f"{OM}:IOU2dMatching._calculate_matching_score", cut=False,
                               params={"self": mk2, "estimated_object": DO, "ground_truth_object": DON, "transforms": NONE},
                               requires=E("boxes_of_positive_size", f"{AREA(E_)} > 0 and implies({G_} is not None, {AREA(G_)} > 0)"),
                               ensures=E("zero_without_ground_truth", f"implies({G_} is None, result == 0)",
                                         "intersection_over_union", f"implies({G_} is not None, result == {iou2})",
                                         "in_unit_interval", "0 <= result and result <= 1",
                                         "zero_iff_no_overlap", f"implies({G_} is not None, (result == 0) == ({I2} == 0))",
                                         "one_for_coinciding_footprints", f"implies({G_} is not None and {I2} == {AREA(E_)} and {I2} == {AREA(G_)}, result == 1)")),
             extra_contracts=cuts)
    vol_cut = Contract(f"{OB}:DynamicObject.get_volume", params={}, returns=TReal(),
                       ensures=E("area_times_height", f"result == {AREA('self')} * {HEIGHT('self')}"))
    vi_cut = Contract(f"{OM}:_get_volume_intersection", params={}, returns=TReal(),
                      ensures=E("named", f"result == {INTER('estimated_object', 'ground_truth_object')} * uf_real('height_overlap', estimated_object, ground_truth_object)",
                                "bounds", f"0 <= {INTER('estimated_object', 'ground_truth_object')} and {INTER('estimated_object', 'ground_truth_object')} <= {AREA('estimated_object')} and "
                                          f"{INTER('estimated_object', 'ground_truth_object')} <= {AREA('ground_truth_object')} and 0 <= uf_real('height_overlap', estimated_object, ground_truth_object) and "
                                          f"uf_real('height_overlap', estimated_object, ground_truth_object) <= {HEIGHT('estimated_object')} and "
                                          f"uf_real('height_overlap', estimated_object, ground_truth_object) <= {HEIGHT('ground_truth_object')}",
                                ))
    ci3 = idx.lookup(f"{OM}:IOU3dMatching")
    H = f"uf_real('height_overlap', {E_}, {G_})"
    V = lambda o: f"({AREA(o)} * {HEIGHT(o)})"
    iou3 = f"(({I2} * {H}) / ({V(E_)} + {V(G_)} - {I2} * {H}))"
    P.verify(f"{OM}:IOU3dMatching._calculate_matching_score", name="IOU3dMatching._calculate_matching_score",
             contract=Contract(f"{OM}:IOU3dMatching._calculate_matching_score", cut=False,
                               params={"self": lambda it: it.ctx.new_cell("obj", {}, ci3), "estimated_object": DO, "ground_truth_object": DON, "transforms": NONE},
                               requires=E("boxes_of_positive_size", f"{HEIGHT(E_)} > 0 and {AREA(E_)} > 0 and implies({G_} is not None, {HEIGHT(G_)} > 0 and {AREA(G_)} > 0)"),
                               ensures=E("zero_without_ground_truth", f"implies({G_} is None, result == 0)",
                                         "intersection_volume_over_union_volume", f"implies({G_} is not None, result == {iou3})")),
             extra_contracts={idx.lookup(f"{OB}:DynamicObject.get_volume").fq: vol_cut, idx.lookup(f"{OM}:_get_volume_intersection").fq: vi_cut})

    # ---------------------------------------------------------------- consequences of the formulas, for all reals (lemmas over the contract terms)
    def iou_lemmas(z3):
        A, B, I, h1, h2, Hh = z3.Reals("A B I h1 h2 H")
        base = [A > 0, B > 0, 0 <= I, I <= A, I <= B, h1 > 0, h2 > 0, 0 <= Hh, Hh <= h1, Hh <= h2]
        u2 = A + B - I
        u3 = A * h1 + B * h2 - I * Hh
        return base, u2, u3, (A, B, I, h1, h2, Hh)

    def l_range3(z3):
        base, u2, u3, (A, B, I, h1, h2, Hh) = iou_lemmas(z3)
        # I*H <= A*h1 and <= B*h2, so the union volume is at least max(A*h1, B*h2) > 0 and the ratio is in [0, 1]
        return base, z3.And(u3 > 0, 0 <= I * Hh, I * Hh <= u3)
    P.lemma("iou3d_in_unit_interval", l_range3)

    def l_3d_le_bev(z3):
        base, u2, u3, (A, B, I, h1, h2, Hh) = iou_lemmas(z3)
        # I*H/u3 <= I/u2  <=>  I*H*u2 <= I*u3 (both unions positive)
        return base + [u2 > 0, u3 > 0], I * Hh * u2 <= I * u3
    P.lemma("iou3d_never_exceeds_bev_iou", l_3d_le_bev)

    def l_identical(z3):
        base, u2, u3, (A, B, I, h1, h2, Hh) = iou_lemmas(z3)
        return base + [A == B, I == A, h1 == h2, Hh == h1], z3.And(I * Hh == u3, I == u2)
    P.lemma("iou_is_one_for_identical_boxes", l_identical)

    def l_sym(z3):
        # the formulas are symmetric once the intersection area / height overlap are
        A, B, I, J = z3.Reals("A B I J")
        return [I == J], I / (A + B - I) == J / (B + A - J)
    P.lemma("iou_formula_symmetric_given_symmetric_intersection", l_sym)

    def l_rot(z3):
        # centre distance is unchanged by a common rotation about the ego and a common translation
        x1, y1, x2, y2, c, s, tx, ty = z3.Reals("x1 y1 x2 y2 c s tx ty")
        rx = lambda x, y: c * x - s * y + tx
        ry = lambda x, y: s * x + c * y + ty
        d2 = (x1 - x2) ** 2 + (y1 - y2) ** 2
        d2r = (rx(x1, y1) - rx(x2, y2)) ** 2 + (ry(x1, y1) - ry(x2, y2)) ** 2
        return [c * c + s * s == 1], d2r == d2
    P.lemma("squared_centre_distance_invariant_under_common_rigid_motion", l_rot)
    # ---------------------------------------------------------------- centre distances: the Euclidean distance of the centres
    from pyvc.externals import vec
    P.install(vec.install)
    T3 = TTuple(TReal(), TReal(), TReal())
    sq = lambda a, b, i: f"({a}[{i}] - {b}[{i}]) * ({a}[{i}] - {b}[{i}])"
    P.verify(f"{PT}:distance_points", name="distance_points",
             contract=Contract(f"{PT}:distance_points", cut=False, params={"point_1": T3, "point_2": T3},
                               ensures=E("euclidean_distance", "result >= 0 and result * result == " + " + ".join(sq("point_1", "point_2", i) for i in range(3)))))
    P.verify(f"{PT}:distance_points_bev", name="distance_points_bev",
             contract=Contract(f"{PT}:distance_points_bev", cut=False, params={"point_1": T3, "point_2": T3},
                               ensures=E("planar_euclidean_distance", "result >= 0 and result * result == " + " + ".join(sq("point_1", "point_2", i) for i in range(2)))))
    pos = lambda o: f"{o}.state.position"
    P.verify(f"{CM}:distance_objects", name="distance_objects[3-D]",
             contract=Contract(f"{CM}:distance_objects", cut=False, params={"object_1": DO, "object_2": DO},
                               ensures=E("euclidean_distance_of_the_centres",
                                         "result >= 0 and result * result == " + " + ".join(sq(pos("object_1"), pos("object_2"), i) for i in range(3)))))
    P.verify(f"{CM}:distance_objects_bev", name="distance_objects_bev",
             contract=Contract(f"{CM}:distance_objects_bev", cut=False, params={"object_1": DO, "object_2": DO},
                               ensures=E("planar_distance_of_the_centres",
                                         "result >= 0 and result * result == " + " + ".join(sq(pos("object_1"), pos("object_2"), i) for i in range(2)))))
    dist_named = Contract(f"{CM}:distance_objects", params={}, returns=TReal(), ensures=E("named", "result == uf_real('centre_distance', object_1, object_2)"))
    cic = idx.lookup(f"{OM}:CenterDistanceMatching")
    P.verify(f"{OM}:CenterDistanceMatching._calculate_matching_score", name="CenterDistanceMatching._calculate_matching_score",
             contract=Contract(f"{OM}:CenterDistanceMatching._calculate_matching_score", cut=False,
                               params={"self": lambda it: it.ctx.new_cell("obj", {}, cic), "estimated_object": DO, "ground_truth_object": DON, "transforms": NONE},
                               ensures=E("none_without_ground_truth", f"({G_} is None) == (result is None)",
                                         "distance_between_estimate_and_ground_truth", f"implies({G_} is not None, result == uf_real('centre_distance', {E_}, {G_}))")),
             extra_contracts={idx.lookup(f"{CM}:distance_objects").fq: dist_named})

    def l_dist_sym(z3):
        a, b, d1, d2 = z3.Reals("a b d1 d2")
        return [d1 >= 0, d2 >= 0, d1 * d1 == (a - b) * (a - b), d2 * d2 == (b - a) * (b - a)], d1 == d2
    P.lemma("distance_symmetric_in_its_arguments.one_axis", l_dist_sym)
    P.trust("numpy: np.array of a number sequence is that vector, vectors subtract elementwise, np.linalg.norm(v, ord=2) is the non-negative root of the sum of squares "
            "(externals/vec.py)")
    P.uncover("that shapely's clipped polygon is the true intersection and that get_footprint is the true rotated rectangle (geometric exactness): bounded harness only")
    P.uncover("plane distance (numpy argsort / fancy indexing of the corner arrays): bounded harness only; 2-D ROI objects: harness only")
    P.assume("floats as reals: 'within numerical tolerance' is not modelled")
    P.bounded.append(dict(what="geometric exactness on the real classes: BEV / 3-D IoU against an independent Sutherland-Hodgman clipper, centre distance, symmetry, range, "
                               "identical / disjoint / nested / touching boxes, 3-D <= BEV, plane distance = RMS over the ground truth's nearest side, invariance under a common "
                               "rotation about the ego and a common translation, integer ROIs against exact rational IoU",
                          bound="400 random box pairs (sizes from slivers 0.05 m to 12 m, any yaw, overlapping or far apart) + 300 ROI pairs per run, tolerance 1e-5", where="replay/C06.py"))
