"""C13 native harness: a real PerceptionEvaluationManager (constructed without a dataset on disk) driven through sequences of
add_frame_result calls: history independence, untouched inputs, scene pooling."""
import copy
import random
import sys
import types

from common import main, budget
import build
import frames


def manager(task, targets, f_over=None):
    from perception_eval.manager.perception_evaluation_manager import PerceptionEvaluationManager
    from perception_eval.evaluation.matching.object_matching import MatchingLabelPolicy
    et, cof, pfc, msc = frames.configs(task, targets)
    n = len(targets)
    fp = dict(target_labels=cof.target_labels, ignore_attributes=None, max_x_position_list=[100.0] * n, max_y_position_list=[100.0] * n,
              max_distance_list=None, min_distance_list=None, max_matchable_radii=None, min_point_numbers=[0] * n,
              confidence_threshold_list=None, target_uuids=None, uuid_matching_first=False)
    fp.update(f_over or {})
    ev = types.SimpleNamespace(evaluation_task=et, filtering_params=fp, label_params=dict(matching_label_policy=MatchingLabelPolicy.DEFAULT),
                               target_labels=cof.target_labels, metrics_config=msc, label_converter=None)
    m = PerceptionEvaluationManager.__new__(PerceptionEvaluationManager)
    m.evaluator_config = ev
    m.frame_results = []
    m.ground_truth_frames = []
    return m, ev


def crit_cfg(ev, targets, half):
    from perception_eval.common.label import LabelConverter
    from perception_eval.evaluation.result.perception_frame_config import CriticalObjectFilterConfig, PerceptionPassFailConfig
    e2 = types.SimpleNamespace(evaluation_task=ev.evaluation_task, label_converter=LabelConverter(ev.evaluation_task, False, "autoware"))
    n = len(targets)
    return (CriticalObjectFilterConfig(e2, list(targets), max_x_position_list=[half] * n, max_y_position_list=[half] * n),
            PerceptionPassFailConfig(e2, list(targets), matching_threshold_list=[1.0] * n))


def summary(fr):
    pf = fr.pass_fail_result
    aps = []
    for m in fr.metrics_score.maps:
        aps.append((str(m.matching_mode), round(m.map, 9) if m.map != float("inf") else "inf"))
    return (len(pf.tp_object_results), len(pf.fp_object_results), len(pf.fn_objects), len(pf.tn_objects), len(fr.object_results),
            len(fr.frame_ground_truth.objects), tuple(aps))


def check(case):
    from perception_eval.common.dataset import FrameGroundTruth
    # (a label may be listed twice - e.g. car + truck merged into car by merge_similar_labels -: it is still one label, pooled and counted once)
    targets = case.get("targets") or ["car", "pedestrian", "bicycle"]
    mgr, ev = manager("detection", targets)
    frames_gt = []
    # objects given in the ego frame or (same scene) in the map frame with the frame's ego pose: the evaluation then looks transforms up in the frame's registry
    in_map = case.get("frame") == "map"
    place = lambda d, f: dict(d, frame="map", x=d["x"] + (f.get("ego") or {}).get("x", 0.0), y=d["y"] + (f.get("ego") or {}).get("y", 0.0)) if in_map else d
    for fi, f in enumerate(case["frames"]):
        frames_gt.append(FrameGroundTruth(fi * 100000, str(fi), [build.obj3d(place(d, f)) for d in f["gt"]], transforms=build.ego_matrix(f.get("ego"))))
    mgr.ground_truth_frames = frames_gt
    snapshot = [(f.objects, list(f.objects)) for f in frames_gt]
    from perception_eval.common.schema import FrameID
    pose = lambda f: (f.transforms[(FrameID.BASE_LINK, FrameID.MAP)].matrix.copy().tolist(), sorted(str(k.src) + "->" + str(k.dst) for k in f.transforms.keys()))
    poses = [(pose(f), f.unix_time, [(tuple(o.state.position), tuple(o.state.orientation.elements), o.unix_time) for o in f.objects]) for f in frames_gt]
    first = {}
    for step, (fi, half) in enumerate(case["calls"]):
        if case.get("lookups") and len(frames_gt) > 1:
            # ground-truth lookups between the evaluations (also at a stamp between two key frames, with interpolation): the loaded frames stay as they are
            for (lt, interp) in case["lookups"][step % len(case["lookups"])]:
                got1 = mgr.get_ground_truth_now_frame(lt, 60000, interpolate_ground_truth=interp)
                got2 = mgr.get_ground_truth_now_frame(lt, 60000, interpolate_ground_truth=interp)
                d1 = None if got1 is None else (got1.unix_time, sorted((o.uuid, tuple(round(v, 9) for v in o.state.position)) for o in got1.objects), pose(got1))
                d2 = None if got2 is None else (got2.unix_time, sorted((o.uuid, tuple(round(v, 9) for v in o.state.position)) for o in got2.objects), pose(got2))
                if d1 != d2:
                    return f"the same ground-truth lookup (stamp {lt}, interpolate={interp}) gave two different frames"
            now = [(pose(f), f.unix_time, [(tuple(o.state.position), tuple(o.state.orientation.elements), o.unix_time) for o in f.objects]) for f in frames_gt]
            if now != poses:
                k = next(i for i, (a, b) in enumerate(zip(now, poses)) if a != b)
                return f"a ground-truth lookup before call {step} changed the loaded frame {k} (ego pose, stamp or an object's pose)"
        est = [build.obj3d(place(d, case["frames"][fi])) for d in case["frames"][fi]["est"]]
        est0 = list(est)
        cof, pfc = crit_cfg(ev, targets, half)
        fr = mgr.add_frame_result(fi * 100000, frames_gt[fi], est, cof, pfc)
        if case.get("lookups") and [(pose(f), f.unix_time) for f in frames_gt] != [(p, t) for p, t, _ in poses]:
            return f"call {step} (frame {fi}) changed the transform registry or the stamp of a loaded frame"
        if est != est0 or any(a is not b for a, b in zip(est, est0)):
            return f"call {step}: the caller's estimate list was modified"
        for (lst, items), f in zip(snapshot, frames_gt):
            if f.objects is not lst or len(lst) != len(items) or any(a is not b for a, b in zip(lst, items)):
                return f"call {step} (frame {fi}, critical half-width {half}) modified the loaded ground-truth frame {f.frame_name}: {len(items)} -> {len(f.objects)} objects"
        s = summary(fr)[:6]       # detection: independent of the previous frame
        key = (fi, half)
        if key in first and first[key] != s:
            return f"evaluating frame {fi} with critical half-width {half} gave {s} at call {step} but {first[key]} earlier on the same manager"
        first.setdefault(key, s)
    if len(mgr.frame_results) != len(case["calls"]):
        return "add_frame_result did not append exactly one result per call"
    # one-frame scene == that frame's detection score; ground-truth counts add up
    m1, ev1 = manager("detection", targets)
    est = [build.obj3d(d) for d in case["frames"][0]["est"]]
    cof, pfc = crit_cfg(ev1, targets, case["calls"][0][1])      # also with a critical region that removes ground truths the evaluator filter kept
    f0 = FrameGroundTruth(0, "0", [build.obj3d(d) for d in case["frames"][0]["gt"]], transforms=build.ego_matrix(None))
    fr = m1.add_frame_result(0, f0, est, cof, pfc)
    scene = m1.get_scene_result()
    a = [(str(m.matching_mode), [round(x.ap, 9) for x in m.aps]) for m in fr.metrics_score.maps]
    b = [(str(m.matching_mode), [round(x.ap, 9) for x in m.aps]) for m in scene.maps]
    if a != b:
        return f"one-frame scene score {b} differs from the frame's detection score {a}"
    ga = [(str(m.matching_mode), [x.num_ground_truth for x in m.aps]) for m in fr.metrics_score.maps]
    gb = [(str(m.matching_mode), [x.num_ground_truth for x in m.aps]) for m in scene.maps]
    if ga != gb:
        return f"one-frame scene counts ground truths {gb}, the frame itself {ga}"
    sc = mgr.get_scene_result()
    # the scene score is the score of ALL the frames' results ranked together (one list per label), whatever frame each came from
    from perception_eval.evaluation.matching.objects_filter import divide_objects, divide_objects_to_num
    from perception_eval.evaluation.metrics.metrics import MetricsScore
    labs = ev.target_labels
    flat = {l: [] for l in labs}
    ngt = {l: 0 for l in labs}
    for r in mgr.frame_results:
        d = divide_objects(r.object_results, labs)
        g = divide_objects_to_num(r.frame_ground_truth.objects, labs)
        for l in flat:
            flat[l] += d[l]
            ngt[l] += g[l]
    ms = MetricsScore(ev.metrics_config, used_frame=[int(r.frame_name) for r in mgr.frame_results])
    ms.evaluate_detection(flat, ngt)
    for m_scene, m_flat in zip(sc.maps, ms.maps):
        for a, b in zip(list(m_scene.aps) + list(m_scene.aphs), list(m_flat.aps) + list(m_flat.aphs)):
            if a.ap != b.ap and abs(a.ap - b.ap) > 1e-12:
                return (f"scene {type(a.tp_metrics).__name__} score of {[str(t) for t in a.target_labels]} ({m_scene.matching_mode}) is {a.ap}; the same results ranked together as one list score {b.ap}")
    for m in sc.maps:
        for a in m.aps:
            want = sum(1 for r in mgr.frame_results for o in r.frame_ground_truth.objects if o.semantic_label.label is a.target_labels[0])
            if a.num_ground_truth != want:
                return f"scene ground-truth count of {a.target_labels[0].value} is {a.num_ground_truth} ({m.matching_mode}); over the frames there are {want}"
    return None


def check_tracking(case):
    """tracking through the manager: the scene's CLEAR counts per label are the sums of the frames' own counts (each frame against its predecessor, nothing else)"""
    from perception_eval.common.dataset import FrameGroundTruth
    targets = ["car", "pedestrian", "bicycle"]
    mgr, ev = manager("tracking", targets)
    totals = {}
    for fi, f in enumerate(case["frames"]):
        gt = FrameGroundTruth(fi * 100000, str(fi), [build.obj3d(d) for d in f["gt"]], transforms=build.ego_matrix(None))
        cof, pfc = crit_cfg(ev, targets, 50.0)
        fr = mgr.add_frame_result(fi * 100000, gt, [build.obj3d(d) for d in f["est"]], cof, pfc)
        for ts in fr.metrics_score.tracking_scores:
            for c in ts.clears:
                k = (str(ts.matching_mode), str(c.target_labels[0]))
                t = totals.setdefault(k, [0.0, 0.0, 0])
                t[0] += c.tp; t[1] += c.fp; t[2] += c.id_switch
    scene = mgr.get_scene_result()
    for ts in scene.tracking_scores:
        for c in ts.clears:
            k = (str(ts.matching_mode), str(c.target_labels[0]))
            want = totals.get(k, [0.0, 0.0, 0])
            if [c.tp, c.fp, c.id_switch] != want:
                return f"scene CLEAR counts (TP, FP, switches) for {k} are {[c.tp, c.fp, c.id_switch]}, the frames' own counts add up to {want}"
    return None


def gen_tracking(rnd):
    pts = [-7.0, -3.0, 1.5, 6.0]
    ids = ["a", "b", "c"]
    fs = []
    for fi in range(rnd.randint(3, 5)):
        est, gt = [], []
        if rnd.random() < 0.75:       # sometimes a frame without any result or ground truth of a label (or at all)
            for i, x in enumerate(rnd.sample(pts, rnd.randint(1, 3))):
                lab = rnd.choice(["car", "car", "pedestrian"])
                gt.append(dict(label=lab, x=x, y=0.5 * i, uuid="g" + rnd.choice(ids), pts=5))
                if rnd.random() < 0.8:
                    est.append(dict(label=lab, x=x + 0.2, y=0.5 * i, uuid="e" + rnd.choice(ids), score=0.5 + 0.1 * i))
            # unique ids per frame
            for lst in (est, gt):
                seen = set()
                for d in list(lst):
                    if d["uuid"] in seen:
                        lst.remove(d)
                    seen.add(d["uuid"])
        fs.append(dict(est=est, gt=gt))
    return dict(frames=fs)


def gen(rnd):
    pts = [-7.0, -3.0, -1.0, 1.5, 4.0, 8.0]
    fs = []
    for fi in range(rnd.randint(1, 3)):
        est = [dict(label=rnd.choice(["car", "pedestrian", "bicycle"]), x=rnd.choice(pts) + 0.01 * i, y=rnd.choice(pts), score=0.2 + 0.1 * i, uuid=f"e{i}") for i in range(rnd.randint(0, 4))]
        gt = [dict(label=rnd.choice(["car", "pedestrian", "bicycle"]), x=rnd.choice(pts) + 0.3 + 0.02 * i, y=rnd.choice(pts), pts=5, uuid=f"g{i}") for i in range(rnd.randint(1, 4))]
        for g in gt[:2]:
            if est:
                e = rnd.choice(est)
                g.update(label=e["label"], x=e["x"] + 0.3, y=e["y"] + 0.01 * gt.index(g))
        fs.append(dict(est=est, gt=gt, ego=dict(x=1.5 * fi, y=0.0, yaw=0.0)))
    calls = [(rnd.randrange(len(fs)), rnd.choice([2.0, 5.0, 50.0])) for _ in range(rnd.randint(2, 5))]
    calls.append(calls[0])
    stamps = [0, 50000, 100000, 140000, 150000, 260000]
    lookups = [[(rnd.choice(stamps), rnd.random() < 0.7) for _ in range(rnd.randint(0, 2))] for _ in range(3)]
    case = dict(frames=fs, calls=calls, lookups=lookups, frame=rnd.choice(["base_link", "map"]))
    if rnd.random() < 0.25:
        case["targets"] = ["car", "car", "pedestrian"]
    return case


def search(item, seed):
    rnd = random.Random(seed * 53 + 11)
    for _ in range(budget(60)):
        case = gen(rnd)
        try:
            why = check(case)
        except Exception as ex:
            why = f"raised {type(ex).__name__}: {ex}"
        if why:
            return dict(function="manager", input=case, observed=why)
    for _ in range(budget(40)):
        case = gen_tracking(rnd)
        try:
            why = check_tracking(case)
        except Exception as ex:
            why = f"raised {type(ex).__name__}: {ex}"
        if why:
            return dict(function="manager-tracking", input=case, observed=why)
    return None


def replay(payload):
    try:
        why = check_tracking(payload["input"]) if payload.get("function") == "manager-tracking" else check(payload["input"])
    except Exception as ex:
        why = f"raised {type(ex).__name__}: {ex}"
    return (why is None, why or "ok")


if __name__ == "__main__":
    sys.exit(main("C13", search, replay))
