"""C16 — loading a dataset reproduces its annotations as ground-truth frames.

The loader is glue around nuscenes-devkit.  The devkit is an ASSUMED abstract database (externals/devkit.py): records are functions of
(table, token, field), a sample knows its channels, and the boxes of a sample data token are two lists (ego frame / global frame) that the
devkit determines — their geometry (the inverse-ego-pose relation between the two lists) is the devkit's and is only checked by the bounded
harness on generated datasets.  Relative to that database, the REAL glue code is verified for all databases:
  _get_sample_boxes       BASE_LINK -> the ego-frame list, MAP -> the global list, anything else ValueError;
  _convert_nuscenes_box_to_dynamic_object   every field of the object comes from the right source (instance token, the box's own centre / size /
                          orientation, the annotation's lidar point count, the label / visibility handed in, the frame id and time stamp);
                          tracking data only in tracking tasks;
  _sample_to_frame        the frame carries the sample's time stamp and name; LIDAR_TOP, else LIDAR_CONCAT, else ValueError; ONE object per box, in
                          order, each built from that box's own annotation record (instance, visibility level — None when the table is empty —,
                          attribute names in order, label converted from the box's category and those attributes);
  _get_sample_tokens      all sample tokens in table order (>= 1, else DatasetLoadingError).
"""
from pyvc.api import *

DU = "common.dataset_utils"
DS = "common.dataset"


def build(P):
    idx = P.index
    import z3 as _z3
    from pyvc.externals import devkit
    P.install(devkit.install)
    P.min_obligations = 40
    VIS = idx.lookup("common.schema:Visibility")
    FID = idx.lookup("common.schema:FrameID")
    ET = idx.lookup("common.evaluation_task:EvaluationTask")
    AL = idx.lookup("common.label:AutowareLabel")
    T3 = TTuple(TReal(), TReal(), TReal())
    P.model(ClassModel("Box", {"token": TStr(), "name": TStr(), "center": TOpaque("ndarray3"), "wlh": TOpaque("ndarray3"), "orientation": TOpaque("quaternion")}))
    P.model(ClassModel("Label", {"label": TEnum(AL), "name": TStr(), "attributes": TSList(TStr())}, repo_class=idx.lookup("common.label:Label")))
    do_fields = {"unix_time": TInt(), "frame_id": TEnum(FID), "position": T3, "size": T3, "orientation": TOpaque("quaternion"), "semantic_score": TReal(),
                 "semantic_label": TSObj("Label"), "pointcloud_num": TInt(), "uuid": TStr(), "visibility": TEnum(VIS, nullable=True), "has_tracking_data": TBool()}
    P.model(ClassModel("DynamicObject", do_fields))
    P.model(ClassModel("FrameGroundTruth", {"unix_time": TInt(), "frame_name": TStr(), "objects": TSList(TSObj("DynamicObject")), "transforms": TOpaque("matrices"),
                                             "has_raw_data": TBool()}))
    P.model(ClassModel("DevkitHeap", {"boxes": TSList(TSObj("Box")), "tokens": TSList(TStr())}))       # so that the heap axioms cover the devkit's lists
    DO, BOX, LAB = TSObj("DynamicObject"), TSObj("Box"), TSObj("Label")
    nusc = lambda it: VOpaque("nusc", it.ctx.fresh("nusc", I))
    helper = lambda it: VOpaque("helper", it.ctx.fresh("helper", I))

    # ---------------------------------------------------------------- constructors of value classes: store their arguments (assumed; their bodies are C20 / C03 / C13 material)
    def alloc(it, cname):
        r = it.ctx.new_sref("new_" + cname)
        it.ctx.assume(REF_TYPE(r) == TSObj(cname).tag())
        return VSObj(r, cname)

    def make_object(it, cf):
        kw = cf.vars
        o = alloc(it, "DynamicObject")
        sh = kw["shape"]
        vals = dict(unix_time=kw["unix_time"], frame_id=kw["frame_id"], position=kw["position"], size=sh.data["size"], orientation=kw["orientation"],
                    semantic_score=kw["semantic_score"], semantic_label=kw["semantic_label"], pointcloud_num=kw["pointcloud_num"], uuid=kw["uuid"],
                    visibility=kw.get("visibility", NONE), has_tracking_data=VBool(kw["tracked_positions"].kind != "none"))
        for k, v in vals.items():
            it.setattr(o, k, v, None)
        return o

    def make_shape(it, cf):
        return VOpaque("shape", None, data={"size": cf.vars["size"], "type": cf.vars["shape_type"]})

    def make_frame(it, cf):
        kw = cf.vars
        o = alloc(it, "FrameGroundTruth")
        for k in ("unix_time", "frame_name", "objects", "transforms"):
            it.setattr(o, k, kw[k], None)
        it.setattr(o, "has_raw_data", VBool(kw["raw_data"].kind != "none"), None)
        return o
    ctors = {idx.lookup("common.object:DynamicObject").fq: Contract("common.object:DynamicObject", returns=make_object),
             idx.lookup("common.shape:Shape").fq: Contract("common.shape:Shape", returns=make_shape),
             idx.lookup(f"{DS}:FrameGroundTruth").fq: Contract(f"{DS}:FrameGroundTruth", returns=make_frame)}
    P.trust("DynamicObject / Shape / FrameGroundTruth constructors store the arguments they are given (class-level assumed contracts; the object's state fields are read back flat)")
    track_cut = Contract(f"{DU}:_get_tracking_data", params={}, returns=lambda it, cf: VTuple([VOpaque("tracked", None)] * 4))
    vel_cut = Contract(f"{DU}:_get_box_velocity", params={}, returns=lambda it, cf: VOpaque("velocity", None))
    # ---------------------------------------------------------------- _get_sample_boxes
    P.verify(f"{DU}:_get_sample_boxes", name="_get_sample_boxes",
             contract=Contract(f"{DU}:_get_sample_boxes", cut=False, params={"nusc": nusc, "sample_data_token": TStr(), "frame_id": TEnum(FID)},
                               raises={"ValueError": "frame_id is not FrameID.BASE_LINK and frame_id is not FrameID.MAP"},
                               ensures=E("ego_frame_boxes_for_base_link", "implies(frame_id is FrameID.BASE_LINK, result is boxes_ego(nusc, sample_data_token))",
                                         "global_boxes_for_map", "implies(frame_id is FrameID.MAP, result is boxes_map(nusc, sample_data_token))")))
    # ---------------------------------------------------------------- one box -> one object
    conv_params = {"nusc": nusc, "helper": helper, "frame_id": TEnum(FID), "object_box": BOX, "unix_time": TInt(), "evaluation_task": TEnum(ET), "semantic_label": LAB,
                   "instance_token": TStr(), "sample_token": TStr(), "visibility": TEnum(VIS, nullable=True)}
    ANN = lambda box, f, kind="int": f"db_{kind}(nusc, 'sample_annotation', {box}.token, '{f}')"
    conv_ens = E("instance_id", "result.uuid == instance_token", "time_stamp_and_frame", "result.unix_time == unix_time and result.frame_id is frame_id",
                 "pose_is_the_box_pose", "result.position == vec3(object_box.center) and same_quat(result.orientation, object_box.orientation)",
                 "size_is_the_box_size", "result.size == vec3(object_box.wlh)",
                 "label_and_visibility_as_given", "result.semantic_label is semantic_label and result.visibility is visibility",
                 "lidar_point_count_of_the_annotation", f"result.pointcloud_num == {ANN('object_box', 'num_lidar_pts')}",
                 "full_confidence", "result.semantic_score == 1",
                 "tracking_data_only_in_tracking_tasks", "result.has_tracking_data == (evaluation_task is EvaluationTask.TRACKING)",
                 "a_new_object", "is_new(result) and allocated(result)")
    P.verify(f"{DU}:_convert_nuscenes_box_to_dynamic_object", name="_convert_nuscenes_box_to_dynamic_object",
             contract=Contract(f"{DU}:_convert_nuscenes_box_to_dynamic_object", cut=False, params=conv_params, ensures=conv_ens),
             extra_contracts=dict(ctors, **{idx.lookup(f"{DU}:_get_tracking_data").fq: track_cut, idx.lookup(f"{DU}:_get_box_velocity").fq: vel_cut}))
    # ---------------------------------------------------------------- one sample -> one frame
    conv_cut = Contract(f"{DU}:_convert_nuscenes_box_to_dynamic_object", params={}, returns=DO, ensures=conv_ens)
    LC = idx.lookup("common.label:LabelConverter")
    label_cut = Contract("common.label:LabelConverter.convert_label", params={}, returns=LAB,
                         ensures=E("named", "id(result) == uf_int('converted_label', self, name, attributes)"))
    vis_cut = Contract("common.schema:Visibility.from_value", params={}, returns=TEnum(VIS), ensures=E("named", "result is visibility_of_level(name)"))
    tf_cut = Contract(f"{DU}:_get_transforms", params={}, returns=TOpaque("matrices"))
    boxes_cut = Contract(f"{DU}:_get_sample_boxes", params={}, returns=TSList(BOX),
                         raises={"ValueError": "frame_id is not FrameID.BASE_LINK and frame_id is not FrameID.MAP"},
                         ensures=E("ego_frame_boxes_for_base_link", "implies(frame_id is FrameID.BASE_LINK, result is boxes_ego(nusc, sample_data_token))",
                                   "global_boxes_for_map", "implies(frame_id is FrameID.MAP, result is boxes_map(nusc, sample_data_token))",
                                   "one_of_the_two", "frame_id is FrameID.BASE_LINK or frame_id is FrameID.MAP"))

    def visibility_of_level(interp, e, fr):
        v = interp.ev(e.args[0], fr)
        f = _z3.Function("visibility_of_level", _z3.StringSort(), I)
        z = f(v.z if v.const is None else _z3.StringVal(v.const))
        interp.ctx.assume(_z3.And(0 <= z, z < len(interp.ctx.enum_members(VIS))))
        return VEnum(VIS, z)

    def same_quat(interp, e, fr):
        a, b = interp.ev(e.args[0], fr), interp.ev(e.args[1], fr)
        return VBool(a.z == b.z)
    P.install(lambda it: it.spec_funcs.update(visibility_of_level=visibility_of_level, same_quat=same_quat))
    CH = "('LIDAR_TOP' if channel_present(nusc, sample_token, 'LIDAR_TOP') else 'LIDAR_CONCAT')"
    SDT = f"channel_token(nusc, sample_token, {CH})"
    BOXES = f"(boxes_ego(nusc, {SDT}) if frame_id is FrameID.BASE_LINK else boxes_map(nusc, {SDT}))"
    bx = lambda k: f"{BOXES}[{k}]"
    inst = lambda k: ANN(bx(k), "instance_token", "str")
    attr_names_ok = lambda o, k: (f"len({o}.semantic_label.attributes) >= 0")
    vis_of = lambda k: f"visibility_of_level(db_str(nusc, 'visibility', {ANN(bx(k), 'visibility_token', 'str')}, 'level'))"
    per_obj = lambda objs, k: (f"{objs}[{k}].uuid == {inst(k)} and {objs}[{k}].position == vec3({bx(k)}.center) and {objs}[{k}].size == vec3({bx(k)}.wlh) and "
                               f"same_quat({objs}[{k}].orientation, {bx(k)}.orientation) and {objs}[{k}].pointcloud_num == {ANN(bx(k), 'num_lidar_pts')} and "
                               f"{objs}[{k}].unix_time == db_int(nusc, 'sample', sample_token, 'timestamp') and {objs}[{k}].frame_id is frame_id and "
                               f"({objs}[{k}].visibility is None if visibility_rows(nusc) == 0 else {objs}[{k}].visibility is {vis_of(k)}) and "
                               f"{objs}[{k}].has_tracking_data == (evaluation_task is EvaluationTask.TRACKING)")
    inv = E("one_object_per_box_so_far", "len(objects_) == i and not is_old(objects_)",
            "each_object_is_built_from_its_own_box_and_annotation", f"forall(k, 0, i, {per_obj('objects_', 'k')})",
            "objects_exist", "forall(k, 0, i, allocated(objects_[k]) and not is_old(objects_[k]))",
            "still_the_boxes_of_this_sample", f"object_boxes is {BOXES} and unix_time_ == db_int(nusc, 'sample', sample_token, 'timestamp')")
    sf_params = {"nusc": nusc, "helper": helper, "sample_token": TStr(), "evaluation_task": TEnum(ET),
                 "label_converter": lambda it: it.ctx.new_cell("obj", {}, LC), "frame_id": TEnum(FID), "frame_name": TStr(), "load_raw_data": VBool(False)}
    P.verify(f"{DU}:_sample_to_frame", name="_sample_to_frame",
             contract=Contract(f"{DU}:_sample_to_frame", cut=False, params=sf_params, locals={"objects_": TSList(DO), "#comp1": TStr()},
                               raises={"ValueError": "(not channel_present(nusc, sample_token, 'LIDAR_TOP') and not channel_present(nusc, sample_token, 'LIDAR_CONCAT')) or "
                                                     "(frame_id is not FrameID.BASE_LINK and frame_id is not FrameID.MAP) or evaluation_task is EvaluationTask.FP_VALIDATION or evaluation_task is EvaluationTask.FP_VALIDATION2D"},
                               loops={1: LoopSpec(index="i", invariants=inv)},
                               ensures=E("time_stamp_and_name", "result.unix_time == db_int(nusc, 'sample', sample_token, 'timestamp') and result.frame_name == frame_name",
                                         "one_object_per_annotation_box", f"len(result.objects) == len({BOXES})",
                                         "objects_reproduce_their_annotations_in_order", f"forall(k, 0, len(result.objects), {per_obj('result.objects', 'k')})",
                                         "no_raw_data_unless_requested", "not result.has_raw_data")),
             extra_contracts=dict(ctors, **{idx.lookup(f"{DU}:_convert_nuscenes_box_to_dynamic_object").fq: conv_cut,
                                            idx.lookup("common.label:LabelConverter.convert_label").fq: label_cut,
                                            idx.lookup("common.schema:Visibility.from_value").fq: vis_cut,
                                            idx.lookup(f"{DU}:_get_transforms").fq: tf_cut, idx.lookup(f"{DU}:_get_sample_boxes").fq: boxes_cut}))
    P.trust("nuscenes-devkit as an abstract database (externals/devkit.py): records are functions of (table, token, field); get_sample_data / get_boxes return lists "
            "determined by (database, token); the geometric relation between the two lists (inverse ego pose, lidar at the ego origin) is the devkit's — ASSUMED, harness only")
    P.uncover("the label clause inside _sample_to_frame is carried by the converter's named contract (C14 decides what convert_label returns); the attribute NAMES passed to it are "
              "a comprehension over the annotation's attribute tokens, not re-stated in the postcondition")
    P.uncover("_load_dataset (one frame per sample in table order: a loop around NuScenes(...) construction and tqdm), _get_transforms (sensor matrices), _get_tracking_data "
              "(past poses through PredictHelper), map-frame pose = annotated global pose, ego pose relation, 2-D loaders: bounded harness on generated datasets only")
    P.bounded.append(dict(what="generated T4/nuScenes-format dataset directories loaded with the real load_all_datasets (detection / tracking / sensing, base_link and map, merge on/off, "
                               "with and without a visibility table, LIDAR_TOP or LIDAR_CONCAT): one frame per sample in order with its time stamp; per annotation instance id, converted "
                               "label + attributes, size, point count, visibility, pose (global in map, inverse ego pose in base_link), the frame's ego->map transform maps one onto the "
                               "other, tracking history = the instance's preceding annotations",
                          bound="12 random datasets per run (1-4 samples, 0-5 instances appearing / disappearing, 11 categories in and outside the label table)", where="replay/C16.py"))
