"""C01 / C02 native harness: the real get_object_results on small random scenes against the property statements."""
import itertools
import random
import sys

from common import main, budget
import build

LABELS = ["car", "pedestrian", "bicycle", "unknown", "truck"]
GT_LABELS = LABELS + ["false_positive"]
PID = "C01"


def scene(rnd, n_est, n_gt, fpv):
    pts = [-6.0, -3.5, -2.0, -0.5, 0.0, 1.0, 2.5, 4.0, 7.0]
    mk = lambda labels, i, score: dict(label=rnd.choice(labels), x=rnd.choice(pts) + 0.01 * i, y=rnd.choice(pts) - 0.013 * i, yaw=rnd.choice([0.0, 0.4, 1.2]),
                                       size=rnd.choice([(1.0, 2.0, 1.0), (2.0, 4.5, 1.5), (0.6, 0.6, 1.7)]), score=score,
                                       frame="base_link", uuid=str(i), z=rnd.choice([0.0, 0.0, 0.9, -0.6]))
    est = [mk(LABELS, i, rnd.choice([0.2, 0.5, 0.9])) for i in range(n_est)]
    gt = [mk(GT_LABELS if fpv else LABELS, 100 + i, 1.0) for i in range(n_gt)]
    # ground truths come from a dataset: their labels keep the dataset's spelling and attributes, which the estimates' labels do not share
    for g in gt:
        if rnd.random() < 0.5:
            g["raw_name"] = "vehicle." + g["label"]
            g["attributes"] = rnd.choice([[], ["vehicle_state.moving"]])
    if rnd.random() < 0.3 and est and gt:       # mixed frames: never paired
        rnd.choice(est + gt)["frame"] = "map"
    # look-alikes: a second object with the same time, label and pose (value-equal under DynamicObject.__eq__) but another size or frame —
    # the matcher works on positions in the lists, so which of the two is meant must never be decided by ==
    for lst in (est, gt):
        if lst and rnd.random() < 0.25:
            src = rnd.choice(lst)
            twin = dict(src, uuid=src["uuid"] + "twin", size=rnd.choice([s for s in [(1.0, 2.0, 1.0), (2.0, 4.5, 1.5), (0.6, 0.6, 1.7)] if s != tuple(src["size"])]))
            if rnd.random() < 0.3:
                twin["frame"] = "map" if src["frame"] == "base_link" else "base_link"
            lst.insert(rnd.randint(0, len(lst)), twin)
    return est, gt


TL = ["green", "red", "yellow", "unknown"]


def scene2d(rnd, n_est, n_gt):
    """2-D objects that carry a ROI (detection2d / tracking2d): traffic lights or ordinary labels, uuids set, one or two cameras"""
    fam = rnd.choice(["traffic_light", "autoware"])
    labs = TL if fam == "traffic_light" else LABELS
    cams = ["cam_traffic_light"] if fam == "traffic_light" and rnd.random() < 0.7 else ["cam_front", "cam_back"]
    mk = lambda i, score: dict(label=rnd.choice(labs), family=fam, roi=(rnd.choice([0, 40, 100, 300, 320]) + i, rnd.choice([0, 30, 200]) + 2 * i, rnd.choice([20, 50, 90]), rnd.choice([20, 60])),
                               score=score, frame=rnd.choice(cams), uuid=str(i))
    est = [mk(i, rnd.choice([0.2, 0.5, 0.9])) for i in range(n_est)]
    gt = [mk(i, 1.0) for i in range(n_gt)]
    rnd.shuffle(gt)       # the list order must not decide who is paired with whom
    return est, gt


def obj2d(d):
    from perception_eval.common.object2d import DynamicObject2D
    from perception_eval.common.schema import FrameID
    return DynamicObject2D(0, FrameID.from_value(d["frame"]), d["score"], build.label(d["label"], family=d["family"]), roi=tuple(d["roi"]), uuid=d["uuid"])


def run(case):
    from perception_eval.common.evaluation_task import EvaluationTask
    from perception_eval.evaluation.matching.object_matching import MatchingMode, MatchingLabelPolicy
    from perception_eval.evaluation.result.object_result import get_object_results
    mk = obj2d if case.get("dim") == "2d" else build.obj3d
    est = [mk(d) for d in case["est"]]
    gt = [mk(d) for d in case["gt"]]
    e0, g0 = list(est), list(gt)
    tf = build.transforms(dict(x=0.0, y=0.0, yaw=0.0))
    if case.get("dim") != "2d" or case["targets"] is None:
        targets = build.labels(case["targets"])
    else:
        targets = [build.label(n, family=case["est"][0]["family"] if case["est"] else "autoware").label for n in case["targets"]]
    res = get_object_results(EvaluationTask(case["task"]), est, gt, target_labels=targets,
                             matching_label_policy=MatchingLabelPolicy(case["policy"]), matching_mode=MatchingMode(case["mode"]),
                             matchable_thresholds=case["radii"], transforms=tf)
    return est, gt, e0, g0, res, tf


def matchable(policy, e, g):
    if g["label"] == "false_positive" or policy == "ALLOW_ANY":
        return True
    if policy == "ALLOW_UNKNOWN":
        return e["label"] == g["label"] or e["label"] == "unknown"
    return e["label"] == g["label"]


def check(case):
    from perception_eval.evaluation.matching.object_matching import MatchingMode
    from perception_eval.evaluation.result.object_result import _get_matching_module
    try:
        est, gt, e0, g0, res, tf = run(case)
    except Exception as ex:
        return f"get_object_results raised {type(ex).__name__}: {ex}"
    if PID == "C01" and (est != e0 or gt != g0 or any(a is not b for a, b in zip(est + gt, e0 + g0))):
        return "the caller's lists were modified"
    fpv = case["task"].startswith("fp_validation")
    ei = [next((i for i, o in enumerate(e0) if o is r.estimated_object), None) for r in res]
    gi = [None if r.ground_truth_object is None else next((i for i, o in enumerate(g0) if o is r.ground_truth_object), -1) for r in res]
    if None in ei or -1 in gi:
        return "a result holds an object that was not in the input"
    if len(set(ei)) != len(ei):
        return f"an estimate occurs in two results: {ei}"
    pg = [j for j in gi if j is not None]
    if len(set(pg)) != len(pg):
        return f"a ground truth occurs in two results: {gi}"
    # completeness clauses belong to C01 only (C02 is about which pairs are formed)
    if PID == "C01" and not fpv and sorted(ei) != list(range(len(e0))):
        return f"estimates {sorted(set(range(len(e0))) - set(ei))} appear in no result"
    if PID == "C01" and fpv and None in gi:
        return "FP-validation kept an unpaired estimate"
    # the oracle's own reading of the four modes (not the code's dispatch table, which is under test): IoU scores are better when larger
    from perception_eval.evaluation.matching import object_matching as _om
    module = {"Center Distance": _om.CenterDistanceMatching, "Plane Distance": _om.PlaneDistanceMatching, "IoU 2D": _om.IOU2dMatching, "IoU 3D": _om.IOU3dMatching}[case["mode"]]
    maximize = case["mode"].startswith("IoU")
    better = (lambda a, b: a > b) if maximize else (lambda a, b: a < b)

    def radius(j):
        t, r = case["targets"], case["radii"]
        if t is None or r is None or case["gt"][j]["label"] not in t:
            return None
        return r[t.index(case["gt"][j]["label"])]
    sc, ok = {}, {}
    for i, j in itertools.product(range(len(e0)), range(len(g0))):
        m = module(e0[i], g0[j], transforms=tf)
        sc[i, j] = m.value
        ok[i, j] = e0[i].frame_id == g0[j].frame_id and (radius(j) is None or better(m.value, radius(j)))
    for i, j in zip(ei, gi):
        if j is not None and not ok[i, j]:
            return f"estimate {i} is paired with ground truth {j} although they are in different frames or beyond the matchable radius"
    if PID == "C02":
        pol = case["policy"]
        pair = {i: j for i, j in zip(ei, gi) if j is not None}
        rp = {j: i for i, j in pair.items()}
        comp = {(i, j): matchable(pol, case["est"][i], case["gt"][j]) for (i, j) in sc}
        at_least = lambda a, b: a == b or better(a, b)
        for (i, j), s in sc.items():
            if not ok[i, j] or pair.get(i) == j:
                continue
            ci = i in pair and comp[i, pair[i]]
            cj = j in rp and comp[rp[j], j]
            if comp[i, j]:
                if not ((ci and at_least(sc[i, pair[i]], s)) or (cj and at_least(sc[rp[j], j], s))):
                    return f"blocking compatible pair (estimate {i}, ground truth {j}, score {s}): neither is matched compatibly at least as well"
            else:
                if not (ci or cj or (i in pair and at_least(sc[i, pair[i]], s)) or (j in rp and at_least(sc[rp[j], j], s))):
                    return f"blocking pair (estimate {i}, ground truth {j}, score {s}): neither is matched compatibly or at least as well"
        vals = [v for k, v in sc.items() if ok[k]]
        if len(set(vals)) == len(vals):      # no ties: exactly the documented two-stage greedy assignment
            want, fe, fg = {}, set(range(len(e0))), set(range(len(g0)))
            for stage in (1, 2):
                while True:
                    c = [(sc[i, j], i, j) for i in fe for j in fg if ok[i, j] and (stage == 2 or comp[i, j])]
                    if not c:
                        break
                    s, i, j = (max if maximize else min)(c)
                    want[i] = j
                    fe.discard(i)
                    fg.discard(j)
            if want != pair:
                return f"pairs {pair} differ from the two-stage greedy assignment {want}"
    return None


def gen_case(rnd):
    if rnd.random() < 0.2:
        est, gt = scene2d(rnd, rnd.randint(1, 4), rnd.randint(1, 4))
        fam = est[0]["family"]
        targets = rnd.choice([None, TL if fam == "traffic_light" else LABELS])
        mode = rnd.choice(["Center Distance", "IoU 2D"])
        radii = [rnd.choice([0.0, 0.05, 0.3] if mode.startswith("IoU") else [30.0, 100.0, 400.0]) for _ in targets] if targets and rnd.random() < 0.5 else None
        return dict(dim="2d", task=rnd.choice(["detection2d", "tracking2d"]), est=est, gt=gt, targets=targets, policy=rnd.choice(["DEFAULT", "ALLOW_UNKNOWN", "ALLOW_ANY"]), mode=mode, radii=radii)
    fpv = rnd.random() < 0.3
    est, gt = scene(rnd, rnd.randint(0, 4), rnd.randint(0, 4), fpv)
    targets = rnd.choice([None, ["car", "pedestrian", "bicycle", "unknown", "truck"], ["car", "pedestrian"]])
    mode = rnd.choice(["Center Distance", "IoU 2D", "IoU 3D", "Plane Distance"])
    radii = None
    if targets and rnd.random() < 0.6:
        # includes the degenerate radius 0 (nothing is closer than 0; every positive IoU beats 0)
        radii = [rnd.choice([0.0, 0.05, 0.3, 0.6] if mode.startswith("IoU") else [0.0, 1.0, 3.0, 8.0]) for _ in targets]
    if rnd.random() < 0.15:
        # a wide scene (objects kilometres apart, radii absent or wider than the scene): what is paired first is decided by the order of the scores and the
        # label stage alone, whatever the magnitude of the scores
        for d in est + gt:
            d["x"], d["y"] = d["x"] * 450.0, d["y"] * 450.0
        radii = [5000.0 for _ in targets] if (targets and not mode.startswith("IoU") and rnd.random() < 0.5) else None
    return dict(task="fp_validation" if fpv else rnd.choice(["detection", "tracking"]), est=est, gt=gt, targets=targets,
                policy=rnd.choice(["DEFAULT", "ALLOW_UNKNOWN", "ALLOW_ANY"]), mode=mode, radii=radii)


def search(item, seed):
    rnd = random.Random(seed * 31337 + 5)
    # the empty corner cases first
    for task in ("fp_validation", "detection"):
        for ne, ng in ((1, 0), (0, 1), (0, 0), (2, 0)):
            est, gt = scene(rnd, ne, ng, task == "fp_validation")
            case = dict(task=task, est=est, gt=gt, targets=None, policy="DEFAULT", mode="Center Distance", radii=None)
            why = check(case)
            if why:
                return dict(function="get_object_results", input=case, observed=why)
    for _ in range(budget(600)):
        case = gen_case(rnd)
        why = check(case)
        if why:
            return dict(function="get_object_results", input=case, observed=why)
    # the same accounting through the library's own caller (the manager filters both sides, then pairs them): frames without ground truth, frames whose
    # ground truths are all filtered out, frames without estimates
    for case in manager_cases(rnd):
        try:
            why = check_manager(case)
        except Exception as ex:
            why = f"add_frame_result raised {type(ex).__name__}: {ex}"
        if why:
            return dict(function="manager", input=case, observed=why)
    return None


def manager_cases(rnd):
    pts = [-6.0, -2.0, 1.0, 4.0, 9.0]
    labs = ["car", "pedestrian", "bicycle"]
    mk = lambda i, lab, u: dict(label=lab, x=rnd.choice(pts) + 0.01 * i, y=rnd.choice(pts), score=0.5 + 0.05 * i, uuid=u + str(i), pts=5)
    out = []
    for ne, ng, foreign in ((1, 0, 0), (3, 0, 0), (2, 0, 2), (0, 2, 0), (0, 0, 0), (2, 2, 0), (3, 1, 1)):
        est = [mk(i, rnd.choice(labs), "e") for i in range(ne)]
        gt = [mk(i, rnd.choice(labs), "g") for i in range(ng)] + [mk(10 + i, "animal", "x") for i in range(foreign)]     # 'animal' converts to unknown: not a target label here
        out.append(dict(est=est, gt=gt))
    return out


def check_manager(case):
    """every estimate the manager's filter keeps (all of them here: target labels, 100 m ranges) is in exactly one result; every kept ground truth in at most one"""
    import C13 as mg
    from perception_eval.common.dataset import FrameGroundTruth
    targets = ["car", "pedestrian", "bicycle"]
    mgr, ev = mg.manager("detection", targets)
    cof, pfc = mg.crit_cfg(ev, targets, 50.0)
    est = [build.obj3d(d) for d in case["est"]]
    gts = [build.obj3d(d) for d in case["gt"]]
    frame = FrameGroundTruth(0, "0", gts, transforms=build.ego_matrix(None))
    fr = mgr.add_frame_result(0, frame, est, cof, pfc)
    for e in est:
        n = sum(1 for r in fr.object_results if r.estimated_object is e)
        if n != 1:
            return f"estimate {e.uuid} ({e.semantic_label.label.value}) is in {n} results of the frame ({len(est)} estimates, {len(gts)} ground truths loaded, {len(fr.object_results)} results)"
    if len(fr.object_results) != len(est):
        return f"{len(est)} estimates, {len(fr.object_results)} results"
    for g in gts:
        if sum(1 for r in fr.object_results if r.ground_truth_object is g) > 1:
            return f"ground truth {g.uuid} is in more than one result"
    return None


def replay(payload):
    why = check_manager(payload["input"]) if payload.get("function") == "manager" else check(payload["input"])
    return (why is None, why or "ok")


if __name__ == "__main__":
    sys.exit(main(PID, search, replay))
