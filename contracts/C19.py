"""C19 — analysis tables are a faithful tabulation of the frame results.

Under contract (deductive): the per-object status tallies —
  GroundTruthStatus.__init__ / add_status (one frame number appended to `total` and to exactly the list of the status),
  StatusRate.rate, get_scene_rates (rates in [0, 1], a distribution), MatchingStatus predicates,
  get_object_status: for an arbitrary uuid u, the entry of u exists iff some TP / matched-FP / TN / FN item of some frame carries u,
  it is unique, and each of its five lists has exactly one entry per such item (so, with C03's accounting — every critical ground
  truth is in exactly one of those lists of its frame — each ground truth is recorded once per frame).
The DataFrame-level clauses (rows, counts, errors, confusion matrix) are pandas code: bounded native harness only (replay/C19.py).
"""
from pyvc.api import *
from pyvc.lemmas import count_fn2, sum_fn, add_count_lemmas, add_sum_lemmas
import contracts.C10 as C10

ST = "common.status"
FR = "evaluation.result.perception_frame_result"
PF = "evaluation.result.perception_pass_fail_result"
OR = "evaluation.result.object_result"
LISTS = ("total_frame_nums", "tp_frame_nums", "fp_frame_nums", "tn_frame_nums", "fn_frame_nums")
KIND = {"TP": "tp_frame_nums", "FP": "fp_frame_nums", "TN": "tn_frame_nums", "FN": "fn_frame_nums"}


def models(P):
    idx = P.index
    C10.models(P)
    P.model(ClassModel("DynamicObjectWithPerceptionResult", {
        "estimated_object": TSObj("DynamicObject"), "ground_truth_object": TSObj("DynamicObject", nullable=True)},
        repo_class=idx.lookup(f"{OR}:DynamicObjectWithPerceptionResult")))
    gts = P.model(ClassModel("GroundTruthStatus", dict({"uuid": TOpt(TStr())}, **{l: TSList(TInt()) for l in LISTS}),
                             repo_class=idx.lookup(f"{ST}:GroundTruthStatus")))
    gts.alloc_smt = True          # GroundTruthStatus(...) allocates in the SMT heap and runs the real __init__
    P.model(ClassModel("PassFailResult", {"tp_object_results": TSList(TSObj("DynamicObjectWithPerceptionResult")),
                                          "fp_object_results": TSList(TSObj("DynamicObjectWithPerceptionResult")),
                                          "tn_objects": TSList(TSObj("DynamicObject")), "fn_objects": TSList(TSObj("DynamicObject"))},
                       repo_class=idx.lookup(f"{PF}:PassFailResult")))
    P.model(ClassModel("PerceptionFrameResult", {"frame_name": TStr(), "pass_fail_result": TSObj("PassFailResult")},
                       repo_class=idx.lookup(f"{FR}:PerceptionFrameResult")))


def build(P):
    idx = P.index
    models(P)
    P.min_obligations = 40
    add_count_lemmas(P)
    add_sum_lemmas(P)

    def py_int_literal(interp, e, fr):
        from pyvc.builtins import STR_IS_INT
        return VBool(STR_IS_INT(interp.ev(e.args[0], fr).z))
    P.install(lambda it: it.spec_funcs.update(py_int_literal=py_int_literal))
    P.install(lambda it: setattr(it.ctx, "append_carry", True))      # appends to lists that carry existential invariants
    MS = idx.lookup(f"{ST}:MatchingStatus")
    GTS = TSObj("GroundTruthStatus")
    members = [n for n, _ in MS.enum_members(idx)]
    # ---------------------------------------------------------------- GroundTruthStatus: constructor and add_status
    separate = " and ".join(f"self.{a} is not self.{b}" for i, a in enumerate(LISTS) for b in LISTS[i + 1:])
    P.verify(f"{ST}:GroundTruthStatus.__init__", name="GroundTruthStatus.__init__",
             contract=Contract(f"{ST}:GroundTruthStatus.__init__", cut=False, params={"self": GTS, "uuid": TOpt(TStr())},
                               modifies=[("field", "GroundTruthStatus", f) for f in ("uuid",) + LISTS],
                               ensures=E("uuid_kept", "self.uuid == uuid",
                                         "five_empty_lists", " and ".join(f"len(self.{l}) == 0" for l in LISTS),
                                         "lists_are_new_and_separate", " and ".join(f"is_new(self.{l})" for l in LISTS) + " and " + separate)))
    for mi, m in enumerate(members):
        mine = KIND[m]
        others = [l for l in LISTS[1:] if l != mine]
        unchanged = lambda l: f"len(self.{l}) == old(len(self.{l})) and forall(k, 0, len(self.{l}), self.{l}[k] == old(self.{l}[k]))"
        appended = lambda l: (f"len(self.{l}) == old(len(self.{l})) + 1 and self.{l}[len(self.{l}) - 1] == frame_num and "
                              f"forall(k, 0, len(self.{l}) - 1, self.{l}[k] == old(self.{l}[k]))")
        P.verify(f"{ST}:GroundTruthStatus.add_status", name=f"GroundTruthStatus.add_status[{m}]",
                 contract=Contract(f"{ST}:GroundTruthStatus.add_status", cut=False,
                                   params={"self": GTS, "status": VEnum(MS, mi), "frame_num": TInt()},
                                   requires=E("object_owns_separate_lists", separate),
                                   modifies=[f"self.{l}" for l in LISTS],
                                   ensures=E("frame_recorded_in_total", appended("total_frame_nums"),
                                             "frame_recorded_under_its_status", appended(mine),
                                             "other_statuses_untouched", " and ".join(unchanged(l) for l in others),
                                             "same_lists", " and ".join(f"self.{l} is old(self.{l})" for l in LISTS))))
    # ---------------------------------------------------------------- MatchingStatus predicates
    table = {"is_positive": ("TP", "FP"), "is_negative": ("TN", "FN"), "is_true": ("TP", "TN"), "is_false": ("FP", "FN")}
    for fn, yes in table.items():
        P.verify(f"{ST}:MatchingStatus.{fn}", name=f"MatchingStatus.{fn}",
                 contract=Contract(f"{ST}:MatchingStatus.{fn}", cut=False, params={"self": TEnum(MS)},
                                   ensures=E("truth_table", "result == (" + " or ".join(f"self is MatchingStatus.{y}" for y in yes) + ")")))
    # ---------------------------------------------------------------- StatusRate.rate
    SRC = idx.lookup(f"{ST}:StatusRate")

    def make_rate(it):
        o = it.ctx.new_cell("obj", {}, SRC)
        it.ctx.cell(o).update(status=TEnum(MS).fresh(it.ctx, "status"), status_frame_nums=TSList(TInt()).fresh(it.ctx, "status_frames"),
                              total_frame_nums=TSList(TInt()).fresh(it.ctx, "total_frames"))
        return o
    P.verify(f"{ST}:StatusRate.rate", name="StatusRate.rate",
             contract=Contract(f"{ST}:StatusRate.rate", cut=False, params={"self": make_rate},
                               requires=E("status_frames_are_among_the_total", "len(self.status_frame_nums) <= len(self.total_frame_nums)"),
                               ensures=E("ratio_of_frame_counts", "implies(len(self.total_frame_nums) > 0, result == len(self.status_frame_nums) / len(self.total_frame_nums))",
                                         "in_unit_interval_when_defined", "implies(len(self.total_frame_nums) > 0, 0 <= result and result <= 1)",
                                         "a_status_never_seen_has_rate_zero", "implies(len(self.total_frame_nums) > 0 and len(self.status_frame_nums) == 0, result == 0)")))
    # ---------------------------------------------------------------- get_scene_rates: a distribution over the four statuses
    wf = lambda s: f"len({s}.total_frame_nums) == len({s}.tp_frame_nums) + len({s}.fp_frame_nums) + len({s}.tn_frame_nums) + len({s}.fn_frame_nums)"
    SL = "status_list"
    gsum = {}
    defs = []
    for l in LISTS:
        g, d = sum_fn(f"sum_{l}")
        gsum[f"sum_{l}"] = g
        defs += d(lambda k, l=l: f"len({SL}[{k}].{l})", f"len({SL})")
    var = {"total_frame_nums": "num_total_frame", "tp_frame_nums": "num_tp_frame", "fp_frame_nums": "num_fp_frame", "tn_frame_nums": "num_tn_frame", "fn_frame_nums": "num_fn_frame"}
    inv = E("running_totals", " and ".join(f"{var[l]} == sum_{l}(i)" for l in LISTS),
            "tallies_add_up", "num_total_frame == num_tp_frame + num_fp_frame + num_tn_frame + num_fn_frame",
            "input_untouched", f"len({SL}) == old(len({SL}))")
    n = f"len({SL})"
    P.verify(f"{ST}:get_scene_rates", name="get_scene_rates",
             contract=Contract(f"{ST}:get_scene_rates", cut=False, params={SL: TSList(GTS)}, ghosts=gsum, defs=defs,
                               requires=E("every_status_is_well_formed", f"forall(k, 0, {n}, {wf(SL + '[k]')})"),
                               loops={1: LoopSpec(index="i", invariants=inv)},
                               ensures=E("undefined_without_any_tally", f"implies(sum_total_frame_nums({n}) == 0, result[0] == float('inf') and result[1] == float('inf') and result[2] == float('inf') and result[3] == float('inf'))",
                                         "rates_are_the_ratios_of_the_totals",
                                         f"implies(sum_total_frame_nums({n}) > 0, " + " and ".join(
                                             f"result[{i}] == sum_{l}({n}) / sum_total_frame_nums({n})" for i, l in enumerate(LISTS[1:])) + ")",
                                         "each_rate_in_unit_interval",
                                         f"implies(sum_total_frame_nums({n}) > 0, " + " and ".join(f"0 <= result[{i}] and result[{i}] <= 1" for i in range(4)) + ")",
                                         "rates_sum_to_one", f"implies(sum_total_frame_nums({n}) > 0, result[0] + result[1] + result[2] + result[3] == 1)")))
    # ---------------------------------------------------------------- add_status for any status (the contract call sites rely on)
    def add_status_contract(cut):
        grow = lambda l, cond: (f"len(self.{l}) == old(len(self.{l})) + (1 if {cond} else 0) and "
                                f"forall(k, 0, old(len(self.{l})), self.{l}[k] == old(self.{l}[k])) and "
                                f"implies({cond}, self.{l}[len(self.{l}) - 1] == frame_num)")
        return Contract(f"{ST}:GroundTruthStatus.add_status", cut=cut,
                        params={"self": GTS, "status": TEnum(MS), "frame_num": TInt()},
                        requires=E("object_owns_separate_lists", separate),
                        modifies=[f"self.{l}" for l in LISTS],
                        ensures=E("frame_recorded_in_total", grow("total_frame_nums", "True"),
                                  *[x for m, l in KIND.items() for x in (f"{l}_grows_iff_status_is_{m}", grow(l, f"status is MatchingStatus.{m}"))],
                                  "same_lists", " and ".join(f"self.{l} is old(self.{l})" for l in LISTS)))
    P.verify(f"{ST}:GroundTruthStatus.add_status", name="GroundTruthStatus.add_status[any status]", contract=add_status_contract(False))

    # ---------------------------------------------------------------- get_object_status
    S, FRS = "status_infos", "frame_results"
    PFR = lambda g: f"{FRS}[{g}].pass_fail_result"
    LST = {"tp": lambda g: f"{PFR(g)}.tp_object_results", "fp": lambda g: f"{PFR(g)}.fp_object_results",
           "tn": lambda g: f"{PFR(g)}.tn_objects", "fn": lambda g: f"{PFR(g)}.fn_objects"}
    gt_of = lambda kind, g, k: f"{LST[kind](g)}[{k}].ground_truth_object" if kind in ("tp", "fp") else f"{LST[kind](g)}[{k}]"
    EV = {
        "tp": lambda g, k: f"({gt_of('tp', g, k)}.uuid == u)",
        "fp": lambda g, k: (f"({gt_of('fp', g, k)} is not None and {gt_of('fp', g, k)}.semantic_label.label is AutowareLabel.FP and "
                            f"{gt_of('fp', g, k)}.uuid == u)"),
        "tn": lambda g, k: f"({gt_of('tn', g, k)}.uuid == u)",
        "fn": lambda g, k: f"({gt_of('fn', g, k)}.uuid == u)",
    }
    ghosts = {"u": lambda it, fr: TOpt(TStr()).fresh(it.ctx, "u")}
    gdefs = []
    nF = f"len({FRS})"
    for kind in ("tp", "fp", "tn", "fn"):
        g, d = count_fn2(f"c{kind}")
        ghosts[f"c{kind}"] = g
        gdefs += d(EV[kind], nF, lambda gg, kind=kind: f"len({LST[kind](gg)})")
        g, d = sum_fn(f"E{kind}")
        ghosts[f"E{kind}"] = g
        gdefs += d(lambda gg, kind=kind: f"c{kind}({gg}, len({LST[kind](gg)}))", nF)
    FIELD = {"tp": "tp_frame_nums", "fp": "fp_frame_nums", "tn": "tn_frame_nums", "fn": "fn_frame_nums"}

    def inv(f, d):
        """d: kind -> spec text of the number of items of the current frame already tallied"""
        cnt = {k: f"(E{k}({f}) + {d[k]})" for k in FIELD}
        total = "(" + " + ".join(cnt.values()) + ")"
        own_ab = " and ".join(f"{S}[a].{x} is not {S}[b].{y}" for x in LISTS for y in LISTS)
        own_a = " and ".join(f"{S}[a].{x} is not {S}[a].{y}" for i, x in enumerate(LISTS) for y in LISTS[i + 1:])
        alloc_a = (f"allocated({S}[a]) and not is_old({S}[a]) and well_typed({S}[a]) and " +
                   " and ".join(f"allocated({S}[a].{x}) and not is_old({S}[a].{x}) and well_typed({S}[a].{x})" for x in LISTS))
        return E("result_list_is_new", f"not is_old({S})",
                 "entries_are_new_objects_with_their_own_lists", f"forall(a, 0, len({S}), {alloc_a} and {own_a})",
                 "entries_share_no_list", f"forall(a, 0, len({S}), forall(b, 0, len({S}), implies(a != b, {own_ab})))",
                 "one_entry_per_uuid", f"forall(a, 0, len({S}), forall(b, 0, len({S}), implies(a != b, {S}[a].uuid != {S}[b].uuid)))",
                 "an_entry_of_u_means_u_was_tallied", f"forall(a, 0, len({S}), implies({S}[a].uuid == u, {total} > 0))",
                 "u_tallied_means_it_has_an_entry", f"implies({total} > 0, exists(a, 0, len({S}), {S}[a].uuid == u))",
                 "tallies_of_u", f"forall(a, 0, len({S}), implies({S}[a].uuid == u, " +
                 " and ".join(f"len({S}[a].{FIELD[k]}) == {cnt[k]}" for k in FIELD) + f" and len({S}[a].total_frame_nums) == {total}))",
                 "every_entry_adds_up", f"forall(a, 0, len({S}), {wf(S + '[a]')})")
    zero = {k: "0" for k in FIELD}
    full = lambda k: f"c{k}(f, len({LST[k]('f')}))"
    here = E("current_frame", f"0 <= f and f < {nF} and frame_result is {FRS}[f] and frame_num == int({FRS}[f].frame_name)")
    loops = {
        1: LoopSpec(index="f", invariants=inv("f", zero)),
        2: LoopSpec(index="j", invariants=here + inv("f", dict(zero, tp="ctp(f, j)"))),
        3: LoopSpec(index="j", invariants=here + inv("f", dict(zero, tp=full("tp"), fp="cfp(f, j)"))),
        4: LoopSpec(index="j", invariants=here + inv("f", dict(zero, tp=full("tp"), fp=full("fp"), tn="ctn(f, j)"))),
        5: LoopSpec(index="j", invariants=here + inv("f", dict(tp=full("tp"), fp=full("fp"), tn=full("tn"), fn="cfn(f, j)"))),
    }
    R_ = "result"
    tot_all = "(" + " + ".join(f"E{k}({nF})" for k in FIELD) + ")"
    c_gos = Contract(
        f"{FR}:get_object_status", cut=False,
        params={FRS: TSList(TSObj("PerceptionFrameResult"))}, returns=TSList(GTS), locals={S: TSList(GTS)},
        ghosts=ghosts, defs=gdefs, loops=loops,
        requires=E("tp_results_carry_their_ground_truth", f"forall(g, 0, {nF}, forall(k, 0, len({LST['tp']('g')}), {gt_of('tp', 'g', 'k')} is not None))"),
        raises={"ValueError": f"exists(g, 0, {nF}, not py_int_literal({FRS}[g].frame_name))"},
        ensures=E("one_entry_per_uuid", f"forall(a, 0, len({R_}), forall(b, 0, len({R_}), implies(a != b, {R_}[a].uuid != {R_}[b].uuid)))",
                  "u_has_an_entry_iff_some_item_carries_it", f"exists(a, 0, len({R_}), {R_}[a].uuid == u) == ({tot_all} > 0)",
                  "each_item_carrying_u_is_tallied_exactly_once_under_its_status",
                  f"forall(a, 0, len({R_}), implies({R_}[a].uuid == u, " + " and ".join(f"len({R_}[a].{FIELD[k]}) == E{k}({nF})" for k in FIELD) +
                  f" and len({R_}[a].total_frame_nums) == {tot_all}))",
                  "every_entry_adds_up", f"forall(a, 0, len({R_}), {wf(R_ + '[a]')})",
                  "result_is_new", f"not is_old({R_})"))
    P.verify(f"{FR}:get_object_status", name="get_object_status", contract=c_gos,
             extra_contracts={idx.lookup(f"{ST}:GroundTruthStatus.add_status").fq: add_status_contract(True)})
    P.bounded.append(dict(what="table-level clauses on a real PerceptionAnalyzer3D: one row pair per TP/FP/TN/FN item in list order, ego-frame x/y/yaw/distance, num_* counts, "
                               "calculate_error = ground truth minus estimate (yaw wrapped), summarize_error mean/rms/max, rates in [0,1], confusion matrix total, "
                               "and get_object_status / get_scene_rates end to end",
                          bound="60 random cases per run (1-2 scenes x 1-3 frames x up to 4 ground truths + spurious estimates; ego and map frame; 1/3/9 areas; "
                                "detection and FP validation)", where="replay/C19.py"))
    # ownership of the five lists: no statement of the package outside GroundTruthStatus.__init__ assigns these attributes (scan of every module's AST, every run)
    import ast as _ast
    init_node = idx.lookup(f"{ST}:GroundTruthStatus.__init__").node
    inside = {id(n) for n in _ast.walk(init_node)}
    offenders = []
    for mname, mod in idx.modules.items():
        other_self = set()      # `self.<name> = ...` inside another class is that class's own attribute
        for cnode in _ast.walk(mod.tree):
            if isinstance(cnode, _ast.ClassDef) and cnode.name != "GroundTruthStatus":
                other_self |= {id(n) for n in _ast.walk(cnode) if isinstance(n, _ast.Attribute) and isinstance(n.value, _ast.Name) and n.value.id == "self"}
        for n in _ast.walk(mod.tree):
            if (isinstance(n, _ast.Attribute) and isinstance(n.ctx, (_ast.Store, _ast.Del)) and n.attr in LISTS and id(n) not in inside
                    and id(n) not in other_self):
                offenders.append(f"{mname}:{n.lineno}")
    P.lemma("status_lists_are_assigned_only_by_the_constructor", lambda z, offenders=tuple(offenders): ([], z.BoolVal(not offenders)))
    P.assume("a GroundTruthStatus owns the five lists its constructor creates: proved for __init__ (new, pairwise separate), carried as loop invariants in "
             "get_object_status, and no other statement of the package assigns these attributes (syntactic scan on every run)")
    P.assume("int(frame_name) is an uninterpreted parse with ValueError on non-literals (py_int_of_str / py_str_is_int_literal)")
    P.assume("the quantification over u (an arbitrary Optional[str]) is a free symbolic constant of the task: every obligation holds for all u")
    P.uncover("contents of the frame-number lists beyond their lengths and the last element written by add_status (which frame number sits at which position) are not "
              "stated for get_object_status; decided only by the bounded harness")
    P.uncover("every DataFrame-level clause of the statement (rows, counts, errors, rates, confusion matrix, area index) — pandas/numpy outside the verifier; bounded harness only")
    P.uncover("'each ground truth once per frame' needs C03's accounting (a critical ground truth is in exactly one of TP / matched FP / TN / FN of its frame) as a premise; "
              "the composition is stated, not a discharged obligation")
