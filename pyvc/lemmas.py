"""Induction lemmas over ghost spec functions, proved on every run (two VCs each: base, step).

The induction principle over the naturals is the only meta-level step; each VC is discharged by z3."""
import z3

I, B = z3.IntSort(), z3.BoolSort()


def count_fn(name, step_trigger=False):
    """ghost prefix-count function and its defining axioms as spec text.
    returns (ghost builder, defs(pred_of_k, n)); step_trigger: the step axiom is instantiated only where name(k + 1) occurs
    (no chain name(k) -> name(k + 1) -> name(k + 2) ... of instances)"""
    from .values import VSpecFn, VInt
    from .ops import to_int_z
    f = z3.Function(name, I, I)
    ghost = lambda it, fr: VSpecFn(lambda interp, args: VInt(f(to_int_z(args[0]))), name)

    def defs(pred, n):
        """pred: python function index-text -> spec text"""
        return [
            (f"{name}.def.zero", f"{name}(0) == 0"),
            (f"{name}.def.step", f"forall(k, 0, {n}, {name}(k + 1) == {name}(k) + (1 if ({pred('k')}) else 0)" + (f", {name}(k + 1))" if step_trigger else ")")),
            # consequences proved abstractly by the lemma tasks of add_count_lemmas (stated pairwise, DESIGN 2.5)
            (f"{name}.lemma.monotone", f"forall(j, 0, {n} + 1, forall(k, 0, {n} + 1, implies(j <= k, {name}(j) <= {name}(k))))"),
            (f"{name}.lemma.bounded", f"forall(k, 0, {n} + 1, 0 <= {name}(k) and {name}(k) <= k)"),
            (f"{name}.lemma.increments_at_most_one", f"forall(j, 0, {n} + 1, forall(k, 0, {n} + 1, implies(j <= k, {name}(k) - {name}(j) <= k - j)))"),
            (f"{name}.lemma.strict_after_hit", f"forall(j, 0, {n}, forall(k, 0, {n} + 1, implies(j < k and ({pred('j')}), {name}(j) < {name}(k))))"),
        ]
    return ghost, defs


def int_fn(name, arity=1, real=False):
    """ghost integer (or real) function of integer arguments (definitions are given as contract defs)"""
    from .values import VSpecFn, VInt, VReal
    from .ops import to_int_z
    f = z3.Function(name, *([I] * arity), z3.RealSort() if real else I)
    wrap = VReal if real else VInt
    return lambda it, fr: VSpecFn(lambda interp, args: wrap(f(*[to_int_z(a) for a in args])), name)


def running_total(name, real=False):
    """name(0) = 0, name(g + 1) = name(g) + term(g) for 0 <= g < n: a running total without sign assumptions.
    returns (ghost builder, defs(term_of_g, n))"""
    ghost = int_fn(name, 1, real=real)

    def defs(term, n):
        return [(f"{name}.def.zero", f"{name}(0) == 0"),
                (f"{name}.def.step", f"forall(g, 0, {n}, {name}(g + 1) == {name}(g) + ({term('g')}))")]
    return ghost, defs


def count_fn2(name):
    """family of prefix counts indexed by an outer position g: name(g, k) = #{m < k : pred(g, m)}.
    returns (ghost builder, defs(pred_of_g_k, outer_n, inner_n_of_g)); for each fixed g the lemmas of add_count_lemmas apply"""
    ghost = int_fn(name, 2)

    def defs(pred, outer, inner):
        n = inner("g")
        return [
            (f"{name}.def.zero", f"forall(g, 0, {outer}, {name}(g, 0) == 0)"),
            (f"{name}.def.step", f"forall(g, 0, {outer}, forall(k, 0, {n}, {name}(g, k + 1) == {name}(g, k) + (1 if ({pred('g', 'k')}) else 0)))"),
            (f"{name}.lemma.bounded", f"forall(g, 0, {outer}, forall(k, 0, {n} + 1, 0 <= {name}(g, k) and {name}(g, k) <= k))"),
            (f"{name}.lemma.monotone", f"forall(g, 0, {outer}, forall(j, 0, {n} + 1, forall(k, 0, {n} + 1, implies(j <= k, {name}(g, j) <= {name}(g, k)))))"),
        ]
    return ghost, defs


def sum_fn(name):
    """running total over an outer index: name(0) = 0, name(g + 1) = name(g) + term(g), terms non-negative.
    returns (ghost builder, defs(term_of_g, n)); non-negativity / monotonicity are the lemmas of add_sum_lemmas"""
    ghost = int_fn(name, 1)

    def defs(term, n):
        return [
            (f"{name}.def.zero", f"{name}(0) == 0"),
            (f"{name}.def.step", f"forall(g, 0, {n}, {name}(g + 1) == {name}(g) + ({term('g')}))"),
            (f"{name}.lemma.non_negative", f"forall(g, 0, {n} + 1, {name}(g) >= 0)"),
            (f"{name}.lemma.monotone", f"forall(g, 0, {n} + 1, forall(h, 0, {n} + 1, implies(g <= h, {name}(g) <= {name}(h))))"),
        ]
    return ghost, defs


def add_sum_lemmas(P):
    """a running total of non-negative terms is non-negative and non-decreasing (induction, two VCs each)"""
    s_, t_ = z3.Function("s", I, I), z3.Function("t", I, I)
    k, j = z3.Ints("k j")
    defs = [s_(0) == 0, z3.ForAll([k], z3.Implies(k >= 0, z3.And(s_(k + 1) == s_(k) + t_(k), t_(k) >= 0)))]
    P.lemma("sum.non_negative.base", lambda z: (defs, s_(0) >= 0))
    P.lemma("sum.non_negative.step", lambda z: (defs + [k >= 0, s_(k) >= 0], s_(k + 1) >= 0))
    P.lemma("sum.monotone.base", lambda z: (defs + [j >= 0], s_(j) <= s_(j)))
    P.lemma("sum.monotone.step", lambda z: (defs + [j >= 0, k >= j, s_(j) <= s_(k)], s_(j) <= s_(k + 1)))


def pred_fn(name, arity=2, trigger=False):
    """ghost predicate over integer indices: keeps large definitions out of the quantifier bodies that use them.
    returns (ghost builder, defs(expansion(k, j), n, m))"""
    from .values import VSpecFn, VBool
    from .ops import to_int_z
    f = z3.Function(name, *([I] * arity), B)
    ghost = lambda it, fr: VSpecFn(lambda interp, args: VBool(f(*[to_int_z(a) for a in args])), name)

    def defs(expansion, n, m=None):
        if arity == 1:
            if trigger:
                # instantiate the definition exactly where the predicate is used (terms of the expansion may live in an older heap state)
                return [(f"{name}.def", f"forall(k, 0, {n}, {name}(k) == ({expansion('k')}), {name}(k))")]
            return [(f"{name}.def", f"forall(k, 0, {n}, {name}(k) == ({expansion('k')}))")]
        return [(f"{name}.def", f"forall(k, 0, {n}, forall(j, 0, {m}, {name}(k, j) == ({expansion('k', 'j')})))")]
    return ghost, defs


def add_count_lemmas(P):
    """abstract statements about any prefix count c of any predicate p, by induction on k"""
    c = z3.Function("c", I, I)
    p = z3.Function("p", I, B)
    k, j, n = z3.Ints("k j n")
    defs = [c(0) == 0, z3.ForAll([k], z3.Implies(k >= 0, c(k + 1) == c(k) + z3.If(p(k), 1, 0)))]

    def mono_base(z):
        return defs, z3.ForAll([j], z3.Implies(z3.And(0 <= j, j <= 0), c(j) <= c(0)))

    def mono_step(z):
        ih = z3.ForAll([j], z3.Implies(z3.And(0 <= j, j <= k), c(j) <= c(k)))
        return defs + [k >= 0, ih], z3.ForAll([j], z3.Implies(z3.And(0 <= j, j <= k + 1), c(j) <= c(k + 1)))

    def bound_base(z):
        return defs, z3.And(0 <= c(0), c(0) <= 0)

    def bound_step(z):
        return defs + [k >= 0, 0 <= c(k), c(k) <= k], z3.And(0 <= c(k + 1), c(k + 1) <= k + 1)

    def strict_base(z):
        # j < k and p(j) => c(j) < c(k): induction on k from j+1
        return defs + [j >= 0, p(j)], c(j) < c(j + 1)

    def strict_step(z):
        return defs + [j >= 0, k > j, c(j) < c(k)], c(j) < c(k + 1)

    def lip_base(z):
        return defs + [j >= 0], c(j) - c(j) <= 0

    def lip_step(z):
        return defs + [j >= 0, k >= j, c(k) - c(j) <= k - j], c(k + 1) - c(j) <= k + 1 - j

    P.lemma("count.increments_at_most_one.base", lip_base)
    P.lemma("count.increments_at_most_one.step", lip_step)
    for nm, b in (("count.monotone.base", mono_base), ("count.monotone.step", mono_step), ("count.bounded.base", bound_base),
                  ("count.bounded.step", bound_step), ("count.strict_after_hit.base", strict_base), ("count.strict_after_hit.step", strict_step)):
        P.lemma(nm, b)


def rank_inverse(name, count, miss):
    """ghost inverse of the order-preserving enumeration of the indices k that MISS the counted predicate: k -> k - count(k).
    name(k - count(k)) == k for every missing k (well defined: the enumeration is injective); the listed consequence — every position
    below n - count(n) is the rank of a missing index below n — is proved abstractly by add_rank_lemmas (induction on n).
    returns (ghost builder, defs(n)); `miss(k)`: spec text of 'k misses the predicate'"""
    ghost = int_fn(name, 1)

    def defs(n):
        return [(f"{name}.def", f"forall(k, 0, {n}, implies({miss('k')}, {name}(k - {count}(k)) == k), {count}(k))"),
                (f"{name}.lemma.onto", f"forall(g, 0, {n} + 1, forall(q, 0, g - {count}(g), 0 <= {name}(q) and {name}(q) < g and ({miss(f'{name}(q)')}) and "
                                       f"{name}(q) - {count}({name}(q)) == q))")]
    return ghost, defs


def add_rank_lemmas(P):
    """for any prefix count c of any predicate p and any u with u(k - c(k)) = k on the k missing p: every q < n - c(n) is the rank of a missing k < n"""
    c = z3.Function("c", I, I)
    p = z3.Function("p", I, B)
    u = z3.Function("u", I, I)
    k, q, n = z3.Ints("k q n")
    defs = [c(0) == 0, z3.ForAll([k], z3.Implies(k >= 0, c(k + 1) == c(k) + z3.If(p(k), 1, 0))),
            z3.ForAll([k], z3.Implies(z3.And(k >= 0, z3.Not(p(k))), u(k - c(k)) == k))]
    claim = lambda m: z3.ForAll([q], z3.Implies(z3.And(0 <= q, q < m - c(m)), z3.And(0 <= u(q), u(q) < m, z3.Not(p(u(q))), u(q) - c(u(q)) == q)))
    P.lemma("rank.onto.base", lambda z: (defs, claim(z3.IntVal(0))))
    P.lemma("rank.onto.step", lambda z: (defs + [n >= 0, claim(n)], claim(n + 1)))
