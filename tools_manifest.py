#!/usr/bin/env python3
"""Regenerates MANIFEST.json from the table below (kept as code so the file is always schema-valid)."""
import json, os
HERE = os.path.dirname(os.path.abspath(__file__))
BASELINE = "cd /repo && /venv/bin/python -m pytest -ra -q -p no:cacheprovider --timeout=900 --continue-on-collection-errors"
TECH = "contract-based deductive verification: VCs generated from the repository AST by /verif/pyvc, discharged by z3 (cvc5 on unknowns)"
CLAIMED = {
    "C20": dict(text="Every string parser of a configuration enum is verified against a postcondition taken from the statement, for a symbolic "
                     "input string and all members read from the class body: 258 obligations, all discharged for all strings; call sites "
                     "(Shape, TransformKey) are checked against the parsers' contracts, not their bodies.",
                note="Trusted: z3/cvc5, the VC generator, string case mapping as an uninterpreted idempotent function with ground instances at literals; "
                     "set_task is held to the round trip only.", ref="5/C20"),
    "C14": dict(text="LabelConverter.__init__/convert_label/convert_name and set_target_lists are verified for every label configuration with a "
                     "symbolic name: total, function of lower(name), documented rows, canonical names, unknown fallback, merged == merge(unmerged), "
                     "target lists use the same mapping. About 1400 obligations, tables unrolled exactly from the AST.",
                note="Trusted: z3/cvc5, the VC generator, str.lower uninterpreted+idempotent with ground instances at literals; the documented table is "
                     "transcribed by hand from docs/en/perception/label.md; documentation rows naming non-existent members decide nothing.", ref="5/C14"),
    "C17": dict(text="get_now_frame and get_interpolated_now_frame are verified for all time-ordered frame lists, query times and tolerances (argmin loop invariant; four-way neighbour "
                     "outcome from the statement); interpolate_list is the exact linear interpolation (on-segment and exact-at-the-ends lemmas). Object interpolation is verified too: "
                     "interpolate_quaternion / interpolate_state / interpolate_dynamic_object / interpolate_object (position and velocity linear, orientation slerp at the proportional "
                     "time, same id and frame, stamped int(t), a new object) and interpolate_object_list (two-stage invariant proof over three loops: ids matched by uuid are "
                     "interpolated from their first partner, objects of either neighbour without a partner are kept as copies, every id exactly once).",
                note="interpolate_ground_truth_frames itself is cut at an *assumed* contract (stamped with the query time, built from the two frames passed): its body (matrix interpolation, "
                     "conversion to the map frame, deepcopy) is exercised by the bounded harness only. Assumed: pyquaternion slerp is a function with the right end points (shortest arc "
                     "is the library's), deepcopy copies field values, ids unique and not None. One obligation is discharged by cvc5 after z3's e-matching gives up. Floats as reals.", ref="5/C17"),
    "C10": dict(text="_is_target_object is verified to compute exactly the statement's keep predicate (clause by clause, both directions) for a symbolic "
                     "object and all parameter lists; get_label_threshold against first-matching-target semantics; filter_objects and filter_object_results "
                     "are verified (loop invariants over a ghost prefix count, induction lemmas proved on every run) to return exactly the kept elements in "
                     "order, in a new list, input untouched; a result goes when either side fails.",
                note="filter_* use the callee only through an abstract contract kept(o, all arguments) (modular); TransformDict.transform is an assumed contract "
                     "(identity on X->X, else uninterpreted); np.mean uninterpreted; monotonicity in the relaxed (mean) bounds and 2-D objects not covered.", ref="5/C10"),
    "C01": dict(text="get_object_results (geometry path) is verified for all list lengths, labels, policies, matching modes and radius lists: both greedy "
                     "loops carry invariants (working lists are order-preserving sub-lists of the inputs, score tables track them through pop/np.delete, "
                     "results pair distinct input objects); postconditions from the statement: estimates/ground truths from the input, each at most once, "
                     "every estimate exactly once outside FP-validation, unpaired dropped in FP-validation incl. no ground truth, inputs untouched, no exception.",
                note="numpy table operations are assumed contracts; _get_score_table is verified per matching class (cells encode: same frame, radius of the "
                     "ground truth's label beaten, label policy table); the matching-score functions and the result constructor are cut at assumed contracts; "
                     "3-D objects; inputs are sets (pairwise distinct objects).", ref="5/C01"),
    "C02": dict(text="Same function as C01 with dominance invariants: every stage-1 result is label-compatible and its score is optimal among all compatible "
                     "pairs of objects unmatched when it was formed, every stage-2 result optimal among all remaining matchable pairs, no compatible pair "
                     "is left after stage 1, none at all at return; the no-blocking-pair clauses of the statement follow as postconditions over the results and "
                     "the objects left unmatched. maximize iff IoU mode is part of the contract.",
                note="Assumes np.nanargmin/nanargmax return an optimal non-NaN cell (ties unspecified). 'Exactly the two-stage greedy assignment without ties' "
                     "follows from step-wise optimality and is not a separate obligation.", ref="5/C02"),
    "C03": dict(text="is_result_correct and get_status are verified against the statement's definition of a correct pair for every matching mode; "
                     "get_positive_objects: every result is exactly one of TP / FP, TP exactly the correct ones in order (ghost prefix count), TN pairs re-wrapped; "
                     "evaluate_frame: call-site obligations that both critical filters receive the same parameters and the frame's transforms, and that pass/fail "
                     "sees the filtered lists; PassFailResult.evaluate: which lists, which matching mode, which thresholds.",
                note="Filters are used through named contracts (result = function of all arguments; meaning: C10). get_negative_objects is verified too: TN = ground "
                     "truths of TN pairs then unmatched FP-labelled ones, FN = ground truths of failing pairs then unmatched ordinary ones, each judged at the "
                     "threshold of the ground truth's label (ghost counts; DynamicObject.__eq__ as a named reflexive relation). The global 'each critical ground truth exactly "
                     "once' is the composition of these list contracts (stated; end-to-end only by the bounded native harness). Metric branches of evaluate_frame are "
                     "switched off in the verified configuration (pass/fail only).", ref="5/C03"),
    "C04": dict(text="The numeric core of Ap is verified for all list lengths: precision/recall from the cumulative TP weights (p_k = T_k/(k+1), r_k = T_k/G), the "
                     "interpolation (every curve point is a rank's (precision, recall) and dominates the precision of every higher rank; closing point at recall 0), "
                     "and the area sum (AP equals the sum over the interpolated curve, lies in [0,1] when precision is in [0,1] and recall non-decreasing in [0,1], "
                     "is 0 when no estimate is correct).",
                note="Ap._calculate_tp_fp is verified too (rank by rank: TP weight iff not ignored and correct at the threshold of the ground truth's label, FP count otherwise; cumulative sums "
                     "stated recursively; np.cumsum assumed). Not under contract in this build: Ap.__init__ (flatten + stable sort by confidence), Map (mean), "
                     "'AP = 1 for a perfect ranking', 'APH <= AP'; those clauses are covered only by the native harness (exhaustive rankings up to length 6, "
                     "bounded). Floats as reals.", ref="5/C04"),
    "C09": dict(text="get_heading_bev, TPMetricsAph.get_value and get_heading_error are verified, relative to the assumed pyquaternion contract, to compute "
                     "wrap(-yaw - pi/2), 1 - |wrap(yaw_e - yaw_g)|/pi (both frame branches, in [0,1]) and wrap(yaw_gt - yaw_est) in [-pi, pi]; symmetry, 1 for "
                     "equal and 0 for opposite headings are real-arithmetic lemmas over that formula.",
                note="Assumed: yaw_pitch_roll[0] is the ZYX yaw in (-pi, pi], equal for q and -q; transforming by the identity matrix changes nothing. "
                     "Small roll/pitch coupling is not addressed. Floats as reals.", ref="5/C09"),
    "C13": dict(text="Frame conditions of PerceptionEvaluationManager._filter_objects and add_frame_result are proved for all inputs: no write to the caller's "
                     "estimate list, to the ground-truth frame handed in (the loaded dataset) or to any earlier frame result; the evaluated frame is a new object "
                     "with the same stamp and transforms; exactly one new result is appended.",
                note="get_scene_result is verified for a fixed pair of target labels (loop invariant: slot k+1 of each label's pool is frame k's results of that label, ground-truth counts "
                     "add up, every frame used once in order), and evaluate_frame with the detection metrics on (the frame's own score is computed from the filtered lists). "
                     "filter_objects / get_object_results / the frame-result constructor / evaluate_frame are cut at contracts (evaluate_frame may write only "
                     "its own result's object_results and its own frame's objects: body under C03). Scene pooling, one-frame scene == frame score, order "
                     "independence and determinism rest on the native harness (bounded: sequences of up to 6 calls on up to 3 frames).", ref="5/C13"),
    "C05": dict(text="CLEAR._is_same_match / _is_id_switched are verified against their truth tables, _calculate_score against the MOTA/MOTP formulas, and "
                     "_calculate_tp_fp (nested search loop with breaks) for all pairs of result lists: TP, FP and ID-switch accumulators equal ghost prefix counts of "
                     "the statement's per-result predicates (first previous TP sharing a track decides), so every considered result is exactly one of TP/FP; "
                     "count lemmas by induction on every run. CLEAR.__init__ is verified for all histories: each total (TP, FP, switches, matching score, result count) "
                     "is the running sum over consecutive frame pairs (frame t against frame t-1 only) of _calculate_tp_fp's value for that pair, and MOTA/MOTP are "
                     "the stated functions of the totals. Ids occur only under ==, hence renaming invariance.",
                note="Correctness at a threshold, matching scores and thresholds are named functions (C03/C06/C10); in __init__ the per-frame values are named functions "
                     "of (frame, previous frame, configuration). Not under contract: which score enters tp_matching_score per TP, _sum_clear and the scenario clauses "
                     "(perfect tracker, new id, exchange) - native harness (bounded).", ref="5/C05"),
    "C11": dict(text="ClassificationAccuracy is verified: the counting loop (TP + FP = number of pairs, TP = number of label-correct pairs), the four formulas "
                     "with their range in [0,1] and the all-correct case, and the constructor (per-frame lists are pooled once each, the caller's lists are untouched). "
                     "_get_object_results_with_id is verified for all inputs with unique non-null uuids per side and camera: an estimate and a ground truth are paired "
                     "iff they share uuid and camera, each object once, leftovers (if reported) once each without ground truth, inputs untouched. "
                     "_get_object_results_for_tlr is verified for both uuid-first settings: every pair consists of input objects of one camera with equal label (and uuid "
                     "when requested) or equal uuid, each object is in at most one pair, and among the objects left unpaired no pair by label or by uuid remains. "
                     "get_object_results sends ROI-less 2-D objects to the identity-based pairing (traffic lights to the label-then-uuid pairing).",
                note="'The number of label-correct pairs is the largest possible' follows from 'no label pair is left' (objects of equal label and camera form complete bipartite "
                     "classes, so a maximal matching is maximum) - that step is argued, not machine-checked, and checked exhaustively on the real code up to 3 x 3 objects x 2 "
                     "cameras (bounded). The working copies of _get_object_results_with_id are characterised positionally (rank-inverse ghost, pop carry facts, two proof hints); "
                     "those of the traffic-light pairing by universal invariants (input positions as uninterpreted functions).", ref="5/C11"),
    "C15": dict(text="check_thresholds / check_nested_thresholds / set_thresholds are verified over dynamically typed symbolic values (type tag, length, items, two "
                     "levels): a normal return guarantees one number per label (flat) or lists of exactly one number per label (nested), errors only for malformed "
                     "input; _check_tasks (task supported by the manager), PerceptionEvaluationConfig._extract_params (exactly one range kind for 3-D, mandatory "
                     "min_point_numbers, every exposed per-label list normalised) and MetricsScoreConfig._check_parameters (unknown metric parameter rejected, for a "
                     "symbolic key) for all configuration dictionaries over the keys the code reads.",
                note="One open known finding (unknown configuration key dropped before it reaches _check_parameters) is reported as KNOWN-FINDING. Broadcast / "
                     "idempotence / no-padding of __get_thresholds and __get_nested_thresholds: bounded native harness (all nestings up to length 3, mixed types). "
                     "CriticalObjectFilterConfig.__init__ and PerceptionPassFailConfig.__init__ are verified too (every per-label list validated against the number of target labels, "
                     "filtering_params exposes the validated lists); SensingEvaluationConfig._extract_params: harness only.", ref="5/C15"),
    "C18": dict(text="Proved from the code: argument dispatch and frame labelling of HomogeneousMatrix.__init__/dot/inv/transform (every calling convention) "
                     "and the registry logic of TransformDict.transform built by the real constructor (X->X returns its argument, registered X->Y first, else the "
                     "inverse of Y->X, else KeyError; a string source frame behaves as the member it names). Each result is a stated term of an abstract rigid-matrix "
                     "algebra; inverse round trip and composition are lemmas over those terms.",
                note="Relative to the abstract algebra (product, inverse, hom/projections) of externals/mat.py; the lemmas' algebraic hypotheses are assumed ground "
                     "instances. Numerical agreement with numpy/pyquaternion is covered by the native harness only (bounded, random rigid transforms).", ref="5/C18"),
    "C08": dict(text="is_better_than of all four matching classes is verified to be the strict comparison in the right direction; 'a correct pair with ordinary ground "
                     "truth stays correct under a looser threshold' is a lemma over C03's verified definition of is_result_correct (per mode); monotonicity of prefix "
                     "counts under pointwise implication, Abel summation, term-wise comparison and envelope monotonicity are induction lemmas proved on every run "
                     "(AP non-decreasing in the cumulative TP weights for the rank-indexed definition).",
                note="The identification of Ap's computed area with the rank-indexed sum is bounded (exhaustive rankings up to length 5/6 on the real Ap, replay/C08.py), "
                     "as is the scene-level check; induction itself is the meta-level step.", ref="5/C08"),
    "C06": dict(text="The formulas of the matching scores are verified on the real code for all inputs: distance_points / distance_points_bev / distance_objects(_bev) return the "
                     "non-negative root of the sum of squared coordinate differences of the centres; _get_height_intersection is the overlap of the two z-intervals (in [0, min height], "
                     "0 when disjoint); get_volume, _get_volume_intersection and the IoU classes compute I/(A+B-I) and I*H/(V1+V2-I*H) with the stated None/0 cases, BEV IoU in [0,1], "
                     "0 iff no overlap, 1 for coinciding footprints. Lemmas over those formulas for all reals: 3-D IoU in [0,1] and never above BEV IoU, 1 for identical boxes, "
                     "symmetry given a symmetric intersection, squared centre distance invariant under common rotation + translation.",
                note="_get_area_intersection and get_area_bev are verified too: the result is shapely's intersection area of the two world footprints / the area of the object's footprint "
                     "(an early exit or a different polygon fails the postcondition). Assumed at the library boundary (externals/poly.py): intersection area is a function of the two "
                     "polygons within [0, min area]; get_footprint() has the area of the object-frame footprint; numpy vector contracts. That the clipped polygon is the true intersection, the rotated footprint, plane distance (numpy argsort / fancy indexing) and 2-D ROIs are "
                     "decided only by the bounded native harness (independent Sutherland-Hodgman clipper, 400 box pairs + 300 ROI pairs per run). Floats as reals.", ref="5/C06"),
    "C12": dict(text="Relative to ONE assumed contract (common.point.crop_pointcloud selects exactly the points on the requested side of the prism), the real code is verified with point "
                     "clouds as abstract point sets: DynamicObject.crop_pointcloud / get_inside_pointcloud_num / point_exist use the object's own corners at the given scale and the "
                     "requested side; DynamicObjectWithSensingResult.__init__ (count, detected iff count >= threshold, occluded iff visibility NONE); "
                     "_evaluate_pointcloud_for_detection (loop invariant over ghost counts: every ground truth lands in exactly one of success / fail / warning, by those flags); "
                     "_evaluate_pointcloud_for_non_detection (nested loops: a reported cloud holds exactly the points of its area cloud outside every scaled box and is reported iff "
                     "non-empty); SensingFrameConfig scale factor is the linear interpolation; inside/outside partition lemma.",
                note="crop_pointcloud's numpy body (winding number with a uint8 counter), get_corners geometry, monotonicity in the scale and the manager's crop are NOT proved: "
                     "bounded native harness against an independent ray-casting test (150 boxes + prisms, 60 frames per run). Clouds are sets: duplicates / row order not modelled.",
                ref="5/C12"),
    "C07": dict(text="Decided as leaf agreements, each a per-call contract on the real code, re-verified here: _is_target_object computes the statement's keep predicate over the object's "
                     "EGO-FRAME position (registry transform frame_id -> BASE_LINK); evaluate_frame hands the frame's own transforms to both critical filters; get_heading_bev and the APH "
                     "weight use the ego-frame yaw in both frame branches; get_distance / get_distance_bev are the norms of the ego-frame position (new); and the lemma, clause by clause over "
                     "the keep predicate's text, that an ego rendering and a map rendering of one object (same attributes, registry maps the map position onto the ego position) get the same verdict.",
                note="The property relates two executions; no obligation relates them directly. The composition 'every leaf depends on the ego-frame pose only => all metrics agree' is an "
                     "argument over the call graph, not a discharged obligation. PlaneDistanceMatching's corner ranking (numpy) and the end-to-end agreement of lists, scores, AP/APH and CLEAR "
                     "are bounded: native harness evaluating 40 random scenes per run in both renderings. Registry contract assumed here (X -> X identity), proved for TransformDict under C18.",
                ref="5/C07"),
    "C16": dict(text="Relative to nuscenes-devkit modelled as an abstract database (records = functions of (table, token, field); the boxes of a sample data token are two lists the devkit "
                     "determines), the real glue code is verified for all databases: _get_sample_boxes (BASE_LINK -> ego-frame list, MAP -> global list, else ValueError); "
                     "_convert_nuscenes_box_to_dynamic_object (instance id, time stamp, frame id, the box's own centre / size / orientation, the annotation's lidar point count, label and "
                     "visibility as handed in, tracking data only in tracking tasks); _sample_to_frame (loop invariant: one object per box in order, each built from its own annotation "
                     "record — instance token, visibility level or None when the table is empty —, sample time stamp and name, LIDAR_TOP else LIDAR_CONCAT else ValueError).",
                note="The devkit's geometry (ego-frame boxes = global boxes moved by the inverse ego pose), the transforms, _load_dataset's sample order, tracking history and the converted "
                     "label's value (C14) are NOT proved here: bounded native harness that generates T4-format dataset directories, loads them with the real load_all_datasets (both frame ids, "
                     "detection / tracking / sensing, merge on/off) and compares every frame and object with the generator's tables (12 datasets per run). Constructors of DynamicObject / Shape / "
                     "FrameGroundTruth are assumed to store their arguments.", ref="5/C16"),
    "C19": dict(text="The per-object status tallies are verified for all lists of frame results: GroundTruthStatus.__init__ (five new, separate, empty lists), add_status "
                     "(the frame number goes to `total` and to exactly the list of its status), get_object_status (nested loops over the four pass/fail lists with "
                     "loop invariants over ghost counts: for an arbitrary uuid u, an entry exists iff some TP / FP-labelled matched FP / TN / FN item carries u, it is unique, "
                     "and each of its lists has one entry per such item), StatusRate.rate and get_scene_rates (ratios in [0,1], a distribution), MatchingStatus predicates.",
                note="With C03 (each critical ground truth is in exactly one of those lists of its frame) this is 'each ground truth once per frame'. The DataFrame-level "
                     "clauses (rows per item in the ego frame, counts, errors, rates, confusion matrix) are pandas/numpy code outside the verifier: bounded native harness "
                     "only (random scenes, 1/3/9 areas, ego and map frame, detection and FP validation), never counted as proved. One open known finding "
                     "(num_ground_truth counts the ground truth of a failing pair twice) is reported as KNOWN-FINDING; two defects were repaired (fix: commits).", ref="5/C19"),
}
NA_REASON = "check not built yet in this session (planned in DESIGN.md section 5); not claimed"
ALL = [f"C{n:02d}" for n in range(1, 21)]

def main():
    checks = []
    for pid in ALL:
        if pid not in CLAIMED:
            continue
        c = CLAIMED[pid]
        checks.append(dict(property_id=pid, quick_cmd=f"./check {pid} --tier quick", thorough_cmd=f"./check {pid} --tier thorough",
                           evidence_file=f"/verif/evidence/{pid}.json", replay_cmd_template=f"./check {pid} --replay {{path}}",
                           engine="pyvc", level_claimed=dict(category="proof", text=c["text"], design_ref=c["ref"]),
                           level_note=c["note"], technique=TECH))
    m = dict(version=1, setup_cmd="true",
             hooks=dict(guard="PERCEPTION_EVAL_VERIF", enable="no hooks: contracts are sidecar files, /repo is read as text",
                        baseline_off_cmd=BASELINE, source_commits=[], add_only=True),
             engines=[dict(name="pyvc", path="/verif/pyvc", serves_properties=sorted(CLAIMED),
                           kind_free_text="AST-to-SMT verification-condition generator for a Python subset with sidecar contracts; z3 + cvc5")],
             checks=checks,
             notes="Exit codes: 0 all obligations discharged, 1 VIOLATION, 2 undecided, 3 engine error. See DESIGN.md.",
             not_applicable=[dict(property_id=p, reason=NA.get(p, NA_REASON)) for p in ALL if p not in CLAIMED])
    json.dump(m, open(os.path.join(HERE, "MANIFEST.json"), "w"), indent=1)

NA = {
}
if __name__ == "__main__":
    main()
