"""C01 — matching is one-to-one and accounts for every estimate (geometry path of get_object_results).

Postconditions are taken from the statement: every result's estimate / ground truth is an input object, each used at most
once; outside FP-validation every estimate occurs in exactly one result; in FP-validation unpaired estimates are dropped
(also with no ground truth at all); every pair is in the same frame and within the radius configured for the ground
truth's label; the caller's lists are untouched.
"""
from pyvc.api import *
import contracts.C10 as C10

OR = "evaluation.result.object_result"
OM = "evaluation.matching.object_matching"
E_, G_ = "estimated_objects", "ground_truth_objects"
EW, GW, RES = "estimated_objects_", "ground_truth_objects_", "object_results"
FIXED = "matching_label_policy, matching_method_module, target_labels, matchable_thresholds, transforms"


def macros(fixed=FIXED):
    valid = lambda e, g: f"uf_bool('valid', {e}, {g}, {fixed})"
    compat = lambda e, g: f"uf_bool('compat', {e}, {g}, {fixed})"
    score = lambda e, g: f"uf_real('score', {e}, {g}, {fixed})"
    return valid, compat, score


def models(P):
    idx = P.index
    C10.models(P)
    cm = P.model(ClassModel("DynamicObjectWithPerceptionResult", {
        "estimated_object": TSObj("DynamicObject"), "ground_truth_object": TSObj("DynamicObject", nullable=True)},
        repo_class=idx.lookup(f"{OR}:DynamicObjectWithPerceptionResult")))
    cm.alloc_smt = True
    return cm


def result_ctor_contract():
    """constructor of a result object, cut at: it stores its two object arguments (verified below against the real __init__)"""
    return Contract(f"{OR}:DynamicObjectWithPerceptionResult.__init__", params={},
                    assigns={"self.estimated_object": "estimated_object", "self.ground_truth_object": "ground_truth_object"})


def fp_results_contract():
    RT = TSList(TSObj("DynamicObjectWithPerceptionResult"))
    return Contract(f"{OR}:_get_fp_object_results", params={"estimated_objects": TSList(TSObj("DynamicObject"))}, returns=RT,
                    locals={"object_results": RT},
                    loops={1: LoopSpec(index="i", invariants=E(
                        "one_result_per_estimate_so_far", "len(object_results) == i and not is_old(object_results)",
                        "results_wrap_the_estimates", "forall(k, 0, i, is_new(object_results[k]) and allocated(object_results[k]) and "
                                                      "object_results[k].estimated_object is estimated_objects[k] and object_results[k].ground_truth_object is None)",
                        "results_pairwise_distinct", "forall(k, 0, i, forall(m, 0, i, implies(k < m, object_results[k] is not object_results[m])))",
                        "input_untouched", "len(estimated_objects) == old(len(estimated_objects)) and forall(k, 0, len(estimated_objects), estimated_objects[k] is old(estimated_objects[k]))"))},
                    ensures=E("one_result_per_estimate", "len(result) == len(estimated_objects) and is_new(result)",
                              "results_wrap_the_estimates_without_ground_truth",
                              "forall(k, 0, len(result), is_new(result[k]) and "
                              "result[k].estimated_object is estimated_objects[k] and result[k].ground_truth_object is None)",
                              "results_pairwise_distinct", "forall(k, 0, len(result), forall(m, 0, len(result), implies(k < m, result[k] is not result[m])))",
                              "input_untouched", "len(estimated_objects) == old(len(estimated_objects)) and forall(k, 0, len(estimated_objects), estimated_objects[k] is old(estimated_objects[k]))"))


def score_table_contract(P):
    valid, compat, score = macros()
    cell = f"{E_}[r], {G_}[c]"
    return Contract(
        f"{OR}:_get_score_table",
        params={E_: TSList(TSObj("DynamicObject")), G_: TSList(TSObj("DynamicObject"))},
        returns=lambda it, cf: _fresh_table(it),
        requires=TABLE_REQUIRES(by_mode_expr="(matching_method_module is IOU2dMatching or matching_method_module is IOU3dMatching)"),
        ensures=E(
            "shape", f"rows(result) == len({E_}) and cols(result) == len({G_})",
            "cell_is_nan_iff_pair_not_matchable", f"forall(r, 0, len({E_}), forall(c, 0, len({G_}), tnan(result, r, c) == (not {valid(f'{E_}[r]', f'{G_}[c]')})))",
            "cell_score_and_label_flag", f"forall(r, 0, len({E_}), forall(c, 0, len({G_}), implies(not tnan(result, r, c), "
                                         f"tval(result, r, c) == {score(f'{E_}[r]', f'{G_}[c]')} and tflag(result, r, c) == {compat(f'{E_}[r]', f'{G_}[c]')})))",
            "no_flag_without_score", f"forall(r, 0, len({E_}), forall(c, 0, len({G_}), implies(tnan(result, r, c), not tflag(result, r, c))))",
        ))


CLASSES = {"CENTERDISTANCE": "CenterDistanceMatching", "PLANEDISTANCE": "PlaneDistanceMatching", "IOU2D": "IOU2dMatching", "IOU3D": "IOU3dMatching"}


def matching_score_contracts(P):
    """assumed here (C06 is about what the scores mean): a matching score is a function of the two objects and the transforms,
    and is a number whenever there is a ground truth"""
    out = {}
    for mode, cls in CLASSES.items():
        fi = P.index.lookup(f"{OM}:{cls}._calculate_matching_score")
        out[fi.fq] = Contract(f"{OM}:{cls}._calculate_matching_score", params={}, returns=Opt(TReal()),
                              ensures=E("number_iff_ground_truth", "(result is None) == (ground_truth_object is None)",
                                        "function_of_the_pair", f"implies(result is not None, result == uf_real('mscore_{mode}', estimated_object, ground_truth_object, transforms))"))
    return out


def score_table_definitions(mode):
    """what the cells of the score table mean (from the statement): a pair is matchable iff both objects are in the same frame and,
    when a radius is configured for the ground truth's label (first matching target), the score beats it"""
    L = lambda g: f"{g}.semantic_label.label"
    ms = lambda e, g: f"uf_real('mscore_{mode}', {e}, {g}, transforms)"
    better = (lambda a, b: f"({a}) > ({b})") if mode.startswith("IOU") else (lambda a, b: f"({a}) < ({b})")
    # radius configured for the ground truth's label: the value get_label_threshold returns (a function of the label and the two
    # lists; C10 verifies that it is the entry of the first matching target, None if there is none)
    thr_none = lambda g: f"uf_bool('radius_none', {L(g)}, target_labels, matchable_thresholds)"
    thr = lambda g: f"uf_real('radius', {L(g)}, target_labels, matchable_thresholds)"
    radius_ok = lambda e, g: f"({thr_none(g)} or {better(ms(e, g), thr(g))})"
    valid = lambda e, g: f"(({e}.frame_id is {g}.frame_id) and {radius_ok(e, g)})"
    same = lambda e, g: f"({L(e)} is {L(g)})"
    compat = lambda e, g: (f"(({L(g)} is AutowareLabel.FP) or (matching_label_policy is MatchingLabelPolicy.ALLOW_ANY) or {same(e, g)} or "
                           f"((matching_label_policy is MatchingLabelPolicy.ALLOW_UNKNOWN) and ({L(e)} is AutowareLabel.UNKNOWN)))")
    return valid, compat, ms


def TABLE_REQUIRES(mode=None, by_mode_expr=None):
    r = E("one_radius_per_target_label", "implies(target_labels is not None and matchable_thresholds is not None, len(matchable_thresholds) == len(target_labels))")
    rng = "implies(matchable_thresholds is not None, forall(j, 0, len(matchable_thresholds), 0 <= matchable_thresholds[j] and matchable_thresholds[j] <= 1))"
    if mode is not None and mode.startswith("IOU"):
        r.append(("iou_radius_in_unit_interval", rng))
    if by_mode_expr is not None:
        r.append(("iou_radius_in_unit_interval", f"implies({by_mode_expr}, {rng})"))
    return r


def score_table_verified_contract(P, mode):
    idx = P.index
    valid, compat, ms = score_table_definitions(mode)
    DO = TSObj("DynamicObject")
    AL = TEnum(idx.lookup("common.label:AutowareLabel"))
    cell = lambda t, r, c: (f"(tnan({t}, {r}, {c}) == (not {valid(f'{E_}[{r}]', f'{G_}[{c}]')})) and "
                            f"implies(not tnan({t}, {r}, {c}), tval({t}, {r}, {c}) == {ms(f'{E_}[{r}]', f'{G_}[{c}]')} and "
                            f"tflag({t}, {r}, {c}) == {compat(f'{E_}[{r}]', f'{G_}[{c}]')}) and implies(tnan({t}, {r}, {c}), not tflag({t}, {r}, {c}))")
    untouched = (f"len({E_}) == old(len({E_})) and len({G_}) == old(len({G_})) and forall(k, 0, len({E_}), {E_}[k] is old({E_}[k])) and "
                 f"forall(k, 0, len({G_}), {G_}[k] is old({G_}[k]))")
    shape = f"rows(score_table) == len({E_}) and cols(score_table) == len({G_})"
    blank = lambda r, c: f"tnan(score_table, {r}, {c}) and not tflag(score_table, {r}, {c})"
    outer = E("shape", shape,
              "finished_rows", f"forall(r, 0, i, forall(c, 0, len({G_}), {cell('score_table', 'r', 'c')}))",
              "untouched_rows", f"forall(r, i, len({E_}), forall(c, 0, len({G_}), {blank('r', 'c')}))",
              "inputs_untouched", untouched)
    inner = E("shape", shape + f" and 0 <= i and i < len({E_})",
              "finished_rows", f"forall(r, 0, i, forall(c, 0, len({G_}), {cell('score_table', 'r', 'c')}))",
              "finished_cells_of_this_row", f"forall(c, 0, j, {cell('score_table', 'i', 'c')})",
              "untouched_cells_of_this_row", f"forall(c, j, len({G_}), {blank('i', 'c')})",
              "untouched_rows", f"forall(r, i + 1, len({E_}), forall(c, 0, len({G_}), {blank('r', 'c')}))",
              "inputs_untouched", untouched)
    return Contract(
        f"{OR}:_get_score_table",
        params={E_: TSList(DO), G_: TSList(DO), "matching_label_policy": TEnum(idx.lookup(f"{OM}:MatchingLabelPolicy")),
                "matching_method_module": (lambda it, mode=mode: VClass(idx.lookup(f"{OM}:{CLASSES[mode]}"))),
                "target_labels": Opt(TSList(AL)), "matchable_thresholds": Opt(TSList(TReal())),
                "transforms": lambda it: VOpaque("transformdict", it.ctx.fresh("transforms", I))},
        locals={"is_same_frame_id": TBool(), "is_label_ok": TBool()},
        requires=TABLE_REQUIRES(mode),
        loops={1: LoopSpec(index="i", invariants=outer), 2: LoopSpec(index="j", invariants=inner)},
        ensures=E("shape", f"rows(result) == len({E_}) and cols(result) == len({G_})",
                  "every_cell_encodes_the_pair", f"forall(r, 0, len({E_}), forall(c, 0, len({G_}), {cell('result', 'r', 'c')}))",
                  "inputs_untouched", untouched))


def _fresh_table(it):
    import z3
    from pyvc.externals import nptable as nt
    ctx = it.ctx
    rows, cols = ctx.fresh("table_rows", I), ctx.fresh("table_cols", I)
    return nt.mk(rows, cols, ctx.fresh("table_nan", nt.A2B), ctx.fresh("table_val", nt.A2R), ctx.fresh("table_flag", nt.A2B), 3)


def greedy_invariants(table_clause, valid):
    untouched = (f"len({E_}) == old(len({E_})) and len({G_}) == old(len({G_})) and forall(k, 0, len({E_}), {E_}[k] is old({E_}[k])) and "
                 f"forall(k, 0, len({G_}), {G_}[k] is old({G_}[k]))")
    est = lambda k: f"{RES}[{k}].estimated_object"
    gt = lambda k: f"{RES}[{k}].ground_truth_object"
    return E(
        "working_lists_are_new", f"not is_old({EW}) and not is_old({GW}) and not is_old({RES}) and distinct({EW}, {GW}, {RES})",
        "remaining_estimates_from_input", f"forall(r, 0, len({EW}), {EW}[r] is not None and 0 <= uf_int('posE', {EW}[r]) and uf_int('posE', {EW}[r]) < len({E_}) and {EW}[r] is {E_}[uf_int('posE', {EW}[r])])",
        "remaining_estimates_in_input_order", f"forall(r, 0, len({EW}), forall(c, 0, len({EW}), implies(r < c, uf_int('posE', {EW}[r]) < uf_int('posE', {EW}[c]))))",
        "remaining_ground_truths_from_input", f"forall(r, 0, len({GW}), {GW}[r] is not None and 0 <= uf_int('posG', {GW}[r]) and uf_int('posG', {GW}[r]) < len({G_}) and {GW}[r] is {G_}[uf_int('posG', {GW}[r])])",
        "remaining_ground_truths_in_input_order", f"forall(r, 0, len({GW}), forall(c, 0, len({GW}), implies(r < c, uf_int('posG', {GW}[r]) < uf_int('posG', {GW}[c]))))",
        "table_matches_remaining_lists", table_clause,
        "counts", f"len({RES}) + len({EW}) == len({E_}) and len({RES}) + len({GW}) == len({G_})",
        "results_pair_input_objects", f"forall(k, 0, len({RES}), {RES}[k] is not None and not is_old({RES}[k]) and allocated({RES}[k]) and "
                                      f"0 <= uf_int('posE', {est('k')}) and uf_int('posE', {est('k')}) < len({E_}) and {est('k')} is {E_}[uf_int('posE', {est('k')})] and "
                                      f"{gt('k')} is not None and 0 <= uf_int('posG', {gt('k')}) and uf_int('posG', {gt('k')}) < len({G_}) and {gt('k')} is {G_}[uf_int('posG', {gt('k')})] and "
                                      f"{valid(est('k'), gt('k'))})",
        "paired_objects_left_the_working_lists", f"forall(k, 0, len({RES}), forall(r, 0, len({EW}), {EW}[r] is not {est('k')}) and forall(c, 0, len({GW}), {GW}[c] is not {gt('k')}))",
        "results_use_each_object_once", f"forall(k, 0, len({RES}), forall(m, 0, len({RES}), implies(k < m, {est('k')} is not {est('m')} and {gt('k')} is not {gt('m')} and {RES}[k] is not {RES}[m])))",
        "inputs_untouched", untouched,
    ), untouched


def _glt_contract(P):
    AL = TEnum(P.index.lookup("common.label:AutowareLabel"))
    L0 = "semantic_label.label"
    first0 = lambda j: f"(target_labels[{j}] is {L0} and forall(m, 0, {j}, target_labels[m] is not {L0}))"
    return Contract("common.threshold:get_label_threshold",
                    params={"semantic_label": TSObj("Label"), "target_labels": Opt(TSList(AL)), "threshold_list": Opt(TSList(TReal()))},
                    returns=Opt(TReal()),
                    requires=E("one_threshold_per_label", "implies(target_labels is not None and threshold_list is not None, len(threshold_list) == len(target_labels))"),
                    ensures=E("none_iff_no_threshold_for_this_label",
                              f"(result is None) == (target_labels is None or threshold_list is None or not exists(j, 0, len(target_labels), target_labels[j] is {L0}))",
                              "some_first_matching_target_gives_it",
                              f"implies(result is not None, exists(j, 0, len(target_labels), {first0('j')} and result == threshold_list[j]))",
                              "threshold_of_first_matching_target",
                              f"implies(result is not None, forall(j, 0, len(target_labels), implies({first0('j')}, result == threshold_list[j])))"))


def _glt_named(P):
    """get_label_threshold as a named function of (label, targets, thresholds); its first-matching-target meaning is C10's contract"""
    L0 = "semantic_label.label"
    return Contract("common.threshold:get_label_threshold", params={}, returns=Opt(TReal()),
                    requires=E("one_threshold_per_label", "implies(target_labels is not None and threshold_list is not None, len(threshold_list) == len(target_labels))"),
                    ensures=E("none_flag", f"(result is None) == uf_bool('radius_none', {L0}, target_labels, threshold_list)",
                              "value", f"implies(result is not None, result == uf_real('radius', {L0}, target_labels, threshold_list))",
                              "none_without_lists", "implies(target_labels is None or threshold_list is None, result is None)",
                              "is_an_entry_of_the_list", "implies(result is not None, exists(j, 0, len(threshold_list), result == threshold_list[j]))"))


def score_table_tasks(P):
    """_get_score_table, per matching class, against the meaning of a table cell (same frame, radius of the ground truth's label beaten, label-policy table);
    shared with C02, whose dominance invariants read those cells"""
    idx = P.index
    for mode in CLASSES:
        c = score_table_verified_contract(P, mode)
        ex = dict(matching_score_contracts(P))
        ex[idx.lookup("common.threshold:get_label_threshold").fq] = _glt_named(P)
        P.verify(f"{OR}:_get_score_table", name=f"_get_score_table[{mode}]", contract=c, extra_contracts=ex)


def matching_module_tasks(P, direction=True):
    """_get_matching_module: each mode selects ITS matching class, and larger-is-better exactly for the two IoU modes (shared with C02)"""
    idx = P.index
    MM = idx.lookup(f"{OM}:MatchingMode")
    for mi, (mode, _) in enumerate(MM.enum_members(idx)):
        cls = CLASSES[mode]
        P.verify(f"{OR}:_get_matching_module", name=f"_get_matching_module[{mode}]",
                 contract=Contract(f"{OR}:_get_matching_module", cut=False, params={"matching_mode": VEnum(MM, mi)},
                                   # which score is computed decides "within the radius" (C01); whether larger is better decides which pair wins (C02 only)
                                   ensures=E("the_matching_class_of_this_mode", f"result[0] is {cls}") +
                                           (E("larger_is_better_exactly_for_iou", f"result[1] == {mode.startswith('IOU')}") if direction else [])))


def dispatch_tasks(P, c_main, extra):
    """2-D objects that carry a ROI (detection2d / tracking2d, traffic lights included) are matched by the same score-based code: the identity-based
    pairing functions are for ROI-less objects only (their precondition here), so a dispatch that sends ROI objects there fails that precondition"""
    import copy
    idx = P.index
    TLL = idx.lookup("common.label:TrafficLightLabel")
    MM = idx.lookup(f"{OM}:MatchingMode")
    P.model(ClassModel("Roi", {}, repo_class=idx.lookup("common.object2d:Roi")))
    P.model(ClassModel("TLLabel", {"label": TEnum(TLL), "name": TStr()}, repo_class=idx.lookup("common.label:Label")))
    for tag, lab_model in (("traffic-light labels", "TLLabel"), ("ordinary labels", "Label")):
        oname = "DynamicObject2D" + ("TL" if lab_model == "TLLabel" else "")
        P.model(ClassModel(oname, {"uuid": TOpt(TStr()), "frame_id": TEnum(idx.lookup("common.schema:FrameID")), "semantic_label": TSObj(lab_model),
                                   "roi": TSObj("Roi", nullable=True)}, repo_class=idx.lookup("common.object2d:DynamicObject2D")))
        O2 = TSObj(oname)
        RT = TSList(TSObj("DynamicObjectWithPerceptionResult"))
        roi_less = E("only_for_objects_without_a_roi", f"{E_}[0].roi is None or {G_}[0].roi is None")
        ex = dict(extra)
        for fn in ("_get_object_results_for_tlr", "_get_object_results_with_id"):
            ex[idx.lookup(f"{OR}:{fn}").fq] = Contract(f"{OR}:{fn}", params={}, returns=RT, requires=roi_less)
        for k in list(ex):
            if k.endswith("_get_fp_object_results") or k.endswith("_get_score_table"):
                c2 = copy.copy(ex[k])
                c2.params = {n: (TSList(O2) if n in (E_, G_) else t) for n, t in ex[k].params.items()}
                ex[k] = c2
        c = copy.copy(c_main)
        c.params = dict(c_main.params)
        c.params.update({E_: TSList(O2), G_: TSList(O2), "matching_mode": VEnum(MM, [n for n, _ in MM.enum_members(idx)].index("IOU2D"))})
        c.locals = dict(c_main.locals)
        c.locals.update({EW: TSList(O2), GW: TSList(O2)})
        c.requires = list(c_main.requires) + [("every_object_carries_a_roi", f"forall(k, 0, len({E_}), {E_}[k].roi is not None) and forall(k, 0, len({G_}), {G_}[k].roi is not None)")]
        P.verify(f"{OR}:get_object_results", name=f"get_object_results[2-D objects with ROI, {tag}, IOU2D]", contract=c, extra_contracts=ex)


def build(P):
    idx = P.index
    models(P)
    P.min_obligations = 100
    DO = TSObj("DynamicObject")
    RT = TSList(TSObj("DynamicObjectWithPerceptionResult"))
    valid, compat, score = macros()
    AL = TEnum(idx.lookup("common.label:AutowareLabel"))
    # ---------------------------------------------------------------- helpers under contract
    P.contract(fp_results_contract(), extra_contracts={idx.lookup(f"{OR}:DynamicObjectWithPerceptionResult.__init__").fq: result_ctor_contract()})
    ctor = result_ctor_contract()
    # ---------------------------------------------------------------- get_object_results
    # (C01 needs of the first stage only that a cell it may pick is a matchable pair -- same frame, within the radius; WHICH matchable pairs the first stage
    #  may pick, i.e. the label stage, is C02's statement and C02's invariant)
    t1 = (f"rows(masked_scores) == len({EW}) and cols(masked_scores) == len({GW}) and rows(score_table) == len({EW}) and cols(score_table) == len({GW}) and "
          f"forall(r, 0, len({EW}), forall(c, 0, len({GW}), implies(not tnan(masked_scores, r, c), {valid(f'{EW}[r]', f'{GW}[c]')}) and "
          f"tnan(score_table, r, c) == (not {valid(f'{EW}[r]', f'{GW}[c]')})))")
    t2 = (f"rows(rest_scores) == len({EW}) and cols(rest_scores) == len({GW}) and "
          f"forall(r, 0, len({EW}), forall(c, 0, len({GW}), tnan(rest_scores, r, c) == (not {valid(f'{EW}[r]', f'{GW}[c]')})))")
    inv1, untouched = greedy_invariants(t1, valid)
    inv2, _ = greedy_invariants(t2, valid)
    FPV = "(evaluation_task is EvaluationTask.FP_VALIDATION or evaluation_task is EvaluationTask.FP_VALIDATION2D)"
    est = lambda k: f"result[{k}].estimated_object"
    gt = lambda k: f"result[{k}].ground_truth_object"
    c_main = Contract(
        f"{OR}:get_object_results",
        params={"evaluation_task": TEnum(idx.lookup("common.evaluation_task:EvaluationTask")), E_: TSList(DO), G_: TSList(DO),
                "target_labels": Opt(TSList(AL)), "matching_label_policy": TEnum(idx.lookup(f"{OM}:MatchingLabelPolicy")),
                "matching_mode": TEnum(idx.lookup(f"{OM}:MatchingMode")), "matchable_thresholds": Opt(TSList(TReal())),
                "transforms": lambda it: VOpaque("transformdict", it.ctx.fresh("transforms", I)), "uuid_matching_first": TBool()},
        returns=RT,
        locals={RES: RT, EW: TSList(DO), GW: TSList(DO)},
        requires=E("estimates_are_a_set", f"forall(k, 0, len({E_}), uf_int('posE', {E_}[k]) == k)",
                   "ground_truths_are_a_set", f"forall(k, 0, len({G_}), uf_int('posG', {G_}[k]) == k)") +
                 TABLE_REQUIRES(by_mode_expr="(matching_mode is MatchingMode.IOU2D or matching_mode is MatchingMode.IOU3D)"),
        loops={1: LoopSpec(index="i", invariants=inv1), 2: LoopSpec(index="i", invariants=inv2)},
        ensures=E(
            "estimates_come_from_the_input", f"forall(k, 0, len(result), result[k] is not None and 0 <= uf_int('posE', {est('k')}) and uf_int('posE', {est('k')}) < len({E_}) and {est('k')} is {E_}[uf_int('posE', {est('k')})])",
            "ground_truths_come_from_the_input", f"forall(k, 0, len(result), {gt('k')} is None or (0 <= uf_int('posG', {gt('k')}) and uf_int('posG', {gt('k')}) < len({G_}) and {gt('k')} is {G_}[uf_int('posG', {gt('k')})]))",
            "each_estimate_in_at_most_one_result", f"forall(k, 0, len(result), forall(m, 0, len(result), implies(k < m, {est('k')} is not {est('m')})))",
            "each_ground_truth_in_at_most_one_result", f"forall(k, 0, len(result), forall(m, 0, len(result), implies(k < m and {gt('k')} is not None, {gt('k')} is not {gt('m')})))",
            "every_estimate_in_exactly_one_result_outside_fp_validation", f"implies(not {FPV}, len(result) == len({E_}))",
            "unpaired_estimates_dropped_in_fp_validation", f"implies({FPV}, forall(k, 0, len(result), {gt('k')} is not None))",
            "every_pair_is_matchable", f"forall(k, 0, len(result), implies({gt('k')} is not None, " + macros("matching_label_policy, local('matching_method_module', None), target_labels, matchable_thresholds, transforms")[0](est('k'), gt('k')) + "))",
            "inputs_untouched", untouched,
        ))
    fp_c = fp_results_contract()
    st_c = score_table_contract(P)
    extra = {idx.lookup(f"{OR}:DynamicObjectWithPerceptionResult.__init__").fq: ctor,
             idx.lookup(f"{OR}:_get_fp_object_results").fq: fp_c,
             idx.lookup(f"{OR}:_get_score_table").fq: st_c}
    # one task per matching mode and task family: the same contract, the cases only split the work across cores
    import copy
    MM = idx.lookup(f"{OM}:MatchingMode")
    ET = idx.lookup("common.evaluation_task:EvaluationTask")
    modes = [n for n, _ in MM.enum_members(idx)]
    for mi, mode in enumerate(modes):
        for fam, tasks in (("fp-validation", ["FP_VALIDATION", "FP_VALIDATION2D"]), ("ordinary", None)):
            c = copy.copy(c_main)
            c.params = dict(c_main.params)
            c.params["matching_mode"] = VEnum(MM, mi)
            c.requires = list(c_main.requires) + [("task_family", FPV if tasks else f"not {FPV}")]
            P.verify(f"{OR}:get_object_results", name=f"get_object_results[3-D, {mode}, {fam}]", contract=c, extra_contracts=extra)
    dispatch_tasks(P, c_main, extra)
    # ---------------------------------------------------------------- what the table cells mean: _get_score_table per matching class
    score_table_tasks(P)
    matching_module_tasks(P, direction=False)

    P.trust("numpy score-table operations as assumed contracts (externals/nptable.py); tie-breaking of nanargmin/nanargmax unspecified")
    P.assume("the estimate list and the ground-truth list each contain pairwise distinct objects (the property's 'sets')")
    P.assume("estimates and ground truths are DynamicObject instances (3-D); the ROI-based 2-D path runs the same code; the ROI-less path is C11")
