"""C11 — classification pairs objects by identity and scores them by label agreement.

Deductive part: ClassificationAccuracy (counting loop, the four formulas, their range, the all-correct case, the constructor pooling per-frame lists);
_get_object_results_with_id (paired iff same uuid and camera, each object once: positional invariants over the working copies);
_get_object_results_for_tlr for both uuid-first settings (pairs by label [and uuid] or by uuid within one camera, each object at most once, no pair by label or
by uuid left among the unpaired: universal invariants); the dispatch of ROI-less 2-D objects in get_object_results.
Bounded part (stand-in, never counted as proved): "the number of label-correct pairs is the largest possible" — exhaustively on the real code for all label
assignments of up to 3 estimates x 3 ground truths over 2 camera frames (replay/C11.py).
"""
from pyvc.api import *
from pyvc.lemmas import count_fn, add_count_lemmas, int_fn, pred_fn, rank_inverse, add_rank_lemmas
import contracts.C03 as C03
import contracts.C01 as C01

ACC = "evaluation.metrics.classification.accuracy"
OR = "evaluation.result.object_result"


def build(P):
    idx = P.index
    models(P)
    P.min_obligations = 30
    add_count_lemmas(P)
    add_rank_lemmas(P)
    CA = idx.lookup(f"{ACC}:ClassificationAccuracy")
    RT = TSList(TSObj("DynamicObjectWithPerceptionResult"))

    def mk(it, **f):
        o = it.ctx.new_cell("obj", {}, CA)
        it.ctx.cell(o).update(f)
        return o
    # ---------------------------------------------------------------- counting
    ok = lambda k: f"uf_bool('label_ok', object_results[{k}])"
    g, d = count_fn("correct_before")
    named = Contract(f"{OR}:DynamicObjectWithPerceptionResult.is_label_correct", params={}, returns=TBool(), ensures=E("named", "result == uf_bool('label_ok', self)"))
    P.verify(f"{ACC}:ClassificationAccuracy.calculate_tp_fp", name="ClassificationAccuracy.calculate_tp_fp",
             contract=Contract(f"{ACC}:ClassificationAccuracy.calculate_tp_fp", cut=False,
                               params={"self": lambda it: mk(it), "object_results": RT},
                               locals={"num_tp": TInt(), "num_fp": TInt()},
                               ghosts={"correct_before": g}, defs=d(ok, "len(object_results)"),
                               loops={1: LoopSpec(index="i", invariants=E("tp_counts_label_correct_pairs", "num_tp == correct_before(i)", "every_pair_counted_once", "num_tp + num_fp == i"))},
                               ensures=E("tp_is_number_of_label_correct_pairs", "result[0] == correct_before(len(object_results))",
                                         "tp_plus_fp_is_number_of_pairs", "result[0] + result[1] == len(object_results)",
                                         "tp_within_bounds", "0 <= result[0] and result[0] <= len(object_results)")),
             extra_contracts={idx.lookup(f"{OR}:DynamicObjectWithPerceptionResult.is_label_correct").fq: named})
    # ---------------------------------------------------------------- formulas
    st = lambda it: mk(it, objects_results_num=TInt().fresh(it.ctx, "n"), num_ground_truth=TInt().fresh(it.ctx, "G"))
    dom = E("counts", "self.objects_results_num >= 0 and self.num_ground_truth >= 0 and 0 <= num_tp and num_tp <= self.objects_results_num and num_tp <= self.num_ground_truth")
    N, G = "self.objects_results_num", "self.num_ground_truth"
    P.verify(f"{ACC}:ClassificationAccuracy.calculate_accuracy", name="ClassificationAccuracy.calculate_accuracy",
             contract=Contract(f"{ACC}:ClassificationAccuracy.calculate_accuracy", cut=False, params={"self": st, "num_tp": TInt()}, requires=dom,
                               ensures=E("accuracy_is_tp_over_union", f"implies({N} + {G} - num_tp != 0, result == num_tp / ({N} + {G} - num_tp))",
                                         "in_unit_interval_when_defined", f"implies({N} + {G} - num_tp != 0, 0 <= result and result <= 1)",
                                         "one_when_everything_is_paired_correctly", f"implies(num_tp == {N} and num_tp == {G} and num_tp > 0, result == 1)")))
    P.verify(f"{ACC}:ClassificationAccuracy.calculate_precision_recall", name="ClassificationAccuracy.calculate_precision_recall",
             contract=Contract(f"{ACC}:ClassificationAccuracy.calculate_precision_recall", cut=False, params={"self": st, "num_tp": TInt()}, requires=dom,
                               ensures=E("precision_is_tp_over_pairs", f"implies({N} != 0, result[0] == num_tp / {N} and 0 <= result[0] and result[0] <= 1)",
                                         "recall_is_tp_over_ground_truths", f"implies({G} != 0, result[1] == num_tp / {G} and 0 <= result[1] and result[1] <= 1)",
                                         "both_one_when_everything_is_paired_correctly", f"implies(num_tp == {N} and num_tp == {G} and num_tp > 0, result[0] == 1 and result[1] == 1)")))
    P.verify(f"{ACC}:ClassificationAccuracy.calculate_f1score", name="ClassificationAccuracy.calculate_f1score",
             contract=Contract(f"{ACC}:ClassificationAccuracy.calculate_f1score", cut=False,
                               params={"self": st, "precision": TReal(), "recall": TReal()},
                               requires=E("defined_inputs_in_unit_interval", "0 <= precision and precision <= 1 and 0 <= recall and recall <= 1"),
                               ensures=E("harmonic_mean", "implies(precision + recall != 0, result == 2 * precision * recall / (precision + recall))",
                                         "in_unit_interval_when_defined", "implies(precision + recall != 0, 0 <= result and result <= 1)",
                                         "one_when_both_are_one", "implies(precision == 1 and recall == 1, result == 1)")))
    # ---------------------------------------------------------------- the constructor: results of several frames are pooled without touching the caller's lists
    from pyvc.lemmas import running_total
    gt_, dt_ = running_total("results_before")
    NEST = "object_results"
    cuts = {idx.lookup(f"{ACC}:ClassificationAccuracy.calculate_tp_fp").fq:
                Contract(f"{ACC}:ClassificationAccuracy.calculate_tp_fp", params={}, returns=TTuple(TInt(), TInt()),
                         ensures=E("every_pair_counted_once", "result[0] + result[1] == len(object_results) and 0 <= result[0] and 0 <= result[1]")),
            idx.lookup(f"{ACC}:ClassificationAccuracy.calculate_accuracy").fq: Contract(f"{ACC}:ClassificationAccuracy.calculate_accuracy", params={}, returns=TReal()),
            idx.lookup(f"{ACC}:ClassificationAccuracy.calculate_precision_recall").fq: Contract(f"{ACC}:ClassificationAccuracy.calculate_precision_recall", params={}, returns=TTuple(TReal(), TReal())),
            idx.lookup(f"{ACC}:ClassificationAccuracy.calculate_f1score").fq: Contract(f"{ACC}:ClassificationAccuracy.calculate_f1score", params={}, returns=TReal())}
    untouched = (f"len({NEST}) == old(len({NEST})) and forall(g, 0, len({NEST}), {NEST}[g] is old({NEST}[g]) and len({NEST}[g]) == old(len({NEST}[g])) and "
                 f"forall(k, 0, len({NEST}[g]), {NEST}[g][k] is old({NEST}[g][k])))")
    P.verify(f"{ACC}:ClassificationAccuracy.__init__", name="ClassificationAccuracy.__init__[results of several frames]",
             contract=Contract(f"{ACC}:ClassificationAccuracy.__init__", cut=False,
                               params={"self": lambda it: it.ctx.new_cell("obj", {}, CA), NEST: TSList(RT), "num_ground_truth": TInt(),
                                       "target_labels": TSList(TEnum(idx.lookup("common.label:AutowareLabel")))},
                               locals={"all_object_results": RT},
                               ghosts={"results_before": gt_}, defs=dt_(lambda g: f"len({NEST}[{g}])", f"len({NEST})"),
                               requires=E("some_frames", f"len({NEST}) > 0", "frames_are_distinct_lists", f"forall(a, 0, len({NEST}), forall(b, 0, len({NEST}), implies(a != b, {NEST}[a] is not {NEST}[b])))"),
                               loops={1: LoopSpec(index="f", invariants=E(
                                   "a_new_list_with_the_results_of_the_frames_so_far", f"not is_old(all_object_results) and allocated(all_object_results) and len(all_object_results) == results_before(f)",
                                   "callers_lists_untouched", untouched))},
                               ensures=E("predictions_counted_once_each", f"self.objects_results_num == results_before(len({NEST}))",
                                         "tp_plus_fp_is_number_of_pairs", "self.num_tp + self.num_fp == self.objects_results_num",
                                         "callers_lists_untouched", untouched)),
             extra_contracts=cuts)
    pairing_tasks(P)
    dispatch_tasks(P)
    tlr_tasks(P)
    P.bounded.append(dict(what="'the number of label-correct pairs is the largest possible under the rule' (and, again, every pairing clause on the real functions end to end)",
                          bound="exhaustive: up to 3 estimates x 3 ground truths, 3 labels, 2 camera frames, unique uuids per side and frame, both uuid-first settings; shared ids across cameras sampled",
                          where="replay/C11.py on the real functions"))
    P.uncover("maximality of the NUMBER of label-correct pairs is not a proof obligation: it follows from the verified 'no label pair is left among the unpaired' because objects of equal "
              "label and camera form complete bipartite classes (argued in DESIGN.md), and is checked up to the stated bound")
    P.assume("label agreement of a pair is is_label_correct (policy table: C01's _get_score_table contract)")
    P.assume("the four formulas are proved for 0 <= TP <= min(number of results, number of ground truths): with false-positive-labelled ground truths paired by uuid the code can count "
             "more TPs than ground truths of that label (accuracy above 1) - observed, read as outside the quantifier's label assignments")
    P.assume("estimates / ground truths are lists of pairwise distinct objects with non-null uuids (posE / posG: each object knows its input position); for _get_object_results_with_id "
             "additionally uuids are unique per side and camera (the property's quantifier domain)")


def models(P):
    """ROI-less 2-D objects and the result object that pairs two of them"""
    import contracts.C10 as C10
    idx = P.index
    C10.models(P)
    P.model(ClassModel("Roi", {}, repo_class=idx.lookup("common.object2d:Roi")))
    P.model(ClassModel("TLLabel", {"label": TEnum(idx.lookup("common.label:TrafficLightLabel")), "name": TStr()}, repo_class=idx.lookup("common.label:Label")))
    for oname, lab in (("DynamicObject2D", "Label"), ("DynamicObject2DTL", "TLLabel")):
        P.model(ClassModel(oname, {"uuid": TOpt(TStr()), "frame_id": TEnum(idx.lookup("common.schema:FrameID")), "semantic_label": TSObj(lab), "roi": TSObj("Roi", nullable=True)},
                           repo_class=idx.lookup("common.object2d:DynamicObject2D")))
    cm = P.model(ClassModel("DynamicObjectWithPerceptionResult", {"estimated_object": TSObj("DynamicObject2D"), "ground_truth_object": TSObj("DynamicObject2D", nullable=True)},
                            repo_class=idx.lookup(f"{OR}:DynamicObjectWithPerceptionResult")))
    cm.alloc_smt = True


def pairing_tasks(P):
    """the identity-based pairing of ROI-less 2-D objects"""
    idx = P.index
    FID = idx.lookup("common.schema:FrameID")
    O2, RT = TSObj("DynamicObject2D"), TSList(TSObj("DynamicObjectWithPerceptionResult"))
    E_, G_, EW, GW, OUT = "estimated_objects", "ground_truth_objects", "estimated_objects_", "ground_truth_objects_", "object_results"
    nE, nG = f"len({E_})", f"len({G_})"
    match = lambda i, j: f"({E_}[{i}].uuid == {G_}[{j}].uuid and {E_}[{i}].frame_id is {G_}[{j}].frame_id)"
    partner, gpartner = int_fn("partner", 1), int_fn("gpartner", 1)
    gc, dc = count_fn("paired_before", step_trigger=True)
    gn, dn = rank_inverse("nth_unpaired", "paired_before", lambda k: f"partner({k}) < 0")
    P.install(lambda it: setattr(it.ctx, "append_carry", True))      # removals from a working copy that carries an existential invariant
    defs = [("partner.def", f"forall(i, 0, {nE}, (partner(i) == -1 and forall(j, 0, {nG}, not {match('i', 'j')})) or (0 <= partner(i) and partner(i) < {nG} and {match('i', 'partner(i)')}), partner(i))"),
            ("gpartner.def", f"forall(j, 0, {nG}, (gpartner(j) == -1 and forall(i, 0, {nE}, not {match('i', 'j')})) or (0 <= gpartner(j) and gpartner(j) < {nE} and {match('gpartner(j)', 'j')}), gpartner(j))"),
            ] + dc(lambda k: f"partner({k}) >= 0", nE) + dn(nE)
    unique = lambda L: f"forall(a, 0, len({L}), forall(b, 0, len({L}), implies(a != b, {L}[a] is not {L}[b] and not ({L}[a].uuid == {L}[b].uuid and {L}[a].frame_id is {L}[b].frame_id))))"
    requires = E("uuids_set", f"forall(a, 0, {nE}, {E_}[a].uuid is not None) and forall(b, 0, {nG}, {G_}[b].uuid is not None)",
                 "unique_per_side_and_camera", f"{unique(E_)} and {unique(G_)}", "lists", f"{E_} is not {G_}")
    untouched = (f"{nE} == old({nE}) and {nG} == old({nG}) and forall(k, 0, {nE}, {E_}[k] is old({E_}[k]) and {E_}[k].uuid == old({E_}[k].uuid) and {E_}[k].frame_id is old({E_}[k].frame_id)) and "
                 f"forall(k, 0, {nG}, {G_}[k] is old({G_}[k]) and {G_}[k].uuid == old({G_}[k].uuid) and {G_}[k].frame_id is old({G_}[k].frame_id))")
    fresh = (f"not is_old({OUT}) and not is_old({EW}) and not is_old({GW}) and allocated({OUT}) and allocated({EW}) and allocated({GW}) and "
             f"{OUT} is not {EW} and {OUT} is not {GW} and {EW} is not {GW}")
    pairs = lambda out, upto: (f"forall(k, 0, {upto}, implies(partner(k) >= 0, {out}[paired_before(k)].estimated_object is {E_}[k] and "
                               f"{out}[paired_before(k)].ground_truth_object is {G_}[partner(k)]))")
    exist = lambda out, upto: f"forall(p, 0, {upto}, is_new({out}[p]) and allocated({out}[p]))"
    rest_e = lambda i, shift: (f"forall(k, 0, {nE}, implies(k < {i} and partner(k) < 0, 0 <= k - paired_before(k) and k - paired_before(k) < {i} - paired_before({i}) and {EW}[k - paired_before(k)] is {E_}[k]) and "
                               f"implies(k >= {i}, {EW}[k - {shift}] is {E_}[k]))")
    # ... and nothing else: every position of the working copy holds an unpaired earlier estimate or a later one
    src_e = lambda i, shift: (f"forall(p, 0, len({EW}), implies(p < {i} - paired_before({i}), {EW}[p] is {E_}[nth_unpaired(p)]) and "
                              f"implies(p >= {i} - paired_before({i}), {EW}[p] is {E_}[p + {shift}]))")
    rest_g = lambda cond: f"forall(m, 0, {nG}, implies({cond('m')}, exists(p, 0, len({GW}), {GW}[p] is {G_}[m])))"
    the_match = f"forall(a, 0, {nE}, forall(b, 0, {nG}, implies({match('a', 'b')}, partner(a) == b and gpartner(b) == a)))"
    outer = E("lists", f"{fresh} and len({OUT}) == paired_before(i) and len({EW}) == {nE} - len({OUT})",
              "the_partner_is_the_only_match", the_match,
              "pairs_so_far", pairs(OUT, "i"), "results_exist", exist(OUT, f"len({OUT})"),
              "unpaired_estimates_remain_in_order", rest_e("i", f"len({OUT})"),
              "working_copy_holds_nothing_else", src_e("i", f"len({OUT})"),
              "unpaired_ground_truths_remain", rest_g(lambda m: f"gpartner({m}) < 0 or gpartner({m}) >= i"),
              "inputs_untouched", untouched)
    done = "(partner(i) >= 0 and partner(i) < j)"
    inner = E("position", f"0 <= i and i < {nE} and est_object is {E_}[i]",
              "lists", f"{fresh} and implies({done}, len({OUT}) == paired_before(i) + 1) and implies(not {done}, len({OUT}) == paired_before(i)) and len({EW}) == {nE} - len({OUT})",
              "the_partner_is_the_only_match", the_match,
              "pairs_so_far", pairs(OUT, "i") + f" and implies({done}, {OUT}[paired_before(i)].estimated_object is {E_}[i] and {OUT}[paired_before(i)].ground_truth_object is {G_}[partner(i)])",
              "results_exist", exist(OUT, f"len({OUT})"),
              "unpaired_estimates_remain_in_order", f"forall(k, 0, {nE}, implies(k < i and partner(k) < 0, 0 <= k - paired_before(k) and k - paired_before(k) < i - paired_before(i) and {EW}[k - paired_before(k)] is {E_}[k]) and "
                                                    f"implies(k > i, {EW}[k - len({OUT})] is {E_}[k])) and implies(not {done}, {EW}[i - paired_before(i)] is {E_}[i])",
              "working_copy_holds_nothing_else", f"forall(p, 0, len({EW}), implies(p < i - paired_before(i), {EW}[p] is {E_}[nth_unpaired(p)]) and "
                                                 f"implies(p >= i - paired_before(i), {EW}[p] is {E_}[p + len({OUT})]))",
              "unpaired_ground_truths_remain", rest_g(lambda m: f"gpartner({m}) < 0 or gpartner({m}) > i or (gpartner({m}) == i and {m} >= j)"),
              "inputs_untouched", untouched)
    tl = lambda L, n: f"exists(q, 0, {n}, {L}[q].frame_id is FrameID.CAM_TRAFFIC_LIGHT)"
    some_rest_tl = f"exists(q, 0, {nE}, partner(q) < 0 and {E_}[q].frame_id is FrameID.CAM_TRAFFIC_LIGHT)"
    P.verify(f"{OR}:_get_object_results_with_id", name="_get_object_results_with_id",
             contract=Contract(f"{OR}:_get_object_results_with_id", cut=False, params={E_: TSList(O2), G_: TSList(O2)}, returns=RT,
                               locals={OUT: RT, EW: TSList(O2), GW: TSList(O2)},
                               ghosts={"partner": partner, "gpartner": gpartner, "paired_before": gc, "nth_unpaired": gn}, defs=defs, requires=requires,
                               loops={1: LoopSpec(index="i", invariants=outer), 2: LoopSpec(index="j", invariants=inner)},
                               hints={"estimated_objects_.remove(est_object)": E(
                                   "this_is_the_partner", "partner(i) == j and gpartner(j) == i",
                                   "the_estimate_sits_right_after_the_unpaired_earlier_ones",
                                   f"{EW}[i - paired_before(i)] is est_object and forall(p, 0, i - paired_before(i), {EW}[p] is not est_object)")},
                               # top-level postconditions do not prescribe the ORDER of the results (the statement does not): the positional facts live in the invariants
                               ensures=E("every_same_uuid_same_camera_couple_is_a_pair",
                                         f"forall(k, 0, {nE}, implies(partner(k) >= 0, exists(p, 0, len(result), result[p].estimated_object is {E_}[k] and result[p].ground_truth_object is {G_}[partner(k)])))",
                                         "nothing_else_is_paired_and_each_object_is_used_once",
                                         # as many results with a ground truth as there are couples (one each by the clause above), the rest - if reported at all - without ground truth
                                         f"(len(result) == paired_before({nE}) or len(result) == {nE}) and forall(p, paired_before({nE}), len(result), result[p].ground_truth_object is None)",
                                         # whether unpaired estimates are reported at all (they are not when a traffic-light camera leftover remains) is not part of the
                                         # property: what is stated is "each object at most once", so IF they are reported, each once, without ground truth
                                         "unpaired_estimates_if_reported_then_once_each_without_ground_truth",
                                         f"implies(len(result) == {nE}, forall(k, 0, {nE}, implies(partner(k) < 0, "
                                         f"result[paired_before({nE}) + k - paired_before(k)].estimated_object is {E_}[k] and result[paired_before({nE}) + k - paired_before(k)].ground_truth_object is None)))",
                                         "inputs_untouched", untouched)),
             extra_contracts={idx.lookup(f"{OR}:DynamicObjectWithPerceptionResult.__init__").fq: C01.result_ctor_contract(),
                              idx.lookup(f"{OR}:_get_fp_object_results").fq: fp_cut(RT, O2)})


def dispatch_tasks(P):
    """get_object_results hands ROI-less 2-D objects to the identity-based pairing: traffic lights to the label-then-uuid pairing, everything else to the uuid pairing"""
    idx = P.index
    RT = TSList(TSObj("DynamicObjectWithPerceptionResult"))
    E_, G_ = "estimated_objects", "ground_truth_objects"
    OM = "evaluation.matching.object_matching"
    named = {"_get_object_results_with_id": f"uf_bool('paired_by_uuid', result, {E_}, {G_})",
             "_get_object_results_for_tlr": f"uf_bool('paired_by_label_then_uuid', result, {E_}, {G_}, uuid_matching_first)"}
    cuts = {idx.lookup(f"{OR}:{fn}").fq: Contract(f"{OR}:{fn}", params={}, returns=RT, ensures=E("named_result", tx)) for fn, tx in named.items()}
    for oname, fn, tag in (("DynamicObject2D", "_get_object_results_with_id", "ordinary labels"), ("DynamicObject2DTL", "_get_object_results_for_tlr", "traffic-light labels")):
        O2 = TSObj(oname)
        P.verify(f"{OR}:get_object_results", name=f"get_object_results[ROI-less 2-D objects, {tag}]",
                 contract=Contract(f"{OR}:get_object_results", cut=False,
                                   params={"evaluation_task": TEnum(idx.lookup("common.evaluation_task:EvaluationTask")), E_: TSList(O2), G_: TSList(O2),
                                           "target_labels": Opt(TSList(TEnum(idx.lookup("common.label:AutowareLabel")))),
                                           "matching_label_policy": TEnum(idx.lookup(f"{OM}:MatchingLabelPolicy")), "matching_mode": TEnum(idx.lookup(f"{OM}:MatchingMode")),
                                           "matchable_thresholds": Opt(TSList(TReal())), "transforms": lambda it: VOpaque("transformdict", it.ctx.fresh("transforms", I)),
                                           "uuid_matching_first": TBool()},
                                   returns=RT,
                                   requires=E("both_lists_non_empty", f"len({E_}) > 0 and len({G_}) > 0",
                                              "no_roi_on_the_first_estimate_or_the_first_ground_truth", f"{E_}[0].roi is None or {G_}[0].roi is None"),
                                   # traffic lights: either identity-based pairing is within the statement when uuid-first matching is requested (label+uuid, then uuid,
                                   # pairs exactly the same-uuid couples; whether partnerless estimates are reported is not stated) - what must not happen is geometry
                                   ensures=E("paired_by_identity_not_by_geometry",
                                             named[fn] if fn.endswith("with_id") else f"({named[fn]}) or (uuid_matching_first and {named['_get_object_results_with_id']})")),
                 extra_contracts=cuts)


def tlr_tasks(P):
    """_get_object_results_for_tlr: label stage then uuid stage, each greedy in list order over two working copies.  All invariants are universal
    (C01 style: input positions as uninterpreted functions posE / posG); what is left unpaired is read off the working copies"""
    idx = P.index
    # the pairing code never looks at the label family (labels are only compared): the objects are modelled with the one 2-D object model the result
    # class refers to (a second model of the same class would live in separate field maps)
    O2, RT = TSObj("DynamicObject2D"), TSList(TSObj("DynamicObjectWithPerceptionResult"))
    E_, G_, EW, GW, OUT, RE, RG = "estimated_objects", "ground_truth_objects", "estimated_objects_", "ground_truth_objects_", "object_results", "rest_estimated_objects_", "rest_ground_truth_objects_"
    nE, nG = f"len({E_})", f"len({G_})"
    pe, pg = (lambda o: f"uf_int('posE', {o})"), (lambda o: f"uf_int('posG', {o})")
    same_cam = lambda e, g: f"({e}.frame_id is {g}.frame_id)"
    cond1 = lambda e, g: f"({e}.semantic_label.label is {g}.semantic_label.label and implies(uuid_matching_first, {e}.uuid == {g}.uuid) and {same_cam(e, g)})"
    cond2 = lambda e, g: f"({e}.uuid == {g}.uuid and {same_cam(e, g)})"
    est, gt = (lambda k: f"{OUT}[{k}].estimated_object"), (lambda k: f"{OUT}[{k}].ground_truth_object")
    from_input = lambda L, src, pos, n: (f"forall(p, 0, len({L}), 0 <= {pos(L + '[p]')} and {pos(L + '[p]')} < {n} and {L}[p] is {src}[{pos(L + '[p]')}]) and "
                                         f"forall(p, 0, len({L}), forall(q, 0, len({L}), implies(p < q, {pos(L + '[p]')} < {pos(L + '[q]')})))")
    untouched = (f"{nE} == old({nE}) and {nG} == old({nG}) and forall(k, 0, {nE}, {E_}[k] is old({E_}[k])) and forall(k, 0, {nG}, {G_}[k] is old({G_}[k]))")
    fields = (f"forall(k, 0, {nE}, {E_}[k].uuid == old({E_}[k].uuid) and {E_}[k].frame_id is old({E_}[k].frame_id) and {E_}[k].semantic_label is old({E_}[k].semantic_label)) and "
              f"forall(k, 0, {nG}, {G_}[k].uuid == old({G_}[k].uuid) and {G_}[k].frame_id is old({G_}[k].frame_id) and {G_}[k].semantic_label is old({G_}[k].semantic_label))")

    def core(rest=False):
        lists = [OUT, EW, GW] + ([RE, RG] if rest else [])
        c = E("working_lists_are_new", " and ".join(f"not is_old({L}) and allocated({L})" for L in lists) + f" and distinct({', '.join(lists)})",
              "remaining_estimates_from_the_input_in_order", from_input(EW, E_, pe, nE),
              "remaining_ground_truths_from_the_input_in_order", from_input(GW, G_, pg, nG),
              "counts", f"len({OUT}) + len({EW}) == {nE} and len({OUT}) + len({GW}) == {nG}",
              "results_exist", f"forall(k, 0, len({OUT}), is_new({OUT}[k]) and allocated({OUT}[k]))",
              "paired_estimates_from_the_input", f"forall(k, 0, len({OUT}), 0 <= {pe(est('k'))} and {pe(est('k'))} < {nE} and {est('k')} is {E_}[{pe(est('k'))}])",
              "paired_ground_truths_from_the_input", f"forall(k, 0, len({OUT}), {gt('k')} is not None and 0 <= {pg(gt('k'))} and {pg(gt('k'))} < {nG} and {gt('k')} is {G_}[{pg(gt('k'))}])",
              "pairs_of_one_camera_by_label_or_uuid", f"forall(k, 0, len({OUT}), {cond1(est('k'), gt('k'))}" + (f" or {cond2(est('k'), gt('k'))})" if rest else ")"),
              "paired_objects_left_the_working_copies", f"forall(k, 0, len({OUT}), forall(p, 0, len({EW}), {EW}[p] is not {est('k')}) and forall(q, 0, len({GW}), {GW}[q] is not {gt('k')}))",
              "each_object_in_at_most_one_pair", f"forall(k, 0, len({OUT}), forall(m, 0, len({OUT}), implies(k < m, {est('k')} is not {est('m')} and {gt('k')} is not {gt('m')})))",
              "inputs_untouched", untouched + " and " + fields)
        if rest:
            c += E("snapshots_from_the_input_in_order", from_input(RE, E_, pe, nE) + " and " + from_input(RG, G_, pg, nG),
                   "remaining_estimates_within_the_snapshot", f"forall(p, 0, len({EW}), exists(a, 0, len({RE}), {RE}[a] is {EW}[p]), {EW}[p])",
                   "remaining_ground_truths_within_the_snapshot", f"forall(q, 0, len({GW}), exists(b, 0, len({RG}), {RG}[b] is {GW}[q]), {GW}[q])",
                   "no_label_pair_left", f"forall(p, 0, len({EW}), forall(q, 0, len({GW}), not {cond1(EW + '[p]', GW + '[q]')}))")
        return c
    s1_done = lambda bound: f"forall(p, 0, len({EW}), forall(q, 0, len({GW}), implies({pe(EW + '[p]')} < {bound}, not {cond1(EW + '[p]', GW + '[q]')})))"
    inv1 = core() + E("no_label_pair_left_among_the_estimates_seen", s1_done("i"))
    inv3 = core() + E("position", f"0 <= i and i < {nE} and est_object is {E_}[i] and {pe('est_object')} == i",
                      "no_label_pair_left_among_the_estimates_seen", s1_done("i"),
                      "this_estimate_has_no_label_pair_among_the_ground_truths_seen",
                      f"forall(p, 0, len({EW}), forall(q, 0, len({GW}), implies({pe(EW + '[p]')} == i and {pg(GW + '[q]')} < j, not {cond1(EW + '[p]', GW + '[q]')})))")
    s2_done = lambda a: f"forall(p, 0, len({EW}), forall(q, 0, len({GW}), forall(c, 0, {a}, implies({RE}[c] is {EW}[p], not {cond2(EW + '[p]', GW + '[q]')}))))"
    inv2 = core(True) + E("no_uuid_pair_left_among_the_leftovers_seen", s2_done("a"))
    inv4 = core(True) + E("position", f"0 <= a and a < len({RE}) and est_object is {RE}[a]",
                          "no_uuid_pair_left_among_the_leftovers_seen", s2_done("a"),
                          "this_leftover_has_no_uuid_pair_among_the_ground_truths_seen",
                          f"forall(p, 0, len({EW}), forall(q, 0, len({GW}), forall(c, 0, b, implies({RE}[a] is {EW}[p] and {RG}[c] is {GW}[q], not {cond2(EW + '[p]', GW + '[q]')}))))")
    P.install(lambda it: setattr(it.ctx, "append_carry", True))
    for uf in (False, True):
        P.verify(f"{OR}:_get_object_results_for_tlr", name=f"_get_object_results_for_tlr[uuid first: {uf}]",
                 contract=Contract(f"{OR}:_get_object_results_for_tlr", cut=False, params={E_: TSList(O2), G_: TSList(O2), "uuid_matching_first": VBool(uf)}, returns=RT,
                                   locals={OUT: RT, EW: TSList(O2), GW: TSList(O2), RE: TSList(O2), RG: TSList(O2)},
                                   requires=E("estimates_are_a_set", f"forall(k, 0, {nE}, {pe(E_ + '[k]')} == k)", "ground_truths_are_a_set", f"forall(k, 0, {nG}, {pg(G_ + '[k]')} == k)",
                                              "uuids_set", f"forall(a, 0, {nE}, {E_}[a].uuid is not None) and forall(b, 0, {nG}, {G_}[b].uuid is not None)", "lists", f"{E_} is not {G_}"),
                                   loops={1: LoopSpec(index="i", invariants=inv1), 2: LoopSpec(index="a", invariants=inv2, unchanged=[RE, RG]),
                                          3: LoopSpec(index="j", invariants=inv3), 4: LoopSpec(index="b", invariants=inv4, unchanged=[RE, RG])},
                                   ensures=E("pairs_are_input_objects_of_one_camera_with_equal_label_or_equal_uuid",
                                             f"forall(k, 0, len(result), 0 <= {pe('result[k].estimated_object')} and {pe('result[k].estimated_object')} < {nE} and "
                                             f"result[k].estimated_object is {E_}[{pe('result[k].estimated_object')}] and result[k].ground_truth_object is not None and "
                                             f"result[k].ground_truth_object is {G_}[{pg('result[k].ground_truth_object')}] and "
                                             f"({cond1('result[k].estimated_object', 'result[k].ground_truth_object')} or {cond2('result[k].estimated_object', 'result[k].ground_truth_object')}))",
                                             "each_object_in_at_most_one_pair",
                                             "forall(k, 0, len(result), forall(m, 0, len(result), implies(k < m, result[k].estimated_object is not result[m].estimated_object and "
                                             "result[k].ground_truth_object is not result[m].ground_truth_object)))",
                                             "the_unpaired_objects_are_those_left_in_the_working_copies",
                                             f"len(result) + len(local('{EW}', None)) == {nE} and len(result) + len(local('{GW}', None)) == {nG} and "
                                             f"forall(k, 0, len(result), forall(p, 0, len(local('{EW}', None)), local('{EW}', None)[p] is not result[k].estimated_object))",
                                             "no_pair_by_label_or_by_uuid_is_left_among_the_unpaired",
                                             f"forall(p, 0, len(local('{EW}', None)), forall(q, 0, len(local('{GW}', None)), "
                                             f"not {cond1('local(chr(39) + chr(39), None)', 'x')})".replace("not " + cond1('local(chr(39) + chr(39), None)', 'x'),
                                                 "not " + cond1(f"local('{EW}', None)[p]", f"local('{GW}', None)[q]") + " and not " + cond2(f"local('{EW}', None)[p]", f"local('{GW}', None)[q]")) + ")",
                                             "inputs_untouched", untouched)),
                 extra_contracts={idx.lookup(f"{OR}:DynamicObjectWithPerceptionResult.__init__").fq: C01.result_ctor_contract()})


def fp_cut(RT, O2):
    c = C01.fp_results_contract()
    c.params = {"estimated_objects": TSList(O2)}
    c.returns = RT
    c.locals = {"object_results": RT}
    return c
