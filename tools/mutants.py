#!/usr/bin/env python3
"""Deliberate-breakage runner: applies each listed edit to a scratch copy of the repository (outside /repo and /verif),
runs the property's check against it (PYVC_REPO) and reports which edits are caught.  The scratch copy is removed.

usage: tools/mutants.py C10 [name-regex]
mutants/<pid>.json: [{"name":..., "file":..., "old":..., "new":..., "count": 1, "expect": "violation"|"pass"}]
"""
import json, os, re, shutil, subprocess, sys, tempfile

VERIF = os.path.dirname(os.path.dirname(os.path.abspath(__file__)))
REPO = os.environ.get("PYVC_REPO_SRC", "/repo")


def main():
    pid = sys.argv[1]
    pat = sys.argv[2] if len(sys.argv) > 2 else None
    muts = json.load(open(os.path.join(VERIF, "mutants", f"{pid}.json")))
    ok = True
    for m in muts:
        if pat and not re.search(pat, m["name"]):
            continue
        d = tempfile.mkdtemp(prefix="pyvc-mut-", dir="/tmp")
        try:
            shutil.copytree(os.path.join(REPO, "perception_eval"), os.path.join(d, "perception_eval"),
                            ignore=shutil.ignore_patterns("__pycache__", "*.pyc", ".git", "test"))
            p = os.path.join(d, m["file"])
            s = open(p).read()
            n = s.count(m["old"])
            if n < 1:
                print(f"{m['name']}: STALE (pattern not found)")
                ok = False
                continue
            s = s.replace(m["old"], m["new"], m.get("count", 1))
            open(p, "w").write(s)
            env = dict(os.environ, PYVC_REPO=d, PYVC_EVIDENCE_DIR=os.path.join(d, "evidence"))
            r = subprocess.run([os.path.join(VERIF, "check"), pid], capture_output=True, text=True, env=env)
            viol = [l for l in r.stdout.splitlines() if l.startswith("VIOLATION")]
            got = {0: "pass", 1: "violation", 2: "undecided", 3: "engine-error"}.get(r.returncode, str(r.returncode))
            exp = m.get("expect", "violation")
            flag = "ok" if got == exp else "MISMATCH"
            if got != exp:
                ok = False
            first = ""
            for l in r.stdout.splitlines():
                if l.startswith("  obligation") or l.startswith("UNDECIDED") or l.startswith("ENGINE"):
                    first = l.strip()[:200]
                    break
            print(f"{m['name']}: {got} (expected {exp}) {flag} | {len(viol)} violation lines | {first}")
        finally:
            shutil.rmtree(d, ignore_errors=True)
    return 0 if ok else 1


if __name__ == "__main__":
    sys.exit(main())
