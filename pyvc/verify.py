"""Verification of one repository function against its sidecar contract: generates the obligations."""
from __future__ import annotations

import time

import z3

from .values import *
from .ctx import Ctx, PathEnd, NeedFork, Obligation, has_quant
from .interp import Interp, Frame, PyRaise, _Return, _Break, _Continue, Contract, ClassModel, LoopSpec


import os
_TRACE = bool(os.environ.get("PYVC_TRACE"))


class TaskResult:
    def __init__(self, name):
        self.name = name
        self.obligations = []
        self.paths = 0
        self.returns = 0
        self.raises = {}
        self.covers = {}
        self.gen_s = 0.0
        self.functions = set()
        self.error = None


def mark_old(ctx, v, depth=0):
    """inputs (and what they reach through SMT lists) exist before the call"""
    if v.kind == "sobj":
        ctx.assume(z3.Or(v.z == 0, ctx.is_old(v.z)) if v.nullable else ctx.is_old(v.z))
    elif v.kind == "slist":
        ctx.assume(z3.Or(v.z == 0, ctx.is_old(v.z)) if v.nullable else ctx.is_old(v.z))
        if v.elem.comps() and isinstance(v.elem, (TSObj, TSList)):
            k = z3.Int("k!old")
            it = ctx.sitem(v, k)
            ctx.assume(z3.ForAll([k], z3.Or(it.z == 0, ctx.is_old(it.z))))
            rng = z3.And(0 <= k, k < ctx.slen(v.z))
            if not v.elem.nullable:
                ctx.assume(z3.ForAll([k], z3.Implies(rng, it.z != 0)))
            ctx.assume(z3.ForAll([k], z3.Implies(z3.And(rng, it.z != 0), REF_TYPE(it.z) == v.elem.tag())))
    elif v.kind == "ref" and depth < 6:
        # a concrete-spine argument (object / list / dict built by the task): what it holds exists before the call as well
        cell = ctx.cheap.get(v.addr)
        vals = []
        if isinstance(cell, dict):
            vals = list(cell.values())
        elif isinstance(cell, list):
            vals = cell
        elif isinstance(cell, tuple):
            vals = list(cell[0]) + list(cell[1])
        for x in vals:
            if isinstance(x, Val):
                mark_old(ctx, x, depth + 1)
    elif v.kind == "tuple":
        for x in v.items:
            mark_old(ctx, x, depth + 1)
    elif v.kind == "opt":
        mark_old(ctx, v.inner, depth + 1)


def heap_axioms(interp, param_types):
    """well-formedness of the pre-state heap: whatever an existing object reaches through a declared field or list
    exists before the call, has the declared dynamic type and is non-null unless declared nullable"""
    ctx = interp.ctx
    o, k = z3.Int("o!wf"), z3.Int("k!wf")
    list_types = {}

    def note(t):
        if isinstance(t, TSList):
            key = repr(t.elem)
            if key not in list_types:
                list_types[key] = t
                note(t.elem)
        elif isinstance(t, TTuple):
            for x in t.ts:
                note(x)
        elif isinstance(t, TOpt):
            note(t.inner)
    for t in param_types:
        note(t)
    for cm in interp.class_models.values():
        for t in cm.fields.values():
            note(t)

    def ref_facts(t, r):
        """facts about a stored reference r of declared type t (TSObj / TSList)"""
        body = z3.And(ctx.is_old(r), REF_TYPE(r) == t.tag())
        return z3.Or(r == 0, body) if t.nullable else z3.And(r != 0, body)
    for cm in interp.class_models.values():
        owner = z3.And(ctx.is_old(o), REF_TYPE(o) == TSObj(cm.name).tag(), o != 0)
        for fname, t in cm.fields.items():
            if isinstance(t, (TSObj, TSList)):
                r = z3.Select(ctx.field_map(cm.name, fname, "", I), o)
                ctx.pc.append(z3.ForAll([o], z3.Implies(owner, ref_facts(t, r))))
            elif isinstance(t, TEnum):
                r = z3.Select(ctx.field_map(cm.name, fname, "", I), o)
                n = len(ctx.enum_members(t.ecls))
                ctx.pc.append(z3.ForAll([o], z3.Implies(owner, z3.And((-1 if t.nullable else 0) <= r, r < n))))
    for t in list_types.values():
        if isinstance(t.elem, (TSObj, TSList)):
            owner = z3.And(ctx.is_old(o), REF_TYPE(o) == t.tag(), o != 0, 0 <= k, k < ctx.slen(o))
            r = z3.Select(z3.Select(ctx.item_map("", I), o), k)
            ctx.pc.append(z3.ForAll([o, k], z3.Implies(owner, ref_facts(t.elem, r))))
        elif isinstance(t.elem, TEnum):
            owner = z3.And(ctx.is_old(o), REF_TYPE(o) == t.tag(), o != 0, 0 <= k, k < ctx.slen(o))
            r = z3.Select(z3.Select(ctx.item_map("", I), o), k)
            n = len(ctx.enum_members(t.elem.ecls))
            ctx.pc.append(z3.ForAll([o, k], z3.Implies(owner, z3.And((-1 if t.elem.nullable else 0) <= r, r < n))))


def run_task(interp_factory, target, contract, name=None, args_builder=None, setup=None, max_paths=20000,
             extra_ensures=(), check_frame=True):
    """Symbolically execute `target` (a 'module:qualname') against `contract` on every path.

    interp_factory() -> fresh Interp with contracts / class models / externals installed.
    args_builder(interp, frame_vars) may replace the default symbolic arguments (dict name -> Val).
    """
    t0 = time.time()
    interp = interp_factory()
    ctx = interp.ctx
    fi = interp.index.lookup(target)
    res = TaskResult(name or target)
    a = fi.node.args
    pnames = [p.arg for p in a.posonlyargs + a.args] + ([a.vararg.arg] if a.vararg else []) + [p.arg for p in a.kwonlyargs] + ([a.kwarg.arg] if a.kwarg else [])
    while True:
        ctx.reset()
        interp.mod_frames = {}
        interp.old_state = None
        interp.verifying = fi.fq
        ctx.func_stack.append(fi.fq)
        res.paths += 1
        if res.paths > max_paths:
            raise EngineError(f"{target}: more than {max_paths} paths")
        try:
            # global heap axioms
            r = z3.Int("r!ax")
            ctx.assume(z3.ForAll([r], z3.Select(ctx.len_map(), r) >= 0))
            entry = Frame(fi.module, fi)
            vals = {}
            built = args_builder(interp) if args_builder is not None else {}
            for p in pnames:
                if p in built:
                    vals[p] = built[p]
                elif p in contract.params:
                    t = contract.params[p]
                    vals[p] = t.fresh(ctx, p) if isinstance(t, T) else (t(interp) if callable(t) else t)
                elif a.vararg is not None and p == a.vararg.arg:
                    vals[p] = VTuple(())
                elif a.kwarg is not None and p == a.kwarg.arg:
                    vals[p] = ctx.new_cell("dict", ([], []))
                else:
                    d = _default_of(fi, p)
                    if d is None:
                        raise EngineError(f"{target}: no type for parameter {p}")
                    vals[p] = interp.ev(d, interp.module_frame(fi.module))
                mark_old(ctx, vals[p])
            entry.vars.update(vals)
            heap_axioms(interp, [t for t in contract.params.values() if isinstance(t, T)])
            interp.ghost_env = {}
            for gname, gb in contract.ghosts.items():
                entry.vars[gname] = gb(interp, entry) if callable(gb) else gb
                interp.ghost_env[gname] = entry.vars[gname]
            if setup is not None:
                setup(interp, entry)
            for nm, tx in contract.requires:
                ctx.assume(interp.truth(interp.eval_spec(tx, entry)))
            for nm, tx in contract.defs:
                ctx.assume(interp.truth(interp.eval_spec(tx, entry)))
            ctx.base_len = len(ctx.pc)
            ctx.entry_addr = ctx.next_addr
            ctx.oblige("canary.requires_satisfiable", z3.BoolVal(False), fi.node, kind="canary")
            interp.old_state = interp.snapshot()
            entry_vals = dict(entry.vars)
            outcome, val, line = None, None, fi.node.end_lineno
            try:
                ordered = [vals[p.arg] for p in a.posonlyargs + a.args]
                kw = {p.arg: vals[p.arg] for p in a.kwonlyargs}
                if a.vararg:
                    ordered += list(vals[a.vararg.arg].items)
                if a.kwarg:
                    ks, vs = ctx.cell(vals[a.kwarg.arg])
                    kw.update({k.const: v for k, v in zip(ks, vs)})
                try:
                    val = _call_body(interp, fi, ordered, kw)
                    outcome = "return"
                    line = val[1]
                    val = val[0]
                except PyRaise as pr:
                    outcome, val, line = "raise", pr.exc, getattr(pr.node, "lineno", 0)
            finally:
                pass
            spec_fr = Frame(fi.module, fi)
            spec_fr.vars.update(entry_vals)
            if outcome == "return":
                res.returns += 1
                spec_fr.vars["result"] = val
                for nm, tx in list(contract.ensures) + list(extra_ensures):
                    g = interp.truth(interp.eval_spec(tx, spec_fr))
                    ctx.oblige(f"post.{nm}@return:{line}", g, None, kind="post")
                if check_frame:
                    _frame_obligations(interp, contract, spec_fr, line)
            else:
                res.raises[val.cname] = res.raises.get(val.cname, 0) + 1
                if val.cname in contract.raises:
                    g = interp.truth(interp.eval_spec(contract.raises[val.cname], spec_fr))
                    ctx.oblige(f"raises.{val.cname}.only_when@{line}", g, None, kind="raises")
                else:
                    ctx.oblige(f"no_raise.{val.cname}@{line}", z3.BoolVal(False), None, kind="raises")
        except PathEnd:
            pass
        finally:
            ctx.func_stack.pop()
        if _TRACE:
            print("PATH", res.paths, " ".join(ctx.decisions_desc))
        if not ctx.backtrack():
            break
    res.obligations = ctx.obligations
    res.covers = dict(ctx.covers)
    res.functions = set(interp.called) | {fi.fq}
    res.gen_s = time.time() - t0
    res.stats = dict(ctx.stats)
    return res


def _default_of(fi, p):
    a = fi.node.args
    params = a.posonlyargs + a.args
    defaults = [None] * (len(params) - len(a.defaults)) + list(a.defaults)
    for q, d in zip(params, defaults):
        if q.arg == p:
            return d
    for q, d in zip(a.kwonlyargs, a.kw_defaults):
        if q.arg == p:
            return d
    return None


def _call_body(interp, fi, ordered, kw):
    """run the body of fi (not its contract); returns (value, return line)"""
    fr = Frame(fi.module, fi, parent=None)
    if fi.outer is not None:
        raise EngineError("verify nested functions through a closure builder")
    interp.bind_args(fi.node.args, ordered, kw, fr, fi.node, fi.qual)
    interp.body_frame = fr
    interp.called.add(fi.fq)
    try:
        interp.exec_block(fi.node.body, fr)
        return (NONE, fi.node.end_lineno)
    except _Return as r:
        return (r.val, r.line)


def _frame_obligations(interp, contract, spec_fr, line):
    """every write to an SMT list / field of a pre-existing object must be licensed by `modifies`"""
    ctx = interp.ctx
    allowed_lists = []
    allowed_fields = set()
    for tx in contract.modifies:
        if isinstance(tx, tuple) and tx[0] == "field":
            allowed_fields.add((tx[1], tx[2]))
        elif isinstance(tx, tuple):
            continue
        else:
            allowed_lists.append(interp.eval_spec(tx, spec_fr).z)
    allowed_cells = set()
    if contract.target.endswith(".__init__") and "self" in spec_fr.vars and spec_fr.vars["self"].kind == "ref":
        allowed_cells.add((spec_fr.vars["self"].addr, None))      # a constructor initialises the object it is given
    for tx in contract.modifies:
        if isinstance(tx, tuple) and tx[0] == "attrs":
            v = interp.eval_spec(tx[1], spec_fr)
            if v.kind == "ref":
                allowed_cells.add((v.addr, None))
        elif isinstance(tx, tuple) and tx[0] == "attr":
            v = interp.eval_spec(tx[1], spec_fr)
            if v.kind == "ref":
                allowed_cells.add((v.addr, tx[2]))
    seen = set()
    for w in ctx.written:
        if w[0] == "cell":
            _, addr, what, node = w
            if (addr, None) in allowed_cells or (addr, what) in allowed_cells:
                continue
            k = ("cell", addr, what)
            if k in seen:
                continue
            seen.add(k)
            ctx.oblige(f"frame.store_into_pre_existing_object.{what}@line{getattr(node, 'lineno', 0)}", z3.BoolVal(False), node, kind="frame")
            continue
        if w[0] == "list":
            ref = w[1]
            k = ("list", ref.get_id())
            if k in seen:
                continue
            seen.add(k)
            ok = z3.Or(z3.Not(ctx.is_old(ref)), *[ref == a for a in allowed_lists])
            ctx.oblige(f"frame.list_write_licensed@line{getattr(w[2], 'lineno', 0)}", ok, w[2], kind="frame")
        elif w[0] == "field":
            _, cname, fname, ref, node = w
            if (cname, fname) in allowed_fields:
                continue
            k = ("field", cname, fname, ref.get_id())
            if k in seen:
                continue
            seen.add(k)
            ctx.oblige(f"frame.field_write_licensed.{cname}.{fname}@line{getattr(node, 'lineno', 0)}", z3.Not(ctx.is_old(ref)), node, kind="frame")
