"""numpy 1-D float vectors of fixed small length (assumed contracts): np.array(sequence), elementwise +/-, np.linalg.norm(v, ord=2, axis=0), .item().

Installed on request (a property's contract file calls vec.install); overrides the 3-vector handlers of mat.py for that property."""
import ast

import z3

from ..values import *
from ..ops import to_real_z
from .pymath import sqrt_of


def vecn(xs):
    return VOpaque("ndarray", None, data={"kind": "vec", "xs": list(xs), "items": [VReal(x) for x in xs]})


def as_vec(interp, v, node):
    if v.kind == "opaque" and v.data.get("kind") in ("vec", "vec3"):
        return list(v.data["xs"])
    if v.kind == "tuple" or (v.kind == "ref" and v.rkind == "list"):
        items = v.items if v.kind == "tuple" else interp.ctx.cell(v)
        return [to_real_z(interp.unwrap(x, node)) for x in items]
    raise EngineError(f"expected a numeric sequence, got {v}")


def _array(interp, args, kwargs, node):
    return vecn(as_vec(interp, args[0], node))


def _scalar(v):
    """numpy scalars behave as the real number they hold"""
    return VReal(v.z) if v.kind == "opaque" and v.tag == "npfloat" else v


def _compare(interp, args, kwargs, node):
    a, b = _scalar(args[0]), _scalar(args[1])
    if a.kind == "opaque" or b.kind == "opaque":
        raise EngineError("comparison of arrays")
    return interp.compare(kwargs["op"], a, b, node)


def _binop(interp, args, kwargs, node):
    a, b = args
    op = kwargs["op"]
    if (a.kind == "opaque" and a.tag == "npfloat") or (b.kind == "opaque" and b.tag == "npfloat"):
        return interp.binop(op, _scalar(a), _scalar(b), node)
    xs, ys = as_vec(interp, a, node), as_vec(interp, b, node)
    if len(xs) != len(ys):
        raise EngineError("vector lengths differ")
    if isinstance(op, ast.Sub):
        return vecn([x - y for x, y in zip(xs, ys)])
    if isinstance(op, ast.Add):
        return vecn([x + y for x, y in zip(xs, ys)])
    raise EngineError(f"vector operator {type(op).__name__}")


def _norm(interp, args, kwargs, node):
    xs = as_vec(interp, args[0], node)
    o = kwargs.get("ord")
    if o is not None and not (o.kind == "int" and o.const == 2) and o.kind != "none":
        raise EngineError("np.linalg.norm: only the 2-norm")
    s = sum((x * x for x in xs[1:]), xs[0] * xs[0])
    return VOpaque("npfloat", sqrt_of(interp, s), data={"kind": "scalar"})


def _item(interp, args, kwargs, node):
    return VReal(args[0].z)


def _getitem(interp, args, kwargs, node):
    o, i = args
    if o.data.get("kind") == "vec" and i.kind == "int" and i.const is not None:
        return VReal(o.data["xs"][i.const])
    raise EngineError("vector subscript")


def _len(interp, o, node):
    return VInt(len(o.data["xs"]))


HANDLERS = {
    "numpy.array": (_array, "np.array(sequence of numbers) is that vector"),
    "opaque.binop": (_binop, "vectors add / subtract elementwise; numpy scalars compute as reals"),
    "opaque.compare": (_compare, "numpy scalars compare as reals"),
    "numpy.linalg.norm": (_norm, "np.linalg.norm(v, ord=2) is the non-negative root of the sum of squares"),
    "npfloat.item": (_item, ".item() of a numpy scalar is its value"),
    "numpy.item": (_item, "float(numpy scalar) is its value"),
    "opaque.getitem": (_getitem, "v[i] of a vector"),
    "ndarray.__len__": (lambda interp, args, kwargs, node: VInt(len(args[0].data["xs"])), "len of a vector"),
}


def install(it):
    from . import _wrap
    for dotted, (fn, doc) in HANDLERS.items():
        it.externals[dotted] = _wrap(it, dotted, fn, doc)
