"""C04 native harness: the real Ap on (a) every TP/FP/ignored ranking up to a length bound with every ground-truth count
(numeric core, exhaustive) and (b) evaluated scenes, against the area under the interpolated precision-recall curve."""
import itertools
import math
import random
import sys

from common import main, budget
import frames

PID = "C04"


def oracle_ap(weights, G):
    """weights: per rank TP weight in [0,1] (0 = wrong or ignored); AP = sum_k (r_k - r_{k-1}) * max_{j>=k} p_j"""
    n = len(weights)
    if n == 0:
        return None
    T, acc = [], 0.0
    for w in weights:
        acc += w
        T.append(acc)
    p = [T[k] / (k + 1) for k in range(n)]
    r = [T[k] / G if G > 0 else 0.0 for k in range(n)]
    ap, prev = 0.0, 0.0
    for k in range(n):
        ap += (r[k] - prev) * max(p[k:])
        prev = r[k]
    return ap


def core_ap(weights, G):
    import numpy as np
    from perception_eval.evaluation.metrics.detection.ap import Ap
    ap = Ap.__new__(Ap)
    ap.tp_list = np.cumsum(weights).tolist() if weights else []
    ap.num_ground_truth = G
    ap.objects_results_num = len(weights)
    p, r = ap.get_precision_recall_list()
    return ap._calculate_ap(p, r)


def check_core(weights, G):
    try:
        got = core_ap(list(weights), G)
    except Exception as ex:
        return f"Ap raised {type(ex).__name__}: {ex}"
    want = oracle_ap(list(weights), G) or 0.0
    if abs(got - want) > 1e-9:
        return f"AP of TP weights {list(weights)} with {G} ground truths is {got}, area under the interpolated PR curve is {want}"
    if sum(1 for w in weights if w > 0) <= G and not (-1e-12 <= got <= 1 + 1e-12):
        return f"AP {got} outside [0,1] for weights {list(weights)}, G={G}"
    if all(w == 0 for w in weights) and got != 0:
        return f"AP {got} although no estimate is correct"
    if G > 0 and len(weights) >= G and all(w == 1.0 for w in weights[:G]) and all(w == 0 for w in weights[G:]) and abs(got - 1.0) > 1e-9:
        return f"AP {got} although all {G} ground truths are matched by the top-ranked estimates"
    return None


def check_scene(case):
    fr, eo, go, res = frames.frame_result(case["est"], case["gt"], ego=None, task="detection", targets=case["targets"], crit=case["crit"],
                                          pass_thr=case["thr"], policy=case.get("policy", "DEFAULT"), metrics=dict(center_distance_thresholds=[case["thr"]]))
    targets = case["targets"]
    pol = case.get("policy", "DEFAULT")
    compat = lambda e, g: pol == "ALLOW_ANY" or e == g or (pol == "ALLOW_UNKNOWN" and e.value == "unknown")
    for m in fr.metrics_score.maps:
        if m.matching_mode.value != "Center Distance":
            continue
        defined = []
        for li, (lab, ap) in enumerate(zip(targets, m.aps)):
            rs = [r for r in fr.object_results if (r.estimated_object.semantic_label.label.value == lab or
                                                  (r.estimated_object.semantic_label.label.value not in targets and r.ground_truth_object is not None and r.ground_truth_object.semantic_label.label.value == lab))]
            rs = sorted(rs, key=lambda r: -r.estimated_object.semantic_score)
            G = sum(1 for o in fr.frame_ground_truth.objects if o.semantic_label.label.value == lab)
            w = []
            for r in rs:
                g = r.ground_truth_object
                ok = g is not None and g.semantic_label.label.value == lab and compat(r.estimated_object.semantic_label.label, g.semantic_label.label) and r.center_distance.value < case["thr"][li]
                w.append(1.0 if ok else 0.0)
            want = oracle_ap(w, G)
            if want is None:
                if ap.ap != float("inf"):
                    return f"AP of label {lab} without results is {ap.ap}"
                continue
            defined.append(want)
            confs = [r.estimated_object.semantic_score for r in rs]
            if len(set(confs)) == len(confs) and abs(ap.ap - want) > 1e-9:
                return f"AP of label {lab} is {ap.ap}, area under the interpolated PR curve is {want} (weights {w}, G={G})"
            if not (0 <= ap.ap <= 1 + 1e-12):
                return f"AP {ap.ap} of label {lab} outside [0,1]"
        if defined and len(set(round(x, 12) for x in defined)) >= 1:
            want_map = sum(defined) / len(defined)
            confs_ok = True
            if abs(m.map - want_map) > 1e-9 and confs_ok:
                return f"mAP {m.map} is not the mean {want_map} of the defined APs"
    return None


def check_pooled(case):
    """scene-level evaluation (nested per-frame lists, as get_scene_result builds them): AP / APH within [0, 1], APH <= AP, and the pooled structure is left as it was"""
    from perception_eval.evaluation.matching.objects_filter import divide_objects, divide_objects_to_num
    from perception_eval.evaluation.metrics.metrics import MetricsScore
    n = len(case["targets"])
    et, cof, pfc, msc = frames.configs("detection", case["targets"], case["crit"], case["thr"], metrics=dict(center_distance_thresholds=[case["thr"], [t * 2 for t in case["thr"]]]))
    pooled = {lab: [[]] for lab in cof.target_labels}
    num_gt = {lab: 0 for lab in cof.target_labels}
    for f in case["frames"]:
        fr, eo, go, res = frames.frame_result(f["est"], f["gt"], ego=None, task="detection", targets=case["targets"], crit=case["crit"], pass_thr=case["thr"],
                                              policy=case.get("policy", "DEFAULT"), metrics=dict(center_distance_thresholds=[case["thr"]]))
        d = divide_objects(fr.object_results, cof.target_labels)
        g = divide_objects_to_num(fr.frame_ground_truth.objects, cof.target_labels)
        for lab in cof.target_labels:
            pooled[lab].append(d[lab])
            num_gt[lab] += g[lab]
    before = {lab: [list(x) for x in v] for lab, v in pooled.items()}
    ms = MetricsScore(config=msc, used_frame=list(range(len(case["frames"]))))
    ms.evaluate_detection(pooled, num_gt)
    for lab in before:
        if len(pooled[lab]) != len(before[lab]) or any(len(x) != len(y) or any(p is not q for p, q in zip(x, y)) for x, y in zip(pooled[lab], before[lab])):
            return "evaluating the scene changed the pooled per-frame results it was given"
    # the same results handed over as one list (frame order kept, so ties rank alike) must score the same: pooling neither drops nor repeats a frame
    flat = {lab: [r for frame in v for r in frame] for lab, v in before.items()}
    ms_flat = MetricsScore(config=msc, used_frame=list(range(len(case["frames"]))))
    ms_flat.evaluate_detection(flat, num_gt)
    # ... also without the empty head list the manager starts its per-label pools with
    trimmed = {lab: [list(x) for x in v[1:]] for lab, v in before.items()}
    ms_trim = MetricsScore(config=msc, used_frame=list(range(len(case["frames"]))))
    ms_trim.evaluate_detection(trimmed, num_gt)
    for m, mf in list(zip(ms.maps, ms_flat.maps)) + list(zip(ms_trim.maps, ms_flat.maps)):
        for a, af in zip(list(m.aps) + list(m.aphs), list(mf.aps) + list(mf.aphs)):
            if a.objects_results_num != af.objects_results_num or (a.ap != af.ap and abs(a.ap - af.ap) > 1e-12):
                return (f"scene score over per-frame lists: {a.objects_results_num} results, AP {a.ap}; the same results as one list: {af.objects_results_num} results, AP {af.ap} "
                        f"({m.matching_mode}, {[str(t) for t in a.target_labels]})")
    for m in ms.maps:
        for a, h in zip(m.aps, m.aphs):
            if a.ap != float("inf") and not (-1e-12 <= a.ap <= 1 + 1e-9):
                return f"scene AP {a.ap} ({m.matching_mode}) outside [0, 1]"
            if a.ap != float("inf") and h.ap != float("inf") and h.ap > a.ap + 1e-9:
                return f"scene APH {h.ap} exceeds AP {a.ap} ({m.matching_mode})"
    return None


def gen_scene(rnd):
    targets = ["car", "pedestrian", "bicycle"]
    pts = [-6.0, -3.0, 0.0, 2.0, 5.0]
    est, gt = [], []
    for i in range(rnd.randint(0, 5)):
        est.append(dict(label=rnd.choice(targets), x=rnd.choice(pts) + 0.013 * i, y=rnd.choice(pts), score=0.1 + 0.13 * i + 0.01 * rnd.random(), uuid=str(i)))
    for i in range(rnd.randint(0, 4)):
        g = dict(label=rnd.choice(targets), x=rnd.choice(pts) + 0.4, y=rnd.choice(pts) + 0.017 * i, uuid=str(10 + i))
        if est and rnd.random() < 0.6:
            e = rnd.choice(est)
            g.update(label=e["label"], x=e["x"] + rnd.choice([0.2, 0.8, 1.6]) + 0.011 * i, y=e["y"] + 0.01 * i)
        gt.append(g)
    thr = [rnd.choice([0.5, 1.0, 2.0, 1, 2])] * 3        # floats and whole numbers, as configuration files spell them
    policy = rnd.choice(["DEFAULT", "DEFAULT", "ALLOW_UNKNOWN", "ALLOW_UNKNOWN", "ALLOW_ANY"])
    if policy != "DEFAULT":
        for e in est:
            if rnd.random() < 0.4:
                e["label"] = "unknown"          # not a target label: such a result is judged at the threshold of its ground truth's label
    return dict(est=est, gt=gt, targets=targets, crit=dict(max_x_position_list=[20.0] * 3, max_y_position_list=[20.0] * 3), thr=thr, policy=policy)


def search(item, seed):
    # (a) exhaustive numeric core: rankings over {wrong/ignored, correct, half-weight} up to length 6, G in 0..6
    for n in range(0, 7):
        for weights in itertools.product([0.0, 1.0, 0.5], repeat=n):
            for G in range(0, 7):
                if sum(1 for w in weights if w > 0) > G:
                    continue
                why = check_core(weights, G)
                if why:
                    return dict(function="Ap(core)", input=dict(weights=list(weights), G=G), observed=why)
    rnd = random.Random(seed * 131 + 7)
    for _ in range(budget(120)):
        case = gen_scene(rnd)
        try:
            why = check_scene(case)
        except Exception as ex:
            why = f"evaluation raised {type(ex).__name__}: {ex}"
        if why:
            return dict(function="scene", input=case, observed=why)
    # scene-level AP as the manager computes it (get_scene_result pools the frames per label): the C13 harness' cases (one-frame scene = frame score, counts add up)
    import C13 as scenes
    for _ in range(budget(25)):
        case = scenes.gen(rnd)
        try:
            why = scenes.check(case)
        except Exception as ex:
            why = f"raised {type(ex).__name__}: {ex}"
        if why:
            return dict(function="manager-scene", input=case, observed=why)
    # the heading weight of a TP (APH): the C09 harness' cases, tilted objects included
    import C09 as heading
    w = heading.search(item, seed)
    if w:
        return dict(function="heading", input=w["input"], observed=w["observed"])
    for _ in range(budget(30)):
        base = gen_scene(rnd)
        case = dict(base, frames=[dict(est=base["est"], gt=base["gt"])] + [(lambda b: dict(est=b["est"], gt=b["gt"]))(gen_scene(rnd)) for _ in range(rnd.randint(1, 2))])
        try:
            why = check_pooled(case)
        except Exception as ex:
            why = f"evaluation raised {type(ex).__name__}: {ex}"
        if why:
            return dict(function="pooled", input=case, observed=why)
    # listed finding (known_findings.json, C04-pair-with-two-target-labels-skipped): reported again while it is observed, a violation if anything else happens
    why, known = check_mixed_pair()
    if why:
        return dict(function="mixed-pair", input={}, observed=why)
    return dict(known_only=known) if known else None


MIXED = "pair-with-two-target-labels-neither-tp-nor-fp"


def check_mixed_pair():
    """label policy ALLOW_ANY, target labels car / bicycle / pedestrian: a bicycle estimate 0.2 m from a car ground truth (threshold 1.0 m). The pair is
    label-compatible under the policy and beats the threshold (pass/fail reports a TP), so the statement counts it as a TP of the ranking it is pooled in"""
    import frames
    fr, eo, go, res = frames.frame_result([dict(label="bicycle", x=2.0, y=0.0, score=0.9, uuid="e0")], [dict(label="car", x=2.2, y=0.0, uuid="g0")], ego=None,
                                          targets=["car", "bicycle", "pedestrian"], crit=dict(max_x_position_list=[20.0] * 3, max_y_position_list=[20.0] * 3),
                                          pass_thr=[1.0] * 3, policy="ALLOW_ANY")
    if len(fr.object_results) != 1 or fr.object_results[0].ground_truth_object is None or len(fr.pass_fail_result.tp_object_results) != 1:
        return None, set()          # the pair is not formed / not a TP of the frame: nothing to compare (other clauses cover the pairing)
    for m in fr.metrics_score.maps:
        if str(m.matching_mode) != "Center Distance":
            continue
        tp = sum(a.tp_list[-1] for a in m.aps if a.objects_results_num > 0)      # (a ranking without results carries placeholder lists)
        fp = sum(a.fp_list[-1] for a in m.aps if a.objects_results_num > 0)
        ranked = sum(a.objects_results_num for a in m.aps)
        if ranked == 1 and tp == 1 and fp == 0:
            return None, set()      # counted as the statement says
        if ranked == 1 and tp == 0 and fp == 0:
            return None, {MIXED}    # the listed finding: ranked under 'bicycle', judged at the threshold of 'car' (not a label of that ranking), so neither TP nor FP
        return f"ALLOW_ANY, bicycle estimate on a car ground truth 0.2 m away: the AP rankings hold {ranked} results with {tp} TP and {fp} FP", set()
    return None, set()


def replay(payload):
    i = payload["input"]
    if payload["function"] == "manager-scene":
        import C13 as scenes
        try:
            why = scenes.check(i)
        except Exception as ex:
            why = f"raised {type(ex).__name__}: {ex}"
    elif payload["function"] == "heading":
        import C09 as heading
        why = heading.check(i)
    elif payload["function"] == "pooled":
        why = check_pooled(i)
    elif payload["function"] == "mixed-pair":
        why = check_mixed_pair()[0]
    else:
        why = check_core(i["weights"], i["G"]) if payload["function"] == "Ap(core)" else check_scene(i)
    return (why is None, why or "ok")


if __name__ == "__main__":
    sys.exit(main(PID, search, replay))
