"""Builders of real repository objects from small JSON-able descriptions (used by the native replay harnesses)."""
import math


def label(name, attributes=(), family="autoware", raw_name=None):
    """raw_name: the spelling the label was converted from (a dataset says 'vehicle.car', a detector 'car'): it does not take part in label comparisons"""
    from perception_eval.common.label import AutowareLabel, TrafficLightLabel, Label
    cls = AutowareLabel if family == "autoware" else TrafficLightLabel
    return Label(cls(name), raw_name or name, list(attributes))


def quat_yaw(yaw):
    from pyquaternion import Quaternion
    return Quaternion(axis=(0.0, 0.0, 1.0), radians=yaw)


def quat_ego(ego):
    """ego orientation Rz(yaw) * Ry(pitch) * Rx(roll); pitch / roll are optional keys of the ego description"""
    from pyquaternion import Quaternion
    q = Quaternion(axis=(0.0, 0.0, 1.0), radians=ego.get("yaw", 0.0))
    if ego.get("pitch"):
        q = q * Quaternion(axis=(0.0, 1.0, 0.0), radians=ego["pitch"])
    if ego.get("roll"):
        q = q * Quaternion(axis=(1.0, 0.0, 0.0), radians=ego["roll"])
    return q


def obj3d(d):
    """d: dict(label, x, y, z=0, yaw=0, size=(1,2,1), score=0.9, frame='base_link', pts=None, uuid=None, attributes=())"""
    from perception_eval.common.object import DynamicObject
    from perception_eval.common.schema import FrameID
    from perception_eval.common.shape import Shape, ShapeType
    return DynamicObject(
        unix_time=d.get("t", 0), frame_id=FrameID.from_value(d.get("frame", "base_link")),
        # array_position: the position as an ndarray, the way the library's own transforms (convert_objects_to_global, interpolation) hand positions on
        position=(__import__("numpy").array([float(d["x"]), float(d["y"]), float(d.get("z", 0.0))]) if d.get("array_position") else (float(d["x"]), float(d["y"]), float(d.get("z", 0.0)))),
        orientation=quat_yaw(d.get("yaw", 0.0)),
        shape=Shape(ShapeType.BOUNDING_BOX, tuple(float(v) for v in d.get("size", (1.0, 2.0, 1.0)))),
        velocity=tuple(d.get("velocity", (0.0, 0.0, 0.0))), semantic_score=float(d.get("score", 0.9)),
        semantic_label=label(d["label"], d.get("attributes", ()), raw_name=d.get("raw_name")), pointcloud_num=d.get("pts"), uuid=d.get("uuid"))


def transforms(ego):
    """ego: None | dict(x, y, yaw): ego pose in the map frame -> TransformDict with BASE_LINK->MAP"""
    from perception_eval.common.transform import TransformDict, HomogeneousMatrix
    from perception_eval.common.schema import FrameID
    if ego is None:
        return None
    m = HomogeneousMatrix((ego["x"], ego["y"], ego.get("z", 0.0)), quat_ego(ego), src=FrameID.BASE_LINK, dst=FrameID.MAP)
    return TransformDict(m)


def ego_matrix(ego):
    from perception_eval.common.transform import HomogeneousMatrix
    from perception_eval.common.schema import FrameID
    ego = ego or dict(x=0.0, y=0.0, yaw=0.0)
    return HomogeneousMatrix((ego["x"], ego["y"], ego.get("z", 0.0)), quat_ego(ego), src=FrameID.BASE_LINK, dst=FrameID.MAP)


def ego_xy(d, ego):
    """ego-relative planar position of an object description (independent re-computation)"""
    if d.get("frame", "base_link") == "base_link" or ego is None:
        return d["x"], d["y"]
    if "ego_xy" in d:          # the description was generated from its ego-frame position (tilted ego poses)
        return tuple(d["ego_xy"])
    dx, dy = d["x"] - ego["x"], d["y"] - ego["y"]
    c, s = math.cos(-ego.get("yaw", 0.0)), math.sin(-ego.get("yaw", 0.0))
    return c * dx - s * dy, s * dx + c * dy


def labels(names):
    from perception_eval.common.label import AutowareLabel
    return None if names is None else [AutowareLabel(n) for n in names]
