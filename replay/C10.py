"""C10 native harness: the real filters against an independent reading of the property statement."""
import copy
import random
import sys

from common import main, budget
import build

LABELS = ["car", "pedestrian", "bicycle", "unknown", "false_positive", "truck"]


def keep_oracle(d, is_gt, p, ego):
    """the statement's predicate on an object description d with parameters p"""
    if d["label"] == "false_positive":
        return True
    targets = p.get("target_labels")
    relaxed = d["label"] == "unknown" and not is_gt and not (targets is not None and "unknown" in targets)
    if targets:
        if not relaxed and d["label"] not in targets:
            return False
    idx = targets.index(d["label"]) if targets and d["label"] in targets else None

    def bound(key):
        lst = p.get(key)
        if lst is None:
            return None
        if relaxed:
            return "mean"
        return lst[idx]
    ign = p.get("ignore_attributes")
    if ign is not None and not relaxed:
        if any((a in d["label"]) or (a in d.get("attributes", ())) for a in ign):
            return False
    x, y = build.ego_xy(d, ego)
    dist = (x * x + y * y) ** 0.5
    mean = lambda l: sum(l) / len(l)
    tests = [("max_x_position_list", lambda b: abs(x) < b), ("max_y_position_list", lambda b: abs(y) < b),
             ("max_distance_list", lambda b: dist < b), ("min_distance_list", lambda b: dist > b)]
    if p.get("confidence_threshold_list") is not None and not is_gt:      # a criterion for estimates only
        b = 0.0 if relaxed else p["confidence_threshold_list"][idx]
        if not d.get("score", 0.9) > b:
            return False
    for key, t in tests:
        if p.get(key) is not None:
            b = mean(p[key]) if relaxed else p[key][idx]
            if not t(b):
                return False
    if is_gt and p.get("min_point_numbers") is not None:
        b = 0 if relaxed else p["min_point_numbers"][idx]
        if not d["pts"] >= b:
            return False
    if is_gt and p.get("target_uuids") is not None:
        if d.get("uuid") not in p["target_uuids"]:
            return False
    return True


def real_params(p, ego):
    q = dict(p)
    q["target_labels"] = build.labels(p.get("target_labels"))
    q["transforms"] = build.transforms(ego)
    return q


def gen_obj(rnd, frame, grid):
    d = dict(label=rnd.choice(LABELS), x=rnd.choice(grid), y=rnd.choice(grid), score=rnd.choice([0.0, 0.3, 0.5, 0.7]),
             pts=rnd.choice([0, 1, 5]), uuid=rnd.choice(["a", "b", "c", None]), frame=frame,
             attributes=rnd.choice([(), ("occluded",), ("parked", "x")]))
    return d


def gen_params(rnd):
    targets = rnd.choice([None, ["car"], ["car", "pedestrian"], ["pedestrian", "car", "unknown"], ["car", "bicycle", "car"]])
    p = dict(target_labels=targets)
    if targets:
        n = len(targets)
        for key, vals in (("max_x_position_list", [2.0, 4.0]), ("max_y_position_list", [1.0, 3.0]), ("max_distance_list", [3.0, 5.0]),
                          ("min_distance_list", [0.5, 1.5]), ("confidence_threshold_list", [0.2, 0.5, 0.6]), ("min_point_numbers", [0, 1, 3])):
            if rnd.random() < 0.5:
                p[key] = [rnd.choice(vals) for _ in range(n)]
    if rnd.random() < 0.3:
        p["ignore_attributes"] = rnd.choice([["occluded"], ["parked"], ["ar"]])
    if rnd.random() < 0.3:
        p["target_uuids"] = rnd.choice([["a"], ["a", "b"], []])
    return p


def check_case(objs, is_gt, p, ego, results=None, earlier_ego=None):
    from perception_eval.evaluation.matching.objects_filter import filter_objects, filter_object_results
    from perception_eval.evaluation.result.object_result import DynamicObjectWithPerceptionResult
    rp = real_params(p, ego)
    if ego is not None and earlier_ego is not None:
        # the registry handed to the filter has a history: it held another ego pose, answered a map -> ego lookup, and was then given the current pose
        # (what interpolating a frame does to the copy of a key frame's registry); what counts is the pose it holds now
        from perception_eval.common.schema import FrameID
        tf = build.transforms(earlier_ego)
        tf.transform((FrameID.MAP, FrameID.BASE_LINK), (1.0, 2.0, 0.0))
        tf[(FrameID.BASE_LINK, FrameID.MAP)] = build.ego_matrix(ego)
        rp["transforms"] = tf
    real = [build.obj3d(d) for d in objs]
    before = list(real)
    out = filter_objects(real, is_gt, **rp)
    want = [o for o, d in zip(before, objs) if keep_oracle(d, is_gt, p, ego)]
    if real != before or any(a is not b for a, b in zip(real, before)):
        return "filter_objects modified its input list"
    if len(out) != len(want) or any(a is not b for a, b in zip(out, want)):
        return (f"filter_objects kept objects #{[before.index(o) for o in out]}, the statement keeps #{[before.index(o) for o in want]}")
    again = filter_objects(list(out), is_gt, **rp)
    if len(again) != len(out):
        return "filter_objects is not idempotent"
    if results is not None:
        rs = []
        for (ei, gi) in results:
            rs.append(DynamicObjectWithPerceptionResult(real[ei], real[gi] if gi is not None else None, transforms=rp["transforms"]))
        q = {k: v for k, v in rp.items()}
        out = filter_object_results(rs, **q)
        want = []
        for r, (ei, gi) in zip(rs, results):
            pe = {k: v for k, v in p.items() if k not in ("ignore_attributes", "min_point_numbers", "target_uuids")}
            pg = {k: v for k, v in p.items() if k != "confidence_threshold_list"}
            ok = keep_oracle(objs[ei], False, pe, ego)
            if gi is not None:
                ok = ok and keep_oracle(objs[gi], True, pg, ego)
            elif p.get("target_uuids"):
                ok = False
            if ok:
                want.append(r)
        if len(out) != len(want) or any(a is not b for a, b in zip(out, want)):
            return f"filter_object_results kept results #{[rs.index(o) for o in out]}, the statement keeps #{[rs.index(o) for o in want]} (pairs {results})"
    return None


def search(item, seed):
    rnd = random.Random(seed * 7919 + 13)
    grid = [-4.5, -2.5, -1.0, -0.25, 0.25, 1.0, 2.0, 2.5, 4.0, 4.5]     # on and around the configured bounds
    for it in range(budget(1500)):
        use_map = rnd.random() < 0.5
        ego = dict(x=rnd.choice([0.0, 10.0, -3.0]), y=rnd.choice([0.0, 5.0]), yaw=rnd.choice([0.0, 0.5, 1.5707963, 3.0])) if use_map else None
        if ego and rnd.random() < 0.4:      # a tilted ego (slope): ego-relative means relative to the ego's own axes
            ego.update(pitch=rnd.choice([0.15, -0.3]), roll=rnd.choice([0.0, 0.2]))
        frame = "map" if use_map and rnd.random() < 0.7 else "base_link"
        # points exactly on a configured bound only in the ego frame: the map-frame round trip is not exact in floats
        g = grid if frame == "base_link" else [-4.5, -2.5, -1.25, -0.25, 0.25, 1.25, 2.25, 2.5, 3.75, 4.5]
        objs = [gen_obj(rnd, frame, g) for _ in range(rnd.randint(1, 4))]
        if ego and ego.get("pitch") and frame == "map":
            # just beyond / inside a distance bound along the ego's own x axis: the ego-plane distance and the map-plane distance differ there
            for d in objs:
                if rnd.random() < 0.6:
                    d["x"], d["y"] = rnd.choice([3.06, 5.1, 1.53, 0.51, 2.97, 4.9]) * rnd.choice([1, -1]), 0.0
        for d in objs:
            if d["frame"] == "map":       # express the grid point in the map frame: ego-relative value stays on the grid
                import numpy as np
                x, y = d["x"], d["y"]
                d["ego_xy"] = [x, y]
                pm = build.quat_ego(ego).rotate(np.array([x, y, d.get("z", 0.0)]))
                d["x"], d["y"], d["z"] = ego["x"] + float(pm[0]), ego["y"] + float(pm[1]), float(pm[2])
        p = gen_params(rnd)
        is_gt = rnd.random() < 0.5
        results = [(rnd.randrange(len(objs)), rnd.choice([None] + list(range(len(objs))))) for _ in range(rnd.randint(0, 3))]
        earlier = dict(x=ego["x"] + rnd.choice([6.0, -40.0]), y=ego["y"] + 3.0, yaw=ego["yaw"] + 1.0) if (ego and rnd.random() < 0.3) else None
        try:
            why = check_case(objs, is_gt, p, ego, results, earlier)
        except Exception as ex:
            why = f"raised {type(ex).__name__}: {ex}"
        if why:
            return dict(function="filter", input=dict(objects=objs, is_gt=is_gt, params=p, ego=ego, results=results, earlier_ego=earlier), observed=why)
    # the other label family (traffic lights, 2-D objects): label, confidence and attribute criteria with `unknown` as a target label
    for _ in range(budget(200)):
        case = gen_tl(rnd)
        try:
            why = check_tl(case)
        except Exception as ex:
            why = f"raised {type(ex).__name__}: {ex}"
        if why:
            return dict(function="traffic-light filter", input=case, observed=why)
    return None


def check_tl(case):
    """2-D traffic-light estimates / ground truths filtered by label, confidence and ignored attributes with `unknown` among the target labels: an unknown-labelled
    object is then an ordinary object of its label (the relaxation is for unknown when it is NOT a target), judged against that label's own entries"""
    from perception_eval.common.label import Label, TrafficLightLabel
    from perception_eval.common.object2d import DynamicObject2D
    from perception_eval.common.schema import FrameID
    from perception_eval.evaluation.matching.objects_filter import filter_objects
    L = {m.value: m for m in TrafficLightLabel}
    objs = [DynamicObject2D(unix_time=100, frame_id=FrameID.CAM_TRAFFIC_LIGHT, semantic_score=(1.0 if case["is_gt"] else d["score"]),
                            semantic_label=Label(L[d["label"]], d["label"], list(d["attrs"])), roi=(0, 0, 10, 10), uuid=d["uuid"]) for d in case["objs"]]
    targets = [L[n] for n in case["targets"]]
    kw = {}
    if case["conf"] is not None:
        kw["confidence_threshold_list"] = list(case["conf"])
    if case["ignore"] is not None:
        kw["ignore_attributes"] = list(case["ignore"])
    kept = filter_objects(objs, is_gt=case["is_gt"], target_labels=targets, **kw)
    want = []
    for d, o in zip(case["objs"], objs):
        ok = d["label"] in case["targets"]
        if ok and case["ignore"] is not None and any(a in x for a in case["ignore"] for x in d["attrs"]):
            ok = False
        if ok and case["conf"] is not None and not case["is_gt"]:
            ok = d["score"] > case["conf"][case["targets"].index(d["label"])]
        if ok:
            want.append(o)
    if len(kept) != len(want) or any(a is not b for a, b in zip(kept, want)):
        return (f"traffic-light {'ground truths' if case['is_gt'] else 'estimates'}, targets {case['targets']}, confidence {case['conf']}, ignored {case['ignore']}: "
                f"kept {[o.uuid for o in kept]}, the statement keeps {[o.uuid for o in want]}")
    return None


def gen_tl(rnd):
    targets = rnd.choice([["green", "red", "unknown"], ["unknown", "green"], ["red", "unknown", "yellow"]])
    objs = [dict(label=rnd.choice(["green", "red", "unknown", "unknown", "yellow"]), score=rnd.choice([0.05, 0.3, 0.5, 0.7, 0.9]),
                 attrs=rnd.choice([[], [], ["occluded"], ["blinking"]]), uuid=f"o{i}") for i in range(rnd.randint(1, 5))]
    return dict(targets=targets, objs=objs, is_gt=rnd.random() < 0.3,
                conf=rnd.choice([None, [rnd.choice([0.1, 0.4, 0.8]) for _ in targets]]), ignore=rnd.choice([None, ["occluded"], ["occluded", "blinking"]]))


def replay(payload):
    if payload.get("function") == "traffic-light filter":
        why = check_tl(payload["input"])
        return (why is None, why or "ok")
    i = payload["input"]
    try:
        why = check_case(i["objects"], i["is_gt"], i["params"], i["ego"], [tuple(r) for r in i["results"]], i.get("earlier_ego"))
    except Exception as ex:
        why = f"raised {type(ex).__name__}: {ex}"
    return (why is None, why or "ok")


if __name__ == "__main__":
    sys.exit(main("C10", search, replay))
