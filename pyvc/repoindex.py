"""Index of the repository's Python sources: modules, classes, functions, name resolution.

Everything is read from the *current* files under the repo root on every run (ast.parse of the
working-tree text).  Nothing is cached across runs; nothing is copied into /verif.
"""
from __future__ import annotations

import ast
import hashlib
import os


class FuncInfo:
    def __init__(self, module, qual, node, cls=None, outer=None):
        self.module, self.qual, self.node, self.cls, self.outer = module, qual, node, cls, outer
        decos = [ast.unparse(d) for d in node.decorator_list]
        self.is_static = "staticmethod" in decos
        self.is_classmethod = "classmethod" in decos
        self.is_property = "property" in decos
        self.is_abstract = "abstractmethod" in decos
        self.is_overload = "overload" in decos

    @property
    def name(self):
        return self.node.name

    @property
    def fq(self):
        return f"{self.module.name}:{self.qual}"

    def __repr__(self):
        return f"<func {self.fq}>"

    def source_segment(self):
        return ast.get_source_segment(self.module.text, self.node) or ""

    def sha256(self):
        return hashlib.sha256(self.source_segment().encode()).hexdigest()

    def span(self):
        return (self.node.lineno, self.node.end_lineno)


class ClassInfo:
    def __init__(self, module, name, node):
        self.module, self.name, self.node = module, name, node
        self.methods = {}      # name -> FuncInfo (property setters ignored)
        self.class_attrs = {}  # name -> ast expr (class-body assignments, in order)
        self.ann_fields = []   # (name, default expr | None) for dataclasses
        self.base_exprs = list(node.bases)
        decos = [ast.unparse(d) for d in node.decorator_list]
        self.is_dataclass = any(d.startswith("dataclass") for d in decos)
        for s in node.body:
            if isinstance(s, ast.FunctionDef):
                fi = FuncInfo(module, f"{name}.{s.name}", s, cls=self)
                if any(ast.unparse(d).endswith(".setter") for d in s.decorator_list):
                    self.methods[s.name + "#setter"] = fi
                    continue
                if fi.is_overload:
                    continue
                self.methods[s.name] = fi
            elif isinstance(s, ast.Assign) and len(s.targets) == 1 and isinstance(s.targets[0], ast.Name):
                self.class_attrs[s.targets[0].id] = s.value
            elif isinstance(s, ast.AnnAssign) and isinstance(s.target, ast.Name):
                self.ann_fields.append((s.target.id, s.value))
                if s.value is not None:
                    self.class_attrs[s.target.id] = s.value

    @property
    def fq(self):
        return f"{self.module.name}:{self.name}"

    def __repr__(self):
        return f"<class {self.fq}>"

    def bases(self, index):
        out = []
        for b in self.base_exprs:
            r = index.resolve_expr_static(self.module, b)
            if isinstance(r, ClassInfo):
                out.append(r)
            else:
                out.append(ast.unparse(b))   # external base: 'Enum', 'ABC', ...
        return out

    def mro(self, index):
        seen, out = set(), []

        def walk(c):
            if isinstance(c, ClassInfo) and id(c) not in seen:
                seen.add(id(c))
                out.append(c)
                for b in c.bases(index):
                    walk(b)
        walk(self)
        return out

    def is_enum(self, index):
        for c in self.mro(index):
            for b in c.bases(index):
                if b in ("Enum", "enum.Enum", "IntEnum"):
                    return True
        return False

    def find_method(self, index, name, after=None):
        """look `name` up along the MRO; `after`: start after that class (super())"""
        mro = self.mro(index)
        if after is not None:
            mro = mro[[id(c) for c in mro].index(id(after)) + 1:]
        for c in mro:
            if name in c.methods:
                return c.methods[name]
        return None

    def find_class_attr(self, index, name):
        for c in self.mro(index):
            if name in c.class_attrs:
                return c, c.class_attrs[name]
        return None, None

    def enum_members(self, index):
        """ordered (name, value-expr) of an Enum class body (names not starting with '_')"""
        return [(n, e) for n, e in self.class_attrs.items() if not n.startswith("_")]

    def is_subclass_of(self, index, other):
        return any(c is other for c in self.mro(index))


class External:
    """a name that resolves outside the repository (numpy, math, typing, ...)"""

    def __init__(self, dotted):
        self.dotted = dotted

    def __repr__(self):
        return f"<ext {self.dotted}>"


class ModuleInfo:
    def __init__(self, name, path, text):
        self.name, self.path, self.text = name, path, text
        self.tree = ast.parse(text)
        self.functions, self.classes, self.imports, self.assigns = {}, {}, {}, {}
        self._scan(self.tree.body)

    def _scan(self, body):
        for s in body:
            if isinstance(s, ast.FunctionDef):
                fi = FuncInfo(self, s.name, s)
                if not fi.is_overload:
                    self.functions[s.name] = fi
            elif isinstance(s, ast.ClassDef):
                self.classes[s.name] = ClassInfo(self, s.name, s)
            elif isinstance(s, ast.Import):
                for a in s.names:
                    self.imports[a.asname or a.name.split(".")[0]] = ("module", a.name if a.asname else a.name.split(".")[0])
            elif isinstance(s, ast.ImportFrom):
                mod = s.module or ""
                if s.level:
                    # a package __init__ is named by the package itself
                    is_pkg = self.path.endswith("__init__.py")
                    base = self.name.split(".") if is_pkg else self.name.split(".")[:-1]
                    if s.level > 1:
                        base = base[: len(base) - (s.level - 1)]
                    mod = ".".join(base + ([mod] if mod else []))
                for a in s.names:
                    self.imports[a.asname or a.name] = ("from", mod, a.name)
            elif isinstance(s, ast.Assign) and len(s.targets) == 1 and isinstance(s.targets[0], ast.Name):
                self.assigns[s.targets[0].id] = s.value
            elif isinstance(s, ast.AnnAssign) and isinstance(s.target, ast.Name) and s.value is not None:
                self.assigns[s.target.id] = s.value
            elif isinstance(s, ast.If):
                # `if TYPE_CHECKING:` imports are typing-only; scan both arms for definitions anyway
                self._scan(s.body)
                self._scan(s.orelse)


class RepoIndex:
    def __init__(self, root, package="perception_eval"):
        """root: directory that contains the top-level package directory"""
        self.root, self.package = root, package
        self.modules = {}
        pkg_dir = os.path.join(root, package)
        for dp, dn, fn in os.walk(pkg_dir):
            dn[:] = [d for d in dn if d not in ("__pycache__",)]
            for f in fn:
                if not f.endswith(".py"):
                    continue
                p = os.path.join(dp, f)
                rel = os.path.relpath(p, root)[:-3].replace(os.sep, ".")
                if rel.endswith(".__init__"):
                    rel = rel[: -len(".__init__")]
                try:
                    self.modules[rel] = ModuleInfo(rel, p, open(p, encoding="utf-8").read())
                except SyntaxError as e:   # pragma: no cover
                    raise RuntimeError(f"cannot parse {p}: {e}")

    # ------------------------------------------------------------------ lookup
    def module(self, name):
        return self.modules[name]

    def lookup(self, spec):
        """'pkg.mod:Class.method' / 'pkg.mod:func' / 'pkg.mod:func.inner' -> FuncInfo | ClassInfo"""
        modname, qual = spec.split(":")
        if not modname.startswith(self.package):
            modname = self.package + "." + modname
        m = self.modules[modname]
        parts = qual.split(".")
        if parts[0] in m.classes:
            c = m.classes[parts[0]]
            if len(parts) == 1:
                return c
            f = c.methods[parts[1]]
            rest = parts[2:]
        else:
            f = m.functions[parts[0]]
            rest = parts[1:]
        for r in rest:   # nested function
            inner = next(n for n in ast.walk(f.node) if isinstance(n, ast.FunctionDef) and n.name == r and n is not f.node)
            f = FuncInfo(m, f.qual + "." + r, inner, cls=f.cls, outer=f)
        return f

    def resolve_global(self, module, name, _depth=0):
        """what does `name` denote at module level of `module`?"""
        if _depth > 12:
            return None
        if name in module.functions:
            return module.functions[name]
        if name in module.classes:
            return module.classes[name]
        if name in module.imports:
            imp = module.imports[name]
            if imp[0] == "module":
                if imp[1] in self.modules:
                    return self.modules[imp[1]]
                return External(imp[1])
            _, mod, nm = imp
            if mod in self.modules:
                r = self.resolve_global(self.modules[mod], nm, _depth + 1)
                if r is not None:
                    return r
                sub = f"{mod}.{nm}"
                if sub in self.modules:
                    return self.modules[sub]
                return None
            sub = f"{mod}.{nm}"
            if sub in self.modules:
                return self.modules[sub]
            return External(f"{mod}.{nm}")
        if name in module.assigns:
            return ("assign", module, module.assigns[name])
        return None

    def resolve_expr_static(self, module, expr):
        """resolve Name / dotted Attribute chains statically (for base classes)"""
        if isinstance(expr, ast.Name):
            return self.resolve_global(module, expr.id)
        if isinstance(expr, ast.Attribute):
            b = self.resolve_expr_static(module, expr.value)
            if isinstance(b, ModuleInfo):
                return self.resolve_global(b, expr.attr)
            if isinstance(b, External):
                return External(b.dotted + "." + expr.attr)
        return None
