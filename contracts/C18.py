"""C18 — coordinate transforms compose and invert consistently.

Proved from the real code: the argument dispatch and frame labelling of HomogeneousMatrix.dot / inv / transform and the
registry logic of TransformDict.transform (X->X returns its arguments, registered X->Y is used, otherwise the inverse of a
registered Y->X, otherwise KeyError; string and enum spellings of a key select the same entry).
Relative to an abstract 4x4 matrix algebra (externals/mat.py: product, inverse, hom(p, q), projections): each method's result
is a stated term of that algebra; round trip and composition are lemmas over those terms whose algebraic hypotheses
(associativity, inverse, identity, hom/projection round trip on rigid matrices) are listed as ground instances.
"""
from pyvc.api import *

TR = "common.transform"


def label_tasks(P):
    """frame labels given as strings (either case) or as members select the same member (run by C20, where FrameID.from_value is under contract)"""
    idx = P.index
    HM = idx.lookup(f"{TR}:HomogeneousMatrix")
    FID = TEnum(idx.lookup("common.schema:FrameID"))
    vec = lambda it, n: VTuple([VReal(it.ctx.fresh(f"{n}{i}", R)) for i in "xyz"])
    for kinds in (("str", "str"), ("str", "enum"), ("enum", "str")):
        params = {"self": lambda it: it.ctx.new_cell("obj", {}, HM), "position": lambda it: vec(it, "p"), "rotation": TOpaque("quaternion")}
        ens = []
        for pn, k in zip(("src", "dst"), kinds):
            if k == "str":
                params[pn] = TStr()
                ens += [(f"{pn}_string_selects_the_member", f"all([implies(lower({pn}) == m.value or {pn} == m.value, self.{pn} is m) for m in FrameID])"),
                        (f"{pn}_is_a_member", f"isinstance(self.{pn}, FrameID)")]
            else:
                params[pn] = FID
                ens += [(f"{pn}_enum_is_kept", f"self.{pn} is {pn}")]
        unknown = " or ".join(f"not any([lower({pn}) == m.value or {pn} == m.value for m in FrameID])" for pn, k in zip(("src", "dst"), kinds) if k == "str")
        P.verify(f"{TR}:HomogeneousMatrix.__init__", name=f"HomogeneousMatrix.__init__[{kinds[0]},{kinds[1]}]",
                 contract=Contract(f"{TR}:HomogeneousMatrix.__init__", cut=False, params=params, ensures=ens, raises={"ValueError": unknown}))


def build(P):
    idx = P.index
    P.min_obligations = 25
    HM = idx.lookup(f"{TR}:HomogeneousMatrix")
    TD = idx.lookup(f"{TR}:TransformDict")
    FID = TEnum(idx.lookup("common.schema:FrameID"))
    Q = TOpaque("quaternion")

    def vec(it, n):
        return VTuple([VReal(it.ctx.fresh(f"{n}{i}", R)) for i in "xyz"])

    def mk_matrix(it, name):
        """an arbitrary HomogeneousMatrix: abstract 4x4 matrix + frame labels"""
        from pyvc.externals import mat
        o = it.ctx.new_cell("obj", {}, HM)
        m = it.ctx.fresh(name + "_m", I)
        # the constructor also keeps the pose it was built from: the translation and rotation of the same matrix (a body that reads them is not an alarm;
        # what it computes from them has to be covered by an external contract, else the task reports ENGINE-ERROR, not a violation)
        it.ctx.cell(o).update(matrix=mat.mat4(m), src=FID.fresh(it.ctx, name + "_src"), dst=FID.fresh(it.ctx, name + "_dst"),
                              position=mat.vec3([f(m) for f in mat.POS]), rotation=VOpaque("quaternion", mat.QUAT(m)))
        return o
    # ---------------------------------------------------------------- HomogeneousMatrix.__init__ builds hom(position, rotation) and keeps the labels
    P.verify(f"{TR}:HomogeneousMatrix.__init__", name="HomogeneousMatrix.__init__",
             contract=Contract(f"{TR}:HomogeneousMatrix.__init__", cut=False,
                               params={"self": lambda it: it.ctx.new_cell("obj", {}, HM), "position": lambda it: vec(it, "p"), "rotation": Q, "src": FID, "dst": FID},
                               ensures=E("matrix_is_hom_of_the_pose", "same_matrix(self.matrix, mat_hom(position, rotation))",
                                         "labels_kept", "self.src is src and self.dst is dst")))
    # ---------------------------------------------------------------- dot / inv
    for labels, name in ((True, "dot[compatible]"), (False, "dot[mismatched]")):
        P.verify(f"{TR}:HomogeneousMatrix.dot", name=f"HomogeneousMatrix.{name}",
                 contract=Contract(f"{TR}:HomogeneousMatrix.dot", cut=False,
                                   params={"self": lambda it: mk_matrix(it, "a"), "other": lambda it: mk_matrix(it, "b")},
                                   raises={"ValueError": "self.src is not other.dst"},
                                   ensures=E("composition_requires_matching_frames", "self.src is other.dst",
                                             "labelled_from_the_inner_source_to_the_outer_destination", "result.src is other.src and result.dst is self.dst",
                                             "matrix_is_the_product", "same_matrix(result.matrix, mat_hom(mat_pos(mat_mul(self.matrix, other.matrix)), mat_quat(mat_mul(self.matrix, other.matrix))))")))
        break
    P.verify(f"{TR}:HomogeneousMatrix.inv", name="HomogeneousMatrix.inv",
             contract=Contract(f"{TR}:HomogeneousMatrix.inv", cut=False, params={"self": lambda it: mk_matrix(it, "a")},
                               ensures=E("labels_swapped", "result.src is self.dst and result.dst is self.src",
                                         "matrix_is_the_inverse", "same_matrix(result.matrix, mat_hom(mat_pos(mat_inv(self.matrix)), mat_quat(mat_inv(self.matrix))))")))
    # ---------------------------------------------------------------- transform: every calling convention
    prod = "mat_mul(self.matrix, mat_hom({p}, {q}))"
    POSE = lambda p, q: (f"same_vec(result[0], mat_pos({prod.format(p=p, q=q)})) and same_quat(result[1], mat_quat({prod.format(p=p, q=q)}))")
    POINT = lambda p: f"same_vec(result, mat_pos({prod.format(p=p, q='quat_identity()')}))"
    conv = {
        "position": (dict(args=lambda it: VTuple((vec(it, "p"),)), kwargs=lambda it: it.ctx.new_cell("dict", ([], []))), POINT("args[0]")),
        "position, rotation": (dict(args=lambda it: VTuple((vec(it, "p"), Q.fresh(it.ctx, "q"))), kwargs=lambda it: it.ctx.new_cell("dict", ([], []))), POSE("args[0]", "args[1]")),
        "position=": (dict(args=lambda it: VTuple(()), kwargs=lambda it: it.ctx.new_cell("dict", ([VStr("position")], [vec(it, "p")]))), POINT("kwargs['position']")),
        "position=, rotation=": (dict(args=lambda it: VTuple(()), kwargs=lambda it: it.ctx.new_cell("dict", ([VStr("position"), VStr("rotation")], [vec(it, "p"), Q.fresh(it.ctx, "q")]))),
                                 POSE("kwargs['position']", "kwargs['rotation']")),
    }
    for cname, (pr, post) in conv.items():
        P.verify(f"{TR}:HomogeneousMatrix.transform", name=f"HomogeneousMatrix.transform[{cname}]",
                 contract=Contract(f"{TR}:HomogeneousMatrix.transform", cut=False, params=dict(pr, self=lambda it: mk_matrix(it, "a")),
                                   ensures=E("pose_of_the_matrix_product", post)))
    for cname, pr in (("matrix", dict(args=lambda it: VTuple((mk_matrix(it, "x"),)), kwargs=lambda it: it.ctx.new_cell("dict", ([], [])))),
                      ("matrix=", dict(args=lambda it: VTuple(()), kwargs=lambda it: it.ctx.new_cell("dict", ([VStr("matrix")], [mk_matrix(it, "x")]))))):
        X = "args[0]" if cname == "matrix" else "kwargs['matrix']"
        P.verify(f"{TR}:HomogeneousMatrix.transform", name=f"HomogeneousMatrix.transform[{cname}]",
                 contract=Contract(f"{TR}:HomogeneousMatrix.transform", cut=False, params=dict(pr, self=lambda it: mk_matrix(it, "a")),
                                   raises={"ValueError": f"{X}.src is not self.dst"},
                                   ensures=E("composition_requires_matching_frames", f"{X}.src is self.dst",
                                             "chained_transform", f"result.src is self.src and result.dst is {X}.dst and "
                                                                  f"same_matrix(result.matrix, mat_hom(mat_pos(mat_mul({X}.matrix, self.matrix)), mat_quat(mat_mul({X}.matrix, self.matrix))))")))
    for cname, pr in (("nothing", dict(args=lambda it: VTuple(()), kwargs=lambda it: it.ctx.new_cell("dict", ([], [])))),
                      ("three positionals", dict(args=lambda it: VTuple((vec(it, "p"), Q.fresh(it.ctx, "q"), Q.fresh(it.ctx, "r"))), kwargs=lambda it: it.ctx.new_cell("dict", ([], [])))),
                      ("position= and matrix=", dict(args=lambda it: VTuple(()), kwargs=lambda it: it.ctx.new_cell("dict", ([VStr("position"), VStr("matrix")], [vec(it, "p"), mk_matrix(it, "x")]))))):
        P.verify(f"{TR}:HomogeneousMatrix.transform", name=f"HomogeneousMatrix.transform[{cname}]",
                 contract=Contract(f"{TR}:HomogeneousMatrix.transform", cut=False, params=dict(pr, self=lambda it: mk_matrix(it, "a")),
                                   raises={"ValueError": "True"}, ensures=E("rejected", "False")))

    # ---------------------------------------------------------------- TransformDict.transform: the registry
    from pyvc.externals import mat as M_

    def registry(it):
        """a real TransformDict holding two arbitrary matrices with different (src, dst) labels, built by the real constructor"""
        m1, m2 = mk_matrix(it, "m1"), mk_matrix(it, "m2")
        d = it.instantiate(TD, [it.ctx.new_cell("list", [m1, m2])], {}, None)
        it.ctx.cell(d)["ghost_m1"], it.ctx.cell(d)["ghost_m2"] = m1, m2
        return d
    hm_tf = Contract(f"{TR}:HomogeneousMatrix.transform", params={},
                     returns=lambda it, cf: VTuple([VReal(M_.POS[i](M_.MUL(it.ctx.cell(cf.vars["self"])["matrix"].z,
                                                                          M_.HOM(*M_.as_vec3(it, cf.vars["args"].items[0], None), M_.QID)))) for i in range(3)]))

    def inv_ret(it, cf):
        s_ = it.ctx.cell(cf.vars["self"])
        o = it.ctx.new_cell("obj", {}, HM)
        mi = M_.INV(s_["matrix"].z)
        it.ctx.cell(o).update(matrix=M_.mat4(M_.HOM(M_.POS[0](mi), M_.POS[1](mi), M_.POS[2](mi), M_.QUAT(mi))), src=s_["dst"], dst=s_["src"])
        return o
    hm_inv = Contract(f"{TR}:HomogeneousMatrix.inv", params={}, returns=inv_ret)
    fid_from_value = Contract("common.schema:FrameID.from_value", params={}, returns=FID,
                              raises={"ValueError": "not any([lower(name) == m.value for m in FrameID])"},
                              ensures=E("member", "all([implies(lower(name) == m.value, result is m) for m in FrameID])"))
    M1, M2 = "self.ghost_m1", "self.ghost_m2"
    hit = lambda m, a, b: f"({m}.src is {a} and {m}.dst is {b})"
    apply_ = lambda mx, p: f"mat_pos(mat_mul({mx}, mat_hom({p}, quat_identity())))"
    inv_m = lambda m: f"mat_hom(mat_pos(mat_inv({m}.matrix)), mat_quat(mat_inv({m}.matrix)))"

    def registry_post(S, Dd, p="args[0]"):
        fwd1, fwd2, bwd1, bwd2 = hit(M1, S, Dd), hit(M2, S, Dd), hit(M1, Dd, S), hit(M2, Dd, S)
        return [
            ("same_frame_returns_the_argument", f"implies({S} is {Dd}, same_vec(result, {p}))"),
            ("registered_transform_is_used", f"implies({S} is not {Dd} and {fwd1}, same_vec(result, {apply_(M1 + '.matrix', p)}))"),
            ("registered_transform_is_used_2", f"implies({S} is not {Dd} and not {fwd1} and {fwd2}, same_vec(result, {apply_(M2 + '.matrix', p)}))"),
            ("otherwise_inverse_of_the_reverse_transform", f"implies({S} is not {Dd} and not {fwd1} and not {fwd2} and {bwd1}, same_vec(result, {apply_(inv_m(M1), p)}))"),
            ("otherwise_inverse_of_the_reverse_transform_2", f"implies({S} is not {Dd} and not {fwd1} and not {fwd2} and not {bwd1} and {bwd2}, same_vec(result, {apply_(inv_m(M2), p)}))"),
            ("something_is_registered_when_it_returns", f"{S} is {Dd} or {fwd1} or {fwd2} or {bwd1} or {bwd2}"),
        ]
    none_reg = lambda S, Dd: f"({S} is not {Dd} and not {hit(M1, S, Dd)} and not {hit(M2, S, Dd)} and not {hit(M1, Dd, S)} and not {hit(M2, Dd, S)})"
    distinct_keys = E("registered_keys_differ", f"not ({M1}.src is {M2}.src and {M1}.dst is {M2}.dst)")
    cuts = {idx.lookup(f"{TR}:HomogeneousMatrix.transform").fq: hm_tf, idx.lookup(f"{TR}:HomogeneousMatrix.inv").fq: hm_inv,
            idx.lookup("common.schema:FrameID.from_value").fq: fid_from_value}
    P.verify(f"{TR}:TransformDict.transform", name="TransformDict.transform[enum key, position]",
             contract=Contract(f"{TR}:TransformDict.transform", cut=False,
                               params={"self": registry, "key": lambda it: VTuple((FID.fresh(it.ctx, "src"), FID.fresh(it.ctx, "dst"))),
                                       "args": lambda it: VTuple((vec(it, "p"),)), "kwargs": lambda it: it.ctx.new_cell("dict", ([], []))},
                               requires=distinct_keys,
                               raises={"KeyError": none_reg("key[0]", "key[1]")},
                               ensures=registry_post("key[0]", "key[1]")),
             extra_contracts=cuts)
    # string spelling of the source frame: behaves as the member it names (FrameID.from_value: C20)
    S_of = "[m for m in FrameID if m.value == lower(key[0])]"
    str_post = []
    for nm, tx in registry_post("MEMBER", "key[1]"):
        str_post.append((nm, "all([implies(lower(key[0]) == m.value, " + tx.replace("MEMBER", "m") + ") for m in FrameID])"))
    P.verify(f"{TR}:TransformDict.transform", name="TransformDict.transform[string source frame, position]",
             contract=Contract(f"{TR}:TransformDict.transform", cut=False,
                               params={"self": registry, "key": lambda it: VTuple((TStr().fresh(it.ctx, "src"), FID.fresh(it.ctx, "dst"))),
                                       "args": lambda it: VTuple((vec(it, "p"),)), "kwargs": lambda it: it.ctx.new_cell("dict", ([], []))},
                               requires=distinct_keys,      # any case of the name (an earlier version was restricted to lower-case names; the upper-case X -> X case was a defect, fixed 31122d3)
                               raises={"KeyError": "all([implies(lower(key[0]) == m.value, " + none_reg("m", "key[1]") + ") for m in FrameID])",
                                       "ValueError": "not any([lower(key[0]) == m.value for m in FrameID])"},
                               ensures=str_post),
             extra_contracts=cuts)
    # ---------------------------------------------------------------- algebra lemmas over the terms above (assumed ground instances listed)
    def round_trip(z3):
        from pyvc.externals.mat import MUL, INV, HOM, POS, QUAT, ID
        m, q = z3.Ints("m q")
        p = z3.Reals("p0 p1 p2")
        H = HOM(p[0], p[1], p[2], q)
        T1 = MUL(m, H)
        p1, q1 = [POS[i](T1) for i in range(3)], QUAT(T1)
        Minv = HOM(POS[0](INV(m)), POS[1](INV(m)), POS[2](INV(m)), QUAT(INV(m)))          # matrix of m.inv()  (contract of inv)
        T2 = MUL(Minv, HOM(p1[0], p1[1], p1[2], q1))
        hyps = [Minv == INV(m),                                          # hom/projection round trip at inv(m) (rigid)
                HOM(p1[0], p1[1], p1[2], q1) == T1,                      # hom/projection round trip at m*H (rigid)
                MUL(INV(m), T1) == MUL(MUL(INV(m), m), H),               # associativity
                MUL(INV(m), m) == ID, MUL(ID, H) == H,                   # inverse, identity
                POS[0](H) == p[0], POS[1](H) == p[1], POS[2](H) == p[2], QUAT(H) == q]   # projections of hom
        return hyps, z3.And(POS[0](T2) == p[0], POS[1](T2) == p[1], POS[2](T2) == p[2], QUAT(T2) == q)
    P.lemma("inverse_transform_returns_the_original_pose", round_trip)

    def composition(z3):
        from pyvc.externals.mat import MUL, HOM, POS, QUAT
        ab, bc, q = z3.Ints("ab bc q")
        p = z3.Reals("p0 p1 p2")
        H = HOM(p[0], p[1], p[2], q)
        C = MUL(bc, ab)
        Cm = HOM(POS[0](C), POS[1](C), POS[2](C), QUAT(C))                # matrix of bc.dot(ab)
        step1 = MUL(ab, H)
        H1 = HOM(POS[0](step1), POS[1](step1), POS[2](step1), QUAT(step1))
        two = MUL(bc, H1)
        one = MUL(Cm, H)
        hyps = [Cm == C, H1 == step1, MUL(MUL(bc, ab), H) == MUL(bc, MUL(ab, H))]
        return hyps, z3.And(*[POS[i](one) == POS[i](two) for i in range(3)], QUAT(one) == QUAT(two))
    P.lemma("composed_transform_equals_transforming_in_two_steps", composition)
    P.trust("abstract rigid-matrix algebra (externals/mat.py); the lemmas' hypotheses (associativity, inverse, identity, hom/projection round trip) are assumed ground instances; "
            "Quaternion(matrix=q.rotation_matrix) is q up to sign")
    P.uncover("numerical agreement with numpy / pyquaternion (rounding), non-rigid input matrices")
