"""C03 native harness: evaluated frames (real get_object_results -> PerceptionFrameResult.evaluate_frame) against the accounting
clauses of the statement, in the ego frame and in the map frame with an ego pose."""
import math
import random
import sys

from common import main, budget
import build
import frames

LABELS = ["car", "pedestrian", "bicycle", "unknown"]


def to_map(d, ego):
    c, s = math.cos(ego["yaw"]), math.sin(ego["yaw"])
    m = dict(d)
    m["x"], m["y"] = ego["x"] + c * d["x"] - s * d["y"], ego["y"] + s * d["x"] + c * d["y"]
    m["yaw"] = d.get("yaw", 0.0) + ego["yaw"]
    m["frame"] = "map"
    return m


def inside(d, crit, targets, is_gt=False):
    """critical predicate of an ego-frame description (x/y box per label; unknown-labelled estimates: see C10, avoided here);
    the minimum point count applies to ground truths only"""
    if d["label"] == "false_positive":
        return True
    if d["label"] not in targets:
        return False
    i = targets.index(d["label"])
    if is_gt and crit.get("min_point_numbers") is not None and d.get("pts", 0) < crit["min_point_numbers"][i]:
        return False
    if "max_distance_list" in crit:      # a ring in the ego's ground plane: the height of the object does not matter
        r = math.hypot(d["x"], d["y"])
        return crit["min_distance_list"][i] < r < crit["max_distance_list"][i]
    return abs(d["x"]) < crit["max_x_position_list"][i] and abs(d["y"]) < crit["max_y_position_list"][i]


def check(case):
    est_e, gt_e, ego = case["est"], case["gt"], case["ego"]
    targets, crit = case["targets"], case["crit"]
    est = [to_map(d, ego) for d in est_e] if ego else est_e
    gt = [to_map(d, ego) for d in gt_e] if ego else gt_e
    try:
        fr, eo, go, res = frames.frame_result(est, gt, ego=ego, task=case["task"], targets=targets, crit=crit, pass_thr=case["pass_thr"], policy=case["policy"],
                                              pass_targets=case.get("pass_targets"))
    except Exception as ex:
        return f"evaluation raised {type(ex).__name__}: {ex}"
    pf = fr.pass_fail_result
    tp, fp, tn, fn = pf.tp_object_results, pf.fp_object_results, pf.tn_objects, pf.fn_objects
    crit_gt = [o for o, d in zip(go, gt_e) if inside(d, crit, targets, is_gt=True)]
    crit_est = [o for o, d in zip(eo, est_e) if inside(d, crit, targets)]
    if len(fr.object_results) != len(tp) + len(fp):
        return f"{len(fr.object_results)} surviving results but TP+FP = {len(tp)}+{len(fp)}"
    for r in fr.object_results:
        if not any(r.estimated_object is o for o in crit_est):
            return "an estimate outside the critical region is counted"
        if r.ground_truth_object is not None and not any(r.ground_truth_object is o for o in crit_gt):
            return "a result whose ground truth lies outside the critical region is counted"
    if len(fr.frame_ground_truth.objects) != len(crit_gt) or any(a is not b for a, b in zip(fr.frame_ground_truth.objects, crit_gt)):
        return f"critical ground truths: evaluated {len(fr.frame_ground_truth.objects)}, statement {len(crit_gt)}"
    ordinary = [o for o in crit_gt if not o.semantic_label.is_fp()]
    if len(ordinary) != len(tp) + len(fn):
        return f"ordinary critical ground truths {len(ordinary)} != TP {len(tp)} + FN {len(fn)}"
    seen = []
    for o in [r.ground_truth_object for r in tp] + list(fn) + list(tn) + [r.ground_truth_object for r in fp if r.ground_truth_object is not None and r.ground_truth_object.semantic_label.is_fp()]:
        if any(o is s for s in seen):
            return "a ground truth is accounted for twice"
        seen.append(o)
    for o in crit_gt:
        if not any(o is s for s in seen):
            return "a critical ground truth is not accounted for"
    # a TP has a label-compatible ground truth whose pass/fail score (plane distance for 3-D) beats the threshold of its label
    def compatible(r):
        e, g, pol = r.estimated_object.semantic_label.label, r.ground_truth_object.semantic_label.label, case["policy"]
        return pol == "ALLOW_ANY" or e == g or (pol == "ALLOW_UNKNOWN" and e.value == "unknown")
    def thr(r):
        return case["pass_thr"][(case.get("pass_targets") or targets).index(r.ground_truth_object.semantic_label.label.value)]
    for r in tp:
        if r.ground_truth_object.semantic_label.is_fp() or not compatible(r) or not (r.plane_distance.value < thr(r)):
            return f"a TP whose pair is not label-compatible or whose plane distance {r.plane_distance.value:.3f} does not beat the threshold {thr(r)}"
    for r in fp:
        g = r.ground_truth_object
        if g is not None and not g.semantic_label.is_fp() and compatible(r) and r.plane_distance.value < thr(r):
            return f"a result reported FP although its pair is label-compatible and its plane distance {r.plane_distance.value:.3f} beats the threshold {thr(r)}"
    return None


def gen(rnd):
    targets = ["car", "pedestrian", "bicycle", "unknown"]
    n = len(targets)
    ego = rnd.choice([None, dict(x=rnd.choice([0.0, 50.0, -20.0]), y=rnd.choice([0.0, 30.0]), yaw=rnd.choice([0.0, 0.7, 2.5, -1.2]))])
    crit = dict(max_x_position_list=[rnd.choice([4.0, 8.0])] * n, max_y_position_list=[rnd.choice([3.0, 8.0])] * n)
    pts = [-9.0, -6.0, -3.5, -1.0, 0.5, 2.0, 3.5, 5.0, 7.0, 9.5]
    mk = lambda i, lab: dict(label=rnd.choice(lab), x=rnd.choice(pts) + 0.01 * i, y=rnd.choice(pts) - 0.02 * i, yaw=rnd.choice([0.0, 0.3]), score=rnd.choice([0.3, 0.8]), uuid=str(i))
    est = [mk(i, ["car", "pedestrian", "bicycle"]) for i in range(rnd.randint(0, 4))]
    gt = [mk(10 + i, ["car", "pedestrian", "bicycle"]) for i in range(rnd.randint(0, 4))]
    for gi, g in enumerate(gt[:2]):
        if est and rnd.random() < 0.6:      # close to an estimate so that pairs form (ground truths stay pairwise distinct)
            e = rnd.choice(est)
            # sometimes the same centre but a quarter turn: centre distance ~0 while the plane distance is large
            g.update(label=e["label"], x=e["x"] + rnd.choice([0.0, 0.1, 0.6, 1.5]) + 0.03 * gi, y=e["y"] + 0.02 * gi,
                     yaw=e.get("yaw", 0.0) + rnd.choice([0.0, 0.0, 1.5707963]))
    if rnd.random() < 0.3:
        crit = dict(max_distance_list=[rnd.choice([6.0, 9.0])] * n, min_distance_list=[rnd.choice([0.0, 2.0])] * n)
        for d in est + gt:
            d["z"] = rnd.choice([0.0, 2.5, -1.5, 6.0])      # overhead / below: the planar distance decides
    # ground truths carry a lidar point count; the critical filter may demand a minimum (of ground truths only)
    for g in gt:
        g["pts"] = rnd.choice([0, 1, 3, 8])
    for e in est:
        e["pts"] = None
    if rnd.random() < 0.4:
        crit["min_point_numbers"] = [rnd.choice([0, 2, 5])] * n
    # uuids are optional (None by default) and need not be unique: the accounting is by object, not by id
    r = rnd.random()
    if r < 0.25:
        for g in gt:
            g["uuid"] = None
    elif r < 0.4:
        for g in gt:
            g["uuid"] = "same"
    task = rnd.choice(["detection", "tracking", "fp_validation"])
    if task == "fp_validation":
        for g in gt:
            if rnd.random() < 0.6:
                g["label"] = "false_positive"
        if rnd.random() < 0.5:
            # the false-positive label may itself be configured (a pass/fail threshold and a critical region of its own): an estimate sitting on such a
            # ground truth within the threshold is a matched FP, not a TN
            targets = targets + ["false_positive"]
            n = len(targets)
            crit = {k: v + [v[0]] for k, v in crit.items()}
    case = dict(est=est, gt=gt, ego=ego, targets=targets, crit=crit, task=task,
                pass_thr=[rnd.choice([0.5, 2.0])] * n, policy=rnd.choice(["DEFAULT", "ALLOW_UNKNOWN", "ALLOW_ANY"]))
    if rnd.random() < 0.4:
        # the pass/fail configuration lists the labels in its own order, with a threshold per label (the two configurations are separate objects)
        order = list(targets)
        rnd.shuffle(order)
        case.update(pass_targets=order, pass_thr=[rnd.choice([0.3, 0.5, 2.0, 4.0]) for _ in order])
    return case


def search(item, seed):
    rnd = random.Random(seed * 977 + 3)
    for _ in range(budget(250)):
        case = gen(rnd)
        why = check(case)
        if why:
            return dict(function="evaluate_frame", input=case, observed=why)
    return None


def replay(payload):
    why = check(payload["input"])
    return (why is None, why or "ok")


if __name__ == "__main__":
    sys.exit(main("C03", search, replay))
