"""C04 — AP, APH and mAP equal the interpolated precision-recall area, within [0,1].

Under contract (ap.py): Ap.__init__ on per-frame result lists (pooled into a list of its own, ranked once each by confidence, the four steps in order, AP undefined without
results), Ap._calculate_tp_fp (which results count as TP / FP, rank by rank; float and whole-number thresholds), get_precision_recall_list (p_k = T_k/(k+1), r_k = T_k/G),
interpolate_precision_recall_list (the max-precision envelope), _calculate_ap (the area sum, its bounds, AP = 0 when no estimate is correct); the APH weight of a TP (C09's tasks).
"""
from pyvc.api import *

AP = "evaluation.metrics.detection.ap"


def tp_fp_tasks(P, models=True):
    """Ap._calculate_tp_fp: which results count, rank by rank (shared with C08, whose AP clause rests on it)"""
    idx = P.index
    APC = idx.lookup(f"{AP}:Ap")
    RL = TSList(TReal())

    def make_ap(it, **fields):
        o = it.ctx.new_cell("obj", {}, APC)
        it.ctx.cell(o).update(fields)
        return o
    # ---------------------------------------------------------------- which results count: cumulative TP weights and FP counts, rank by rank
    import z3 as _z3
    from pyvc.lemmas import running_total
    import contracts.C10 as C10
    OR = "evaluation.result.object_result"
    if models:
        C10.models(P)
        P.model(ClassModel("DynamicObjectWithPerceptionResult", {"estimated_object": TSObj("DynamicObject"), "ground_truth_object": TSObj("DynamicObject", nullable=True)},
                           repo_class=idx.lookup(f"{OR}:DynamicObjectWithPerceptionResult")))
    RES = TSObj("DynamicObjectWithPerceptionResult")

    def _cumsum(interp, args, kwargs, node):
        """np.cumsum(list of numbers): running totals (assumed numpy contract)"""
        x = args[0]
        n_ = interp.ctx.slen(x.z)
        r = interp.new_slist(TReal(), "cumsum")
        acc = interp.ctx.fresh("cumsum_items", _z3.ArraySort(I, R))
        k = _z3.Int("k!cs")
        xi = lambda j: interp.ctx.item_terms(x, j)[0]
        interp.ctx.pc.append(_z3.ForAll([k], _z3.Implies(_z3.And(0 <= k, k < n_), _z3.Select(acc, k) == _z3.If(k == 0, xi(k), _z3.Select(acc, k - 1) + xi(k)))))
        interp.ctx.set_list(r, n_, ("fn", lambda j: [_z3.Select(acc, j)]))
        return VOpaque("ndarray_list", None, data={"list": r})

    def install_np(it):
        from pyvc.externals import _wrap
        it.externals["numpy.cumsum"] = _wrap(it, "numpy.cumsum", _cumsum, "np.cumsum(xs)[k] = xs[0] + ... + xs[k]")
        it.externals["ndarray_list.tolist"] = _wrap(it, "ndarray_list.tolist", lambda interp, a, kw, nd: a[0].data["list"], "tolist() of a 1-D array is the list of its items")
    P.install(install_np)
    AL = TEnum(idx.lookup("common.label:AutowareLabel"))
    MM = idx.lookup("evaluation.matching.object_matching:MatchingMode")
    TPA = idx.lookup("evaluation.metrics.detection.tp_metrics:TPMetricsAp")
    OBJ = "object_results"
    lab = lambda r: f"({r}.ground_truth_object.semantic_label.label if {r}.ground_truth_object is not None else {r}.estimated_object.semantic_label.label)"
    thr_none = lambda r: f"uf_bool('thr_none', {lab(r)}, self.target_labels, self.matching_threshold_list)"
    thr_val = lambda r: f"uf_real('thr', {lab(r)}, self.target_labels, self.matching_threshold_list)"
    correct = lambda r: f"uf_bool('correct', {r}, self.matching_mode, {thr_val(r)})"
    import contracts.C03 as C03
    P.install(lambda it: it.spec_funcs.update(opt_value=C03.opt_value))
    weight = lambda r: f"uf_real('tp_weight', {r})"
    tpw = lambda k: f"(({weight(OBJ + '[' + k + ']')}) if (not {thr_none(OBJ + '[' + k + ']')}) and {correct(OBJ + '[' + k + ']')} else 0)"
    fpw = lambda k: f"(1.0 if (not {thr_none(OBJ + '[' + k + ']')}) and not {correct(OBJ + '[' + k + ']')} else 0.0)"
    gt_, dt_ = running_total("cum_tp", real=True)
    gf_, df_ = running_total("cum_fp", real=True)
    nO = f"len({OBJ})"
    mk_named_thr = lambda T: Contract("common.threshold:get_label_threshold", params={}, returns=Opt(T),
                                      ensures=E("none_flag", "(result is None) == uf_bool('thr_none', semantic_label.label, target_labels, threshold_list)",
                                                "value", "implies(result is not None, result == uf_real('thr', semantic_label.label, target_labels, threshold_list))"))
    named_thr = mk_named_thr(TReal())
    named_correct = Contract(f"{OR}:DynamicObjectWithPerceptionResult.is_result_correct", params={}, returns=TBool(),
                             requires=E("a_threshold", "matching_threshold is not None"),
                             ensures=E("named", "result == uf_bool('correct', self, matching_mode, opt_value(matching_threshold))"))
    named_weight = Contract("evaluation.metrics.detection.tp_metrics:TPMetricsAp.get_value", params={}, returns=TReal(),
                            ensures=E("named_in_unit_interval", "result == uf_real('tp_weight', object_result) and 0 <= result and result <= 1"))
    inv_tp = E("two_new_lists_of_one_entry_per_result", f"len(tp_list) == {nO} and len(fp_list) == {nO} and tp_list is not fp_list and not is_old(tp_list) and not is_old(fp_list) and allocated(tp_list) and allocated(fp_list)",
               "entries_so_far", f"forall(k, 0, i, tp_list[k] == {tpw('k')} and fp_list[k] == {fpw('k')})",
               "entries_to_come_are_zero", f"forall(k, i, {nO}, tp_list[k] == 0 and fp_list[k] == 0)",
               "input_untouched", f"len({OBJ}) == old(len({OBJ})) and forall(k, 0, {nO}, {OBJ}[k] is old({OBJ}[k]))")
    # thresholds are any real numbers: configuration files spell them as floats or as whole numbers (numbers.Real is what the configuration check admits)
    for tname, TT in (("float thresholds", TReal()), ("whole-number thresholds", TInt())):
        mk_ap2 = lambda it, TT=TT: make_ap(it, num_ground_truth=TInt().fresh(it.ctx, "num_gt"), target_labels=Opt(TSList(AL)).fresh(it.ctx, "targets"),
                                           matching_mode=TEnum(MM).fresh(it.ctx, "mode"), matching_threshold_list=Opt(TSList(TT)).fresh(it.ctx, "thresholds"),
                                           objects_results_num=TInt().fresh(it.ctx, "n_results"))
        P.verify(f"{AP}:Ap._calculate_tp_fp", name="Ap._calculate_tp_fp" + ("" if tname.startswith("float") else f"[{tname}]"),
                 contract=Contract(f"{AP}:Ap._calculate_tp_fp", cut=False,
                                   params={"self": mk_ap2, "tp_metrics": lambda it: it.ctx.new_cell("obj", {}, TPA), OBJ: TSList(RES)},
                                   locals={"tp_list": RL, "fp_list": RL, "matching_threshold_": Opt(TT), "#comp1": TReal(), "#comp2": TReal()},
                                   requires=E("some_results_and_their_number_recorded", f"{nO} > 0 and self.objects_results_num == {nO}"),
                                   loops={1: LoopSpec(index="i", invariants=inv_tp)},
                                   ensures=E("one_entry_per_rank", f"len(result[0]) == {nO} and len(result[1]) == {nO}",
                                             "cumulative_tp_weight_of_the_correct_results_judged_at_the_threshold_of_the_ground_truths_label",
                                             f"result[0][0] == {tpw('0')} and forall(k, 0, {nO} - 1, result[0][k + 1] == result[0][k] + {tpw('k + 1')})",
                                             "incorrect_results_counted_from_the_first_rank", f"result[1][0] == {fpw('0')}",
                                             "cumulative_count_of_the_incorrect_results", f"forall(k, 0, {nO} - 1, result[1][k + 1] == result[1][k] + {fpw('k + 1')})")),
                 extra_contracts={idx.lookup("common.threshold:get_label_threshold").fq: mk_named_thr(TT),
                                  idx.lookup(f"{OR}:DynamicObjectWithPerceptionResult.is_result_correct").fq: named_correct,
                                  idx.lookup("evaluation.metrics.detection.tp_metrics:TPMetricsAp.get_value").fq: named_weight})


def _list_sort(interp, args, kwargs, node):
    """xs.sort(key=f, reverse=True) on an SMT list (assumed contract of list.sort): afterwards xs holds the same items in another order (a bijection of the
    positions), keys do not increase along the list, and items with equal keys keep their former order (stability)"""
    import z3
    from pyvc.ops import to_real_z
    lst = args[0]
    if lst.kind != "slist" or set(kwargs) - {"key", "reverse"} or len(args) != 1 or "key" not in kwargs:
        raise EngineError(f"list.sort in this form (line {getattr(node, 'lineno', '?')}): no assumed contract")
    rev = kwargs.get("reverse")
    if rev is None or rev.kind != "bool" or not z3.is_true(z3.simplify(rev.z)):
        raise EngineError("list.sort without reverse=True: no assumed contract")
    ctx = interp.ctx
    n = ctx.slen(lst.z)
    ctx.counter += 1
    perm = z3.Function(f"sort_perm!{ctx.counter}", I, I)
    inv = z3.Function(f"sort_perm_inv!{ctx.counter}", I, I)
    k, a, b = z3.Int(f"k!sp{ctx.counter}"), z3.Int(f"a!sp{ctx.counter}"), z3.Int(f"b!sp{ctx.counter}")
    rng = lambda v: z3.And(0 <= v, v < n)
    ctx.pc.append(z3.ForAll([k], z3.Implies(rng(k), z3.And(rng(perm(k)), inv(perm(k)) == k)), patterns=[perm(k)]))
    ctx.pc.append(z3.ForAll([k], z3.Implies(rng(k), z3.And(rng(inv(k)), perm(inv(k)) == k)), patterns=[inv(k)]))
    snap = dict(ctx.sheap)

    def permuted(j):
        cur = ctx.sheap
        ctx.sheap = snap
        try:
            return ctx.item_terms(lst, perm(j))
        finally:
            ctx.sheap = cur
    ctx.set_list(lst, n, ("fn", permuted))
    ctx.written.append(("list", lst.z, node))

    def key_at(j, guard):
        ctx.push_param(j, guard)
        ctx.no_branch += 1
        try:
            return to_real_z(interp.call_value(kwargs["key"], [ctx.sitem(lst, j)], {}, node))
        finally:
            ctx.no_branch -= 1
            ctx.pop_param()
    g2 = z3.And(rng(a), rng(b), a < b)
    ka, kb = key_at(a, g2), key_at(b, g2)
    ctx.pc.append(z3.ForAll([a, b], z3.Implies(g2, z3.And(ka >= kb, z3.Implies(ka == kb, perm(a) < perm(b))))))
    interp.spec_funcs["sort_source"] = lambda it, e, fr: VInt(perm(it.ev(e.args[0], fr).z))     # spec: position before the sort of the item now at position k
    interp.spec_funcs["sort_position"] = lambda it, e, fr: VInt(inv(it.ev(e.args[0], fr).z))   # spec: position after the sort of the item formerly at position p
    return NONE


def init_tasks(P, models=True):
    """Ap.__init__ on per-frame result lists: pooled into a list of its own (the caller's lists stay as they are), ranked by confidence, then the four steps in order"""
    from pyvc.lemmas import sum_fn, add_sum_lemmas
    idx = P.index
    add_sum_lemmas(P)
    APC = idx.lookup(f"{AP}:Ap")
    OR = "evaluation.result.object_result"
    RES = TSObj("DynamicObjectWithPerceptionResult")
    RT, RL = TSList(RES), TSList(TReal())
    NEST, ALL = "object_results", "all_object_results"

    def install(it):
        from pyvc.externals import _wrap
        it.externals["sym.list_sort"] = _wrap(it, "sym.list_sort", _list_sort, "xs.sort(key=f, reverse=True): same items, keys non-increasing, equal keys keep their order")
    P.install(install)
    gt_, dt_ = sum_fn("results_before")
    total = f"results_before(len({NEST}))"
    untouched = (f"len({NEST}) == old(len({NEST})) and forall(g, 0, len({NEST}), {NEST}[g] is old({NEST}[g]) and len({NEST}[g]) == old(len({NEST}[g])) and "
                 f"forall(k, 0, len({NEST}[g]), {NEST}[g][k] is old({NEST}[g][k])))")
    cuts = {
        idx.lookup(f"{AP}:Ap._calculate_tp_fp").fq: Contract(f"{AP}:Ap._calculate_tp_fp", params={}, returns=TTuple(RL, RL),
            requires=E("ranked_by_confidence", "forall(a, 0, len(object_results), forall(b, 0, len(object_results), implies(a < b, "
                                               "object_results[a].estimated_object.semantic_score >= object_results[b].estimated_object.semantic_score)))",
                       "all_results_recorded", "self.objects_results_num == len(object_results)"),
            ensures=E("named", "uf_bool('tp_fp_lists_of', result[0], result[1], object_results, tp_metrics) and is_new(result[0]) and is_new(result[1])")),
        idx.lookup(f"{AP}:Ap.get_precision_recall_list").fq: Contract(f"{AP}:Ap.get_precision_recall_list", params={}, returns=TTuple(RL, RL),
            ensures=E("named", "uf_bool('precision_recall_of', result[0], result[1], self.tp_list, self.num_ground_truth)")),
        idx.lookup(f"{AP}:Ap._calculate_ap").fq: Contract(f"{AP}:Ap._calculate_ap", params={}, returns=TReal(),
            ensures=E("named", "result == uf_real('area_under', precision_list, recall_list)")),
        idx.lookup(f"{AP}:Ap._calculate_average_sd").fq: Contract(f"{AP}:Ap._calculate_average_sd", params={}, returns=TTuple(TOpt(TReal()), TOpt(TReal()))),
    }
    flat = f"forall(g, 0, f, forall(m, 0, len({NEST}[g]), {ALL}[results_before(g) + m] is {NEST}[g][m]))"
    P.verify(f"{AP}:Ap.__init__", name="Ap.__init__[results of several frames]",
             contract=Contract(f"{AP}:Ap.__init__", cut=False,
                               params={"self": lambda it: it.ctx.new_cell("obj", {}, APC), "tp_metrics": lambda it: it.ctx.new_cell("obj", {}, idx.lookup("evaluation.metrics.detection.tp_metrics:TPMetricsAp")),
                                       NEST: TSList(RT), "num_ground_truth": TInt(), "target_labels": TSList(TEnum(idx.lookup("common.label:AutowareLabel"))),
                                       "matching_mode": TEnum(idx.lookup("evaluation.matching.object_matching:MatchingMode")), "matching_threshold_list": TSList(TReal())},
                               locals={ALL: RT, "precision_list": RL, "recall_list": RL},
                               ghosts={"results_before": gt_}, defs=dt_(lambda g: f"len({NEST}[{g}])", f"len({NEST})"),
                               requires=E("some_frames", f"len({NEST}) > 0",
                                          "frames_are_distinct_lists", f"forall(a, 0, len({NEST}), forall(b, 0, len({NEST}), implies(a != b, {NEST}[a] is not {NEST}[b])))"),
                               loops={1: LoopSpec(index="f", invariants=E(
                                   "a_list_of_its_own_with_the_results_of_the_frames_so_far", f"not is_old({ALL}) and allocated({ALL}) and len({ALL}) == results_before(f)",
                                   "frame_by_frame_in_order", flat,
                                   "callers_lists_untouched", untouched))},
                               hints={"self.tp_list: List[float] = []": E(
                                   "every_result_of_every_frame_is_ranked_exactly_once",
                                   f"len({ALL}) == {total} and forall(k, 0, len({ALL}), 0 <= sort_source(k) and sort_source(k) < {total}) and "
                                   f"forall(g, 0, len({NEST}), forall(m, 0, len({NEST}[g]), 0 <= sort_position(results_before(g) + m) and sort_position(results_before(g) + m) < len({ALL}) and "
                                   f"sort_source(sort_position(results_before(g) + m)) == results_before(g) + m and {ALL}[sort_position(results_before(g) + m)] is {NEST}[g][m]))",
                                   "ranked_by_confidence_ties_in_frame_order",
                                   f"forall(a, 0, len({ALL}), forall(b, 0, len({ALL}), implies(a < b, {ALL}[a].estimated_object.semantic_score >= {ALL}[b].estimated_object.semantic_score and "
                                   f"implies({ALL}[a].estimated_object.semantic_score == {ALL}[b].estimated_object.semantic_score, sort_source(a) < sort_source(b)))))")},
                               ensures=E("every_result_counted_once", f"self.objects_results_num == {total}",
                                         "tp_and_fp_lists_of_the_ranked_results", f"uf_bool('tp_fp_lists_of', self.tp_list, self.fp_list, local('{ALL}', None), tp_metrics)",
                                         "ap_is_the_area_under_the_precision_recall_lists_of_these_tp",
                                         f"implies({total} > 0, uf_bool('precision_recall_of', local('precision_list', None), local('recall_list', None), self.tp_list, self.num_ground_truth) and "
                                         f"self.ap == uf_real('area_under', local('precision_list', None), local('recall_list', None)))",
                                         "undefined_without_results", f"implies({total} == 0, self.ap == float('inf'))",
                                         "configuration_kept", "self.num_ground_truth == num_ground_truth and self.target_labels is target_labels and self.matching_mode is matching_mode and "
                                                               "self.matching_threshold_list is matching_threshold_list and self.tp_metrics is tp_metrics",
                                         "callers_lists_untouched", untouched)),
             extra_contracts=cuts)


def build(P):
    idx = P.index
    P.min_obligations = 60
    APC = idx.lookup(f"{AP}:Ap")
    RL = TSList(TReal())

    def make_ap(it, **fields):
        o = it.ctx.new_cell("obj", {}, APC)
        it.ctx.cell(o).update(fields)
        return o
    # ---------------------------------------------------------------- precision / recall from the cumulative TP weights
    P.verify(f"{AP}:Ap.get_precision_recall_list", name="Ap.get_precision_recall_list",
             contract=Contract(
                 f"{AP}:Ap.get_precision_recall_list", cut=False,
                 params={"self": lambda it: make_ap(it, tp_list=RL.fresh(it.ctx, "tp_list"), num_ground_truth=TInt().fresh(it.ctx, "num_gt"))},
                 locals={"precisions_list": RL, "recalls_list": RL},
                 requires=E("ground_truth_count_not_negative", "self.num_ground_truth >= 0"),
                 loops={1: LoopSpec(index="j", invariants=E(
                     "lengths", "len(precisions_list) == len(self.tp_list) and len(recalls_list) == len(self.tp_list) and precisions_list is not recalls_list and "
                                "not is_old(precisions_list) and not is_old(recalls_list)",
                     "precision_so_far", "forall(k, 0, j, precisions_list[k] == self.tp_list[k] / (k + 1))",
                     "recall_so_far", "forall(k, 0, j, recalls_list[k] == (self.tp_list[k] / self.num_ground_truth if self.num_ground_truth > 0 else 0))",
                     "tp_list_untouched", "len(self.tp_list) == old(len(self.tp_list)) and forall(k, 0, len(self.tp_list), self.tp_list[k] == old(self.tp_list[k]))"))},
                 ensures=E("one_point_per_rank", "len(result[0]) == len(self.tp_list) and len(result[1]) == len(self.tp_list)",
                           "precision_is_cumulative_tp_over_rank", "forall(k, 0, len(self.tp_list), result[0][k] == self.tp_list[k] / (k + 1))",
                           "recall_is_cumulative_tp_over_ground_truths", "forall(k, 0, len(self.tp_list), result[1][k] == (self.tp_list[k] / self.num_ground_truth if self.num_ground_truth > 0 else 0))")))
    tp_fp_tasks(P)
    init_tasks(P)
    # APH's TP weight (what the "H" adds to the area): C09's contract of TPMetricsAph.get_value and the two heading functions, re-verified here
    import contracts.C09 as C09
    n0_ = len(P.tasks)
    C09.build(P)
    P.tasks[n0_:] = [t for t in P.tasks[n0_:] if t.name.startswith(("get_heading_bev", "TPMetricsAph"))]
    P.min_obligations = 60
    # ---------------------------------------------------------------- interpolation: maximum precision at any higher recall
    PL, RLs = "precision_list", "recall_list"
    MP, MR = "max_precision_list", "max_precision_recall_list"
    n = f"len({PL})"
    inv = E("same_length_at_least_one", f"len({MP}) == len({MR}) and len({MP}) >= 1 and {MP} is not {MR} and not is_old({MP}) and not is_old({MR})",
            "first_point_is_the_last_rank", f"{MP}[0] == {PL}[{n} - 1] and {MR}[0] == {RLs}[{n} - 1]",
            "current_maximum_dominates_all_ranks_seen", f"forall(k, {n} - 1 - j, {n}, {PL}[k] <= {MP}[len({MP}) - 1])",
            "every_point_is_a_rank_and_its_precision_dominates_all_higher_ranks",
            f"forall(t, 0, len({MP}), exists(k, {n} - 1 - j, {n}, {MP}[t] == {PL}[k] and {MR}[t] == {RLs}[k] and forall(m, k, {n}, {PL}[m] <= {MP}[t])))",
            "recall_does_not_increase_along_the_curve_if_it_does_not_decrease_with_rank",
            f"implies(forall(k, 0, {n}, forall(m, 0, {n}, implies(k <= m, {RLs}[k] <= {RLs}[m]))), forall(t, 0, len({MR}) - 1, {MR}[t] >= {MR}[t + 1]))",
            "inputs_untouched", f"len({PL}) == old(len({PL})) and len({RLs}) == old(len({RLs})) and forall(k, 0, {n}, {PL}[k] == old({PL}[k]) and {RLs}[k] == old({RLs}[k]))")
    c_int = Contract(
        f"{AP}:Ap.interpolate_precision_recall_list",
        params={"self": lambda it: make_ap(it), PL: RL, RLs: RL},
        returns=TTuple(RL, RL),
        locals={MP: RL, MR: RL},
        requires=E("one_point_per_rank", f"{n} == len({RLs}) and {n} >= 1"),
        loops={1: LoopSpec(index="j", invariants=inv)},
        ensures=E("curve_ends_at_recall_zero", "len(result[0]) == len(result[1]) and len(result[0]) >= 2 and result[1][len(result[1]) - 1] == 0 and "
                                              "result[0][len(result[0]) - 1] == result[0][len(result[0]) - 2]",
                  "curve_starts_at_the_last_rank", f"result[0][0] == {PL}[{n} - 1] and result[1][0] == {RLs}[{n} - 1]",
                  "each_point_is_a_rank_with_the_maximum_precision_at_any_higher_rank",
                  f"forall(t, 0, len(result[0]) - 1, exists(k, 0, {n}, result[0][t] == {PL}[k] and result[1][t] == {RLs}[k] and forall(m, k, {n}, {PL}[m] <= result[0][t])))",
                  "maximum_over_all_ranks_is_reached", f"forall(k, 0, {n}, {PL}[k] <= result[0][len(result[0]) - 1])",
                  "precisions_in_unit_interval_if_inputs_are", f"implies(forall(k, 0, {n}, 0 <= {PL}[k] and {PL}[k] <= 1), forall(t, 0, len(result[0]), 0 <= result[0][t] and result[0][t] <= 1))",
                  "zero_if_inputs_are", f"implies(forall(k, 0, {n}, {PL}[k] == 0), forall(t, 0, len(result[0]), result[0][t] == 0))",
                  "recalls_non_increasing_if_input_non_decreasing", f"implies(forall(k, 0, {n}, forall(m, 0, {n}, implies(k <= m, {RLs}[k] <= {RLs}[m]))) and forall(k, 0, {n}, 0 <= {RLs}[k]), "
                                                                   "forall(t, 0, len(result[1]) - 1, result[1][t] >= result[1][t + 1]))",
                  "lists_are_new", "is_new(result[0]) and is_new(result[1]) and result[0] is not result[1]"))
    P.contract(c_int)
    # ---------------------------------------------------------------- the area: AP = sum_t mp[t] * (mr[t] - mr[t+1]); bounds
    c_named = Contract(
        f"{AP}:Ap.interpolate_precision_recall_list", params={}, returns=TTuple(RL, RL),
        requires=E("one_point_per_rank", f"{n} == len({RLs}) and {n} >= 1"),
        ensures=E("shape", "len(result[0]) == len(result[1]) and len(result[0]) >= 2 and result[0] is not result[1] and is_new(result[0]) and is_new(result[1])",
                  "ends_at_recall_zero", "result[1][len(result[1]) - 1] == 0",
                  "starts_at_last_rank", f"result[1][0] == {RLs}[{n} - 1]",
                  "named", f"id(result[0]) == uf_int('envelope_precisions', {PL}, {RLs}) and id(result[1]) == uf_int('envelope_recalls', {PL}, {RLs})",
                  # consequences of the verified contract above under the caller's requires (precision in [0,1], recall non-decreasing):
                  "precisions_in_unit_interval_if_inputs_are", f"implies(forall(k, 0, {n}, 0 <= {PL}[k] and {PL}[k] <= 1), forall(t, 0, len(result[0]), 0 <= result[0][t] and result[0][t] <= 1))",
                  "zero_if_inputs_are", f"implies(forall(k, 0, {n}, {PL}[k] == 0), forall(t, 0, len(result[0]), result[0][t] == 0))",
                  "recalls_non_increasing_if_input_non_decreasing", f"implies(forall(k, 0, {n}, forall(m, 0, {n}, implies(k <= m, {RLs}[k] <= {RLs}[m]))) and forall(k, 0, {n}, 0 <= {RLs}[k]), "
                                                                   "forall(t, 0, len(result[1]) - 1, result[1][t] >= result[1][t + 1]))"))
    mp_, mr_ = f"local('{MP}')", f"local('{MR}')"
    P.verify(f"{AP}:Ap._calculate_ap", name="Ap._calculate_ap",
             contract=Contract(
                 f"{AP}:Ap._calculate_ap", cut=False,
                 params={"self": lambda it: make_ap(it), PL: RL, RLs: RL},
                 locals={"ap": TReal(), "score": TReal(), MP: RL, MR: RL},
                 requires=E("one_point_per_rank", f"{n} == len({RLs})",
                            "precision_in_unit_interval", f"forall(k, 0, {n}, 0 <= {PL}[k] and {PL}[k] <= 1)",
                            "recall_non_decreasing_in_unit_interval", f"forall(k, 0, {n}, forall(m, 0, {n}, implies(k <= m, {RLs}[k] <= {RLs}[m]))) and forall(k, 0, {n}, 0 <= {RLs}[k] and {RLs}[k] <= 1)"),
                 loops={1: LoopSpec(index="i", invariants=E(
                     "curve_shape", f"len({MP}) == len({MR}) and len({MP}) >= 2 and {MR}[len({MR}) - 1] == 0 and {MR}[0] <= 1",
                     "curve_precisions_in_unit_interval", f"forall(t, 0, len({MP}), 0 <= {MP}[t] and {MP}[t] <= 1)",
                     "curve_recalls_non_increasing", f"forall(t, 0, len({MR}) - 1, {MR}[t] >= {MR}[t + 1])",
                     "curve_is_zero_if_all_precisions_are", f"implies(forall(k, 0, {n}, {PL}[k] == 0), forall(t, 0, len({MP}), {MP}[t] == 0))",
                     "curve_is_the_interpolation", f"id({MP}) == uf_int('envelope_precisions', {PL}, {RLs}) and id({MR}) == uf_int('envelope_recalls', {PL}, {RLs})",
                     "partial_area", f"ap == envsum({MP}, {MR}, i)",
                     "bounded_by_recall_covered", f"0 <= ap and ap <= {MR}[0] - {MR}[i]",
                     "zero_while_all_precisions_zero", f"implies(forall(t, 0, i, {MP}[t] == 0), ap == 0)"))},
                 ensures=E("area_under_the_interpolated_curve", f"implies({n} > 0, result == envsum({mp_}, {mr_}, len({mp_}) - 1))",
                           "curve_is_the_interpolation_of_these_lists", f"implies({n} > 0, id({mp_}) == uf_int('envelope_precisions', {PL}, {RLs}) and id({mr_}) == uf_int('envelope_recalls', {PL}, {RLs}))",
                           "within_unit_interval", "0 <= result and result <= 1",
                           "zero_without_ranks", f"implies({n} == 0, result == 0)",
                           "zero_when_no_estimate_is_correct", f"implies(forall(k, 0, {n}, {PL}[k] == 0), result == 0)")),
             extra_contracts={idx.lookup(f"{AP}:Ap.interpolate_precision_recall_list").fq: c_named})
    P.assume("floats are reals: the area is exact, rounding is not modelled")
    P.uncover("Map (mean over the labels with a defined AP), 'AP = 1 when every ground truth is matched and no wrong estimate outranks a correct one', 'APH <= AP', and the flat-list form of "
              "Ap.__init__ (a single list is ranked in place): not under contract in this build - native harness (bounded)")
    P.trust("list.sort(key=f, reverse=True) on a list: afterwards the same items in another order (a bijection of positions), keys non-increasing, equal keys in their former order; "
            "np.cumsum(xs)[k] = xs[0] + ... + xs[k] (assumed library contracts)")
