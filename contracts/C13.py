"""C13 — scene scores pool the frame results; frame evaluation is history-independent.

Frame conditions (proved, not assumed): PerceptionEvaluationManager._filter_objects and add_frame_result do not write to
the caller's estimate list, to the ground-truth frame they are handed (it belongs to the loaded dataset), or to any other
pre-existing object; add_frame_result appends exactly one new frame result; the previous result is consulted only as the
`previous_result` argument of evaluate_frame.
"""
from pyvc.api import *
import contracts.C10 as C10

MG = "manager.perception_evaluation_manager"
OF = "evaluation.matching.objects_filter"
OR = "evaluation.result.object_result"
FR = "evaluation.result.perception_frame_result"


def build(P):
    idx = P.index
    C10.models(P)
    P.min_obligations = 20
    DO = TSObj("DynamicObject")
    AL = TEnum(idx.lookup("common.label:AutowareLabel"))
    P.model(ClassModel("DynamicObjectWithPerceptionResult", {"estimated_object": DO, "ground_truth_object": TSObj("DynamicObject", nullable=True)},
                       repo_class=idx.lookup(f"{OR}:DynamicObjectWithPerceptionResult")))
    P.model(ClassModel("FrameGroundTruth", {"objects": TSList(DO), "transforms": TOpaque("transformdict"), "frame_name": TStr(), "unix_time": TInt()},
                       repo_class=idx.lookup("common.dataset:FrameGroundTruth")))
    frc = P.model(ClassModel("PerceptionFrameResult", {"object_results": TSList(TSObj("DynamicObjectWithPerceptionResult")),
                                                         "frame_ground_truth": TSObj("FrameGroundTruth"), "unix_time": TInt()},
                             repo_class=idx.lookup(f"{FR}:PerceptionFrameResult")))
    frc.alloc_smt = True
    RT = TSList(TSObj("DynamicObjectWithPerceptionResult"))
    FGT = TSObj("FrameGroundTruth")
    import ast as _ast
    cfg = idx.lookup("config.perception_evaluation_config:PerceptionEvaluationConfig._extract_params")
    keys = None
    for nd in _ast.walk(cfg.node):
        if isinstance(nd, _ast.AnnAssign) and isinstance(nd.value, _ast.Dict) and _ast.unparse(nd.target) == "f_params":
            keys = [k.value for k in nd.value.keys]
    assert keys, "f_params literal not found"
    KT = {"target_labels": Opt(TSList(AL)), "ignore_attributes": Opt(TSList(TStr())), "min_point_numbers": Opt(TSList(TInt())), "target_uuids": Opt(TSList(TStr())),
          "uuid_matching_first": TBool()}
    MGR = idx.lookup(f"{MG}:PerceptionEvaluationManager")
    ET = idx.lookup("common.evaluation_task:EvaluationTask")
    MLP = idx.lookup("evaluation.matching.object_matching:MatchingLabelPolicy")

    def plain(it, **f):
        o = it.ctx.new_cell("obj", {}, None)
        it.ctx.cell(o).update(f)
        return o

    def make_manager(it):
        vals = {k: KT.get(k, Opt(TSList(TReal()))).fresh(it.ctx, "f_" + k) for k in keys}
        fp = it.ctx.new_cell("dict", ([VStr(k) for k in keys], [vals[k] for k in keys]))
        lp = it.ctx.new_cell("dict", ([VStr("matching_label_policy")], [TEnum(MLP).fresh(it.ctx, "policy")]))
        ev = plain(it, filtering_params=fp, label_params=lp, target_labels=vals["target_labels"], metrics_config=plain(it))
        o = it.ctx.new_cell("obj", {}, MGR)
        it.ctx.cell(o).update(evaluator_config=ev, filtering_params=fp, evaluation_task=TEnum(ET).fresh(it.ctx, "task"),
                              target_labels=vals["target_labels"], metrics_config=plain(it),
                              frame_results=TSList(TSObj("PerceptionFrameResult")).fresh(it.ctx, "frame_results"))
        return o
    pure_list = lambda fn, res_t: Contract(f"{OF}:{fn}", params={}, returns=res_t, ensures=E("new_list", "is_new(result)"))
    gor = Contract(f"{OR}:get_object_results", params={}, returns=RT, ensures=E("new_list", "is_new(result)"))
    cuts = {idx.lookup(f"{OF}:filter_objects").fq: pure_list("filter_objects", TSList(DO)),
            idx.lookup(f"{OF}:filter_object_results").fq: pure_list("filter_object_results", RT),
            idx.lookup(f"{OR}:get_object_results").fq: gor}
    est_untouched = "len(estimated_objects) == old(len(estimated_objects)) and forall(k, 0, len(estimated_objects), estimated_objects[k] is old(estimated_objects[k]))"
    gt_frame_untouched = lambda f: (f"{f}.objects is old({f}.objects) and len({f}.objects) == old(len({f}.objects)) and "
                                    f"forall(k, 0, len({f}.objects), {f}.objects[k] is old({f}.objects[k])) and {f}.unix_time == old({f}.unix_time)")
    c_fo = Contract(
        f"{MG}:PerceptionEvaluationManager._filter_objects",
        params={"self": make_manager, "estimated_objects": TSList(DO), "frame_ground_truth": FGT},
        returns=TTuple(RT, FGT),
        ensures=E("callers_estimate_list_untouched", est_untouched,
                  "loaded_ground_truth_frame_untouched", gt_frame_untouched("frame_ground_truth"),
                  "evaluated_frame_is_a_new_object_with_the_same_stamp_and_transforms",
                  "is_new(result[1]) and result[1].unix_time == frame_ground_truth.unix_time and result[1].frame_name == frame_ground_truth.frame_name and "
                  "result[1].transforms is frame_ground_truth.transforms",
                  "results_are_new", "is_new(result[0])"))
    P.verify(f"{MG}:PerceptionEvaluationManager._filter_objects", name="_filter_objects", contract=c_fo, extra_contracts=cuts)
    # ---------------------------------------------------------------- add_frame_result
    ctor = Contract(f"{FR}:PerceptionFrameResult.__init__", params={},
                    assigns={"self.object_results": "object_results", "self.frame_ground_truth": "frame_ground_truth", "self.unix_time": "unix_time"})
    evalf = Contract(f"{FR}:PerceptionFrameResult.evaluate_frame", params={},
                     requires=E("evaluates_its_own_copy_of_the_frame", "is_new(self.frame_ground_truth) or not is_old(self.frame_ground_truth)"),
                     modifies=[("fieldof", "self", "object_results"), ("fieldof", "self.frame_ground_truth", "objects")],
                     assigns={})
    fo_cut = Contract(f"{MG}:PerceptionEvaluationManager._filter_objects", params={}, returns=TTuple(RT, FGT),
                      ensures=[e for e in c_fo.ensures])
    n0 = "old(len(self.frame_results))"
    c_add = Contract(
        f"{MG}:PerceptionEvaluationManager.add_frame_result", cut=False,
        params={"self": make_manager, "unix_time": TInt(), "ground_truth_now_frame": FGT, "estimated_objects": TSList(DO),
                "critical_object_filter_config": lambda it: plain(it), "frame_pass_fail_config": lambda it: plain(it)},
        modifies=["self.frame_results"],
        ensures=E("exactly_one_frame_result_appended", f"len(self.frame_results) == {n0} + 1 and self.frame_results[{n0}] is result and "
                                                       f"forall(k, 0, {n0}, self.frame_results[k] is old(self.frame_results[k]))",
                  "result_is_a_new_object", "is_new(result)",
                  "callers_estimate_list_untouched", est_untouched,
                  "loaded_ground_truth_frame_untouched", gt_frame_untouched("ground_truth_now_frame"),
                  "earlier_results_untouched", f"forall(k, 0, {n0}, self.frame_results[k].object_results is old(self.frame_results[k].object_results) and "
                                               f"self.frame_results[k].frame_ground_truth is old(self.frame_results[k].frame_ground_truth))"))
    P.verify(f"{MG}:PerceptionEvaluationManager.add_frame_result", name="add_frame_result", contract=c_add,
             extra_contracts={idx.lookup(f"{MG}:PerceptionEvaluationManager._filter_objects").fq: fo_cut,
                              idx.lookup(f"{FR}:PerceptionFrameResult.__init__").fq: ctor,
                              idx.lookup(f"{FR}:PerceptionFrameResult.evaluate_frame").fq: evalf})
    P.trust("copy.copy is a shallow copy into a new object (assumed)")
    P.assume("evaluate_frame writes only the object_results of its own frame result and the objects of the frame it was constructed with (its body: C03)")
    P.uncover("scene score == score of the pooled frame results (get_scene_result, Ap flatten + sort), order independence for distinct confidences, "
              "determinism of the whole result as a function of the arguments: covered by the native harness only (bounded)")
