"""C17 — ground-truth lookup picks the nearest frame in tolerance; interpolation is exact.

get_now_frame / get_interpolated_now_frame: integers and sequences, proved for all frame lists.
interpolate_list: exact linear interpolation over the reals.  Orientation: relative to the assumed
contract of pyquaternion slerp.
"""
from pyvc.api import *

DS = "common.dataset"
GEO = "common.geometry"


def models(P):
    P.model(ClassModel("FrameGroundTruth", {
        "unix_time": TInt(), "frame_name": TStr(),
        "interp_before": TSObj("FrameGroundTruth", nullable=True),    # ghost: set by interpolate_ground_truth_frames' contract
        "interp_after": TSObj("FrameGroundTruth", nullable=True),
        "objects": TSList(TSObj("DynamicObject")), "transforms": TSObj("TransformDict"),
    }, repo_class=P.index.lookup(f"{DS}:FrameGroundTruth")))
    # a frame's transform registry, seen through the one entry this code reads and writes: base_link -> map
    P.model(ClassModel("TransformDict", {"ego2map": TSObj("HomogeneousMatrix")}, repo_class=P.index.lookup("common.transform:TransformDict")))
    P.model(ClassModel("HomogeneousMatrix", {"matrix": TOpaque("ndarray"), "src": TEnum(P.index.lookup("common.schema:FrameID")), "dst": TEnum(P.index.lookup("common.schema:FrameID"))},
                       repo_class=P.index.lookup("common.transform:HomogeneousMatrix")))


FRAMES = "ground_truth_frames"
T_ = "unix_time"
TOL = "threshold_min_time"
n = f"len({FRAMES})"
t = lambda k: f"{FRAMES}[{k}].unix_time"


def frame_body_task(P, deepcopy_one_level):
    """the body of interpolate_ground_truth_frames: which frames, lists and times it hands on, what it stamps, and that the two neighbour frames are only read.
    Callees are cut at named results (what they compute is their own contract / assumed); deepcopy gives a new frame with a registry and an object list of its own"""
    idx = P.index
    TR, GEO_ = "common.transform", "common.geometry"
    FR, DO, HM = TSObj("FrameGroundTruth"), TSObj("DynamicObject"), TSObj("HomogeneousMatrix")
    import z3 as _z3

    def _deep(interp, args, kwargs, node):
        new = deepcopy_one_level(interp, args, kwargs, node)
        o = args[0]
        if o.kind == "sobj" and o.cname == "FrameGroundTruth":
            # the copy owns its registry and its object list (their contents are copies too; both are overwritten / replaced below)
            reg = deepcopy_one_level(interp, [interp.getattr(o, "transforms", node)], {}, node)
            interp.setattr(new, "transforms", reg, node)
            interp.setattr(new, "objects", interp.new_slist(DO, "copied_objects"), node)
        return new

    def install(it):
        from pyvc.externals import _wrap
        it.externals["copy.deepcopy"] = _wrap(it, "copy.deepcopy", _deep, "deepcopy(frame) is a new frame whose registry and object list are new objects too (equal contents)")
    is_key = "isinstance(key, TransformKey) and key.src is FrameID.BASE_LINK and key.dst is FrameID.MAP"
    cuts = {
        idx.lookup(f"{TR}:TransformDict.__getitem__").fq: Contract(f"{TR}:TransformDict.__getitem__", params={}, returns=HM, requires=E("the_ego_pose_entry", is_key),
                                                                  ensures=E("entry", "result is self.ego2map")),
        idx.lookup(f"{TR}:TransformDict.__setitem__").fq: Contract(f"{TR}:TransformDict.__setitem__", params={}, requires=E("the_ego_pose_entry", is_key), assigns={"self.ego2map": "value"}),
        idx.lookup(f"{GEO_}:interpolate_homogeneous_matrix").fq: Contract(f"{GEO_}:interpolate_homogeneous_matrix", params={},
                                                                          returns=lambda it, cf: VOpaque("ndarray", it.ctx.fresh("interpolated_matrix", I), data={"kind": "mat4"}),
                                                                          requires=E("the_two_poses_in_time_order_and_the_query_time",
                                                                                     "t1 == uf_int('arg_t1', 0) and t2 == uf_int('arg_t2', 0) and t == uf_int('arg_t', 0)")),
        idx.lookup(f"{TR}:HomogeneousMatrix.from_matrix").fq: Contract(f"{TR}:HomogeneousMatrix.from_matrix", params={}, returns=HM,
                                                                       ensures=E("labelled", "result.src is src and result.dst is dst and is_new(result) and allocated(result)")),
        idx.lookup(f"{DS}:convert_objects_to_global").fq: Contract(f"{DS}:convert_objects_to_global", params={}, returns=TSList(DO),
                                                                   ensures=E("named", "uf_bool('global_poses_of', result, object_list, ego2map) and is_new(result) and allocated(result)")),
        idx.lookup(f"{GEO_}:interpolate_object_list").fq: Contract(f"{GEO_}:interpolate_object_list", params={}, returns=TSList(DO),
                                                                   ensures=E("named", "uf_bool('interpolated_objects', result, object_list1, object_list2, t1, t2, t) and is_new(result) and allocated(result)")),
    }
    untouched = lambda f: (f"{f}.unix_time == old({f}.unix_time) and {f}.objects is old({f}.objects) and {f}.transforms is old({f}.transforms) and "
                           f"{f}.transforms.ego2map is old({f}.transforms.ego2map) and len({f}.objects) == old(len({f}.objects)) and "
                           f"forall(k, 0, len({f}.objects), {f}.objects[k] is old({f}.objects[k]))")
    P.verify(f"{DS}:interpolate_ground_truth_frames", name="interpolate_ground_truth_frames[body]",
             contract=Contract(f"{DS}:interpolate_ground_truth_frames", cut=False, params={"before_frame": FR, "after_frame": FR, "unix_time": TInt()},
                               locals={"before_frame_objects": TSList(DO), "after_frame_objects": TSList(DO), "object_list": TSList(DO)},
                               requires=E("two_frames", "before_frame is not after_frame and before_frame.transforms is not after_frame.transforms and before_frame.objects is not after_frame.objects",
                                          "the_times_handed_to_the_pose_interpolation", "uf_int('arg_t1', 0) == before_frame.unix_time and uf_int('arg_t2', 0) == after_frame.unix_time and uf_int('arg_t', 0) == unix_time"),
                               ensures=E("stamped_with_query_time", "result.unix_time == unix_time",
                                         "a_new_frame_with_a_registry_of_its_own", "is_new(result) and result is not before_frame and result is not after_frame and is_new(result.transforms) and "
                                                                                   "is_new(result.transforms.ego2map) and result.transforms.ego2map.src is FrameID.BASE_LINK and result.transforms.ego2map.dst is FrameID.MAP",
                                         "objects_interpolated_between_the_global_poses_of_the_two_frames_at_their_own_times",
                                         "uf_bool('interpolated_objects', result.objects, local('before_frame_objects', None), local('after_frame_objects', None), before_frame.unix_time, after_frame.unix_time, unix_time) and "
                                         "uf_bool('global_poses_of', local('before_frame_objects', None), old(before_frame.objects), old(before_frame.transforms.ego2map)) and "
                                         "uf_bool('global_poses_of', local('after_frame_objects', None), old(after_frame.objects), old(after_frame.transforms.ego2map))",
                                         "the_earlier_frame_is_only_read", untouched("before_frame"),
                                         "the_later_frame_is_only_read", untouched("after_frame"))),
             extra_contracts=cuts, setup=lambda interp, entry: install(interp))


def build(P):
    idx = P.index
    models(P)
    P.min_obligations = 40
    FR = TSObj("FrameGroundTruth")
    # ------------------------------------------------------------------ get_now_frame
    P.contract(Contract(
        f"{DS}:get_now_frame",
        params={FRAMES: TSList(FR), T_: TInt(), TOL: TInt()},
        returns=TSObj("FrameGroundTruth", nullable=True),
        locals={"ground_truth_now_frame": FR, "min_time": TInt(), "diff_time": TInt()},
        raises={"DatasetLoadingError": f"{T_} > 10**17"},
        loops={1: LoopSpec(index="i", invariants=E(
            "candidate_is_a_loaded_frame", f"exists(j, 0, {n}, ground_truth_now_frame is {FRAMES}[j])",
            "min_time_is_its_distance", f"min_time == abs({T_} - ground_truth_now_frame.unix_time)",
            "no_earlier_frame_is_closer", f"forall(k, 0, i, min_time <= abs({T_} - {t('k')}))",
        ))},
        ensures=E(
            "result_is_a_loaded_frame", f"implies(result is not None, exists(j, 0, {n}, result is {FRAMES}[j]))",
            "result_is_closest", f"implies(result is not None, forall(k, 0, {n}, abs({T_} - result.unix_time) <= abs({T_} - {t('k')})))",
            "result_within_tolerance", f"implies(result is not None, abs({T_} - result.unix_time) <= {TOL})",
            "none_only_if_all_far", f"implies(result is None, forall(k, 0, {n}, abs({T_} - {t('k')}) > {TOL}))",
            "nothing_when_no_frame_is_loaded", f"implies({n} == 0, result is None)",
            "accepts_times_up_to_limit", f"{T_} <= 10**17",
        )))
    # ------------------------------------------------------------------ interpolate_ground_truth_frames (cut here for its callers; its body is verified by frame_body_task below)
    P.contract(Contract(
        f"{DS}:interpolate_ground_truth_frames",
        params={"before_frame": FR, "after_frame": FR, T_: TInt()},
        returns=FR,
        requires=E("ordered", f"before_frame.unix_time <= {T_} and {T_} <= after_frame.unix_time and before_frame.unix_time < after_frame.unix_time"),
        ensures=E("stamped_with_query_time", f"result.unix_time == {T_}",
                  "interpolates_these_two", "result.interp_before is before_frame and result.interp_after is after_frame",
                  "fresh_frame", "not is_old(result) and allocated(result)")),
        verify=False)
    # ------------------------------------------------------------------ get_interpolated_now_frame
    is_before = lambda k: f"({t(k)} <= {T_} and forall(m, 0, {n}, implies({t('m')} <= {T_}, {t('m')} <= {t(k)})))"
    is_after = lambda k: f"({t(k)} > {T_} and forall(m, 0, {n}, implies({t('m')} > {T_}, {t('m')} >= {t(k)})))"
    hasB = f"exists(k, 0, {n}, {t('k')} <= {T_} and {T_} - {t('k')} <= {TOL})"
    hasA = f"exists(k, 0, {n}, {t('k')} > {T_} and {t('k')} - {T_} <= {TOL})"
    P.contract(Contract(
        f"{DS}:get_interpolated_now_frame",
        params={FRAMES: TSList(FR), T_: TInt(), TOL: TInt()},
        returns=TSObj("FrameGroundTruth", nullable=True),
        locals={"before_frame": Opt(FR), "after_frame": Opt(FR), "dt_before": TReal(), "dt_after": TReal(), "diff_time": TInt()},
        requires=E("frames_time_ordered", f"forall(j, 0, {n}, forall(k, 0, {n}, implies(j < k, {t('j')} < {t('k')})))",
                   "tolerance_non_negative", f"{TOL} >= 0"),
        loops={1: LoopSpec(index="i", invariants=E(
            "no_later_frame_seen", "after_frame is None and dt_after == 0",
            "all_seen_are_not_later", f"forall(k, 0, i, {t('k')} <= {T_})",
            "before_is_last_seen", f"(before_frame is None) == (i == 0)",
            "before_is_previous_frame", f"implies(i > 0, before_frame is {FRAMES}[i - 1] and dt_before == {T_} - {t('i - 1')})",
            "dt_before_zero_initially", "implies(i == 0, dt_before == 0)",
        ))},
        ensures=E(
            "nothing_iff_no_frame_within_tolerance", f"(result is None) == forall(k, 0, {n}, abs({T_} - {t('k')}) > {TOL})",
            "only_earlier_neighbour_in_tolerance", f"implies(({hasB}) and not ({hasA}), exists(k, 0, {n}, result is {FRAMES}[k] and {is_before('k')}))",
            "only_later_neighbour_in_tolerance", f"implies(({hasA}) and not ({hasB}), exists(k, 0, {n}, result is {FRAMES}[k] and {is_after('k')}))",
            "both_neighbours_interpolated", f"implies(({hasA}) and ({hasB}), result is not None and not is_old(result) and result.unix_time == {T_} and "
                                           f"exists(k, 0, {n}, result.interp_before is {FRAMES}[k] and {is_before('k')}) and "
                                           f"exists(k, 0, {n}, result.interp_after is {FRAMES}[k] and {is_after('k')}))",
        )))
    # ------------------------------------------------------------------ interpolate_list: exact linear interpolation
    P.contract(Contract(
        f"{GEO}:interpolate_list",
        params={"list_1": TSList(TReal()), "list_2": TSList(TReal()), "t1": TReal(), "t2": TReal(), "t": TReal()},
        returns=TSList(TReal()),
        locals={"state": TSList(TReal())},
        requires=E("distinct_times", "t1 < t2"),
        raises={"AssertionError": "not (t1 <= t and t <= t2) or len(list_1) != len(list_2)"},
        loops={1: LoopSpec(index="i", invariants=E(
            "prefix_built", "len(state) == i",
            "prefix_is_interpolated", "forall(k, 0, i, state[k] == list_1[k] + (list_2[k] - list_1[k]) * (t - t1) / (t2 - t1))",
            "state_is_the_new_list", "not is_old(state)",
        ))},
        ensures=E(
            "same_length", "len(result) == len(list_1)",
            "proportional_point_on_the_segment", "forall(k, 0, len(list_1), result[k] == list_1[k] + (list_2[k] - list_1[k]) * (t - t1) / (t2 - t1))",
            "inputs_untouched", "len(list_1) == old(len(list_1)) and len(list_2) == old(len(list_2))",
        )))
    # the interpolated value (functional postcondition above) lies on the segment between the endpoints: lemma over the reals
    def on_segment(z3):
        a, b, t1, t2, t = z3.Reals("a b t1 t2 t")
        r = a + (b - a) * (t - t1) / (t2 - t1)
        return [t1 < t2, t1 <= t, t <= t2], z3.Or(z3.And(a <= r, r <= b), z3.And(b <= r, r <= a))
    P.lemma("interpolated_value_lies_between_the_endpoints", on_segment)
    def exact_at_ends(z3):
        a, b, t1, t2 = z3.Reals("a b t1 t2")
        f = lambda t: a + (b - a) * (t - t1) / (t2 - t1)
        return [t1 < t2], z3.And(f(t1) == a, f(t2) == b)
    P.lemma("interpolation_reproduces_the_neighbours_at_their_own_time", exact_at_ends)
    # ------------------------------------------------------------------ object interpolation: state, object, object list
    import z3 as _z3
    from pyvc.externals.misc import _shallow_copy
    from pyvc.lemmas import count_fn, add_count_lemmas, pred_fn, int_fn
    add_count_lemmas(P)
    SLERP = _z3.Function("slerp", I, I, R, I)
    COPY = _z3.Function("is_copy_of", I, I, _z3.BoolSort())

    def _slerp(interp, args, kwargs, node):
        # Quaternion.slerp(q0, q1, amount) called through an instance: args = (receiver, q0, q1, amount)
        q0, q1, a = args[-3], args[-2], args[-1]
        from pyvc.ops import to_real_z
        az = to_real_z(interp.unwrap(a, node))
        z = SLERP(q0.z, q1.z, az)
        interp.ctx.assume(_z3.And(SLERP(q0.z, q1.z, _z3.RealVal(0)) == q0.z, SLERP(q0.z, q1.z, _z3.RealVal(1)) == q1.z))
        return VOpaque("quaternion", z)

    def _deepcopy(interp, args, kwargs, node):
        new = _shallow_copy(interp, args, kwargs, node)
        if new.kind == "sobj":
            interp.ctx.assume(COPY(new.z, args[0].z))
        return new

    def spec_slerp(interp, e, fr):
        q0, q1, a = (interp.ev(x, fr) for x in e.args)
        from pyvc.ops import to_real_z
        return VOpaque("quaternion", SLERP(q0.z, q1.z, to_real_z(a)))

    def spec_same_quat(interp, e, fr):
        a, b = interp.ev(e.args[0], fr), interp.ev(e.args[1], fr)
        return VBool(a.z == b.z)

    def spec_copy(interp, e, fr):
        a, b = interp.ev(e.args[0], fr), interp.ev(e.args[1], fr)
        return VBool(COPY(a.z, b.z))

    INTERP = _z3.Function("interpolated_from", I, I, I, R, R, R, _z3.BoolSort())

    def spec_interp(interp, e, fr):
        from pyvc.ops import to_real_z
        vals = [interp.ev(a, fr) for a in e.args]
        return VBool(INTERP(vals[0].z, vals[1].z, vals[2].z, *[to_real_z(v) for v in vals[3:6]]))

    def install_geo(it):
        from pyvc.externals import _wrap
        it.externals["quaternion.slerp"] = _wrap(it, "quaternion.slerp", _slerp, "Quaternion.slerp(q0, q1, a) is a function of its arguments with slerp(.., 0) = q0 and slerp(.., 1) = q1 (the shortest arc is pyquaternion's)")
        it.externals["copy.deepcopy"] = _wrap(it, "copy.deepcopy", _deepcopy, "deepcopy(x) is a new object of the same class whose fields hold equal values")
        it.spec_funcs.update(slerp_of=spec_slerp, same_quat=spec_same_quat, is_copy_of=spec_copy, interpolated_from=spec_interp)
    P.install(install_geo)
    P.install(lambda it: setattr(it.ctx, "append_carry", True))      # appends to lists that carry existential invariants (id_list)
    T3 = TTuple(TReal(), TReal(), TReal())
    st = P.model(ClassModel("ObjectState", {"position": T3, "orientation": TOpaque("quaternion"), "shape": TOpaque("shape"), "velocity": T3,
                                            "pose_covariance": TOpt(TReal()), "twist_covariance": TOpt(TReal())}, repo_class=idx.lookup("common.object:ObjectState")))
    st.alloc_smt = True
    P.model(ClassModel("DynamicObject", {"unix_time": TInt(), "uuid": TStr(), "state": TSObj("ObjectState"), "frame_id": TEnum(idx.lookup("common.schema:FrameID"))},
                       repo_class=idx.lookup("common.object:DynamicObject")))
    ST, DO = TSObj("ObjectState"), TSObj("DynamicObject")
    tp = {"t1": TReal(), "t2": TReal(), "t": TReal()}
    ALPHA = "((t - t1) / (t2 - t1))"
    lin = lambda a, b, k: f"{a}[{k}] + ({b}[{k}] - {a}[{k}]) * (t - t1) / (t2 - t1)"
    inline_list = {idx.lookup(f"{GEO}:interpolate_list").fq: Contract(f"{GEO}:interpolate_list", cut=False)}
    P.verify(f"{GEO}:interpolate_quaternion", name="interpolate_quaternion",
             contract=Contract(f"{GEO}:interpolate_quaternion", cut=False, params=dict(tp, quat_1=TOpaque("quaternion"), quat_2=TOpaque("quaternion")),
                               requires=E("distinct_times", "t1 < t2"), raises={"AssertionError": "not (t1 <= t and t <= t2)"},
                               ensures=E("slerp_at_the_proportional_time", f"same_quat(result, slerp_of(quat_1, quat_2, {ALPHA}))",
                                         "reproduces_the_neighbours_at_their_own_time", "implies(t == t1, same_quat(result, quat_1)) and implies(t == t2, same_quat(result, quat_2))")))
    state_ens = E("position_on_the_segment_at_the_proportional_time", " and ".join(f"result.position[{k}] == {lin('state_1.position', 'state_2.position', k)}" for k in range(3)),
                  "orientation_on_the_arc_at_the_proportional_time", f"same_quat(result.orientation, slerp_of(state_1.orientation, state_2.orientation, {ALPHA}))",
                  "velocity_interpolated_linearly", " and ".join(f"result.velocity[{k}] == {lin('state_1.velocity', 'state_2.velocity', k)}" for k in range(3)),
                  "a_new_state", "is_new(result) and allocated(result)")
    P.verify(f"{GEO}:interpolate_state", name="interpolate_state",
             contract=Contract(f"{GEO}:interpolate_state", cut=False, params=dict(tp, state_1=ST, state_2=ST),
                               requires=E("distinct_times", "t1 < t2"), raises={"AssertionError": "not (t1 <= t and t <= t2)"}, ensures=state_ens),
             extra_contracts=inline_list)
    state_cut = Contract(f"{GEO}:interpolate_state", params={}, returns=ST, requires=E("distinct_times", "t1 < t2"), raises={"AssertionError": "not (t1 <= t and t <= t2)"}, ensures=state_ens)
    obj_ens = E("pose_on_the_segment_and_arc", " and ".join(f"result.state.position[{k}] == {lin('object_1.state.position', 'object_2.state.position', k)}" for k in range(3)) +
                f" and same_quat(result.state.orientation, slerp_of(object_1.state.orientation, object_2.state.orientation, {ALPHA}))",
                "same_identity_and_frame", "result.uuid == object_1.uuid and result.frame_id is object_1.frame_id",
                "stamped_with_the_query_time", "result.unix_time == int(t)",
                "a_new_object_inputs_untouched", "is_new(result) and allocated(result) and object_1.state is old(object_1.state) and object_1.unix_time == old(object_1.unix_time)")
    P.verify(f"{GEO}:interpolate_dynamic_object", name="interpolate_dynamic_object",
             contract=Contract(f"{GEO}:interpolate_dynamic_object", cut=False, params=dict(tp, object_1=DO, object_2=DO),
                               requires=E("distinct_times", "t1 < t2"),
                               raises={"AssertionError": "not (t1 <= t and t <= t2) or object_1.uuid != object_2.uuid"}, ensures=obj_ens),
             extra_contracts={idx.lookup(f"{GEO}:interpolate_state").fq: state_cut})
    # ------------------------------------------------------------------ the object list: matched by uuid -> interpolated; present in one neighbour only -> kept
    # inside the list function the per-object result is known by name only: interpolated_from(result, object_1, object_2, t1, t2, t) — "this object was returned by
    # interpolate_object for these arguments"; what such an object looks like (pose on the segment / arc, same id, query time) is interpolate_object's verified contract
    obj_cut = Contract(f"{GEO}:interpolate_object", params={}, returns=DO, requires=E("distinct_times", "t1 < t2"),
                       raises={"AssertionError": "not (t1 <= t and t <= t2) or object_1.uuid != object_2.uuid"},
                       ensures=E("named_result", "interpolated_from(result, object_1, object_2, t1, t2, t)", "a_new_object", "is_new(result) and allocated(result)"))
    P.verify(f"{GEO}:interpolate_object", name="interpolate_object[3-D objects]",
             contract=Contract(f"{GEO}:interpolate_object", cut=False, params=dict(tp, object_1=DO, object_2=DO), requires=E("distinct_times", "t1 < t2"),
                               raises={"AssertionError": "not (t1 <= t and t <= t2) or object_1.uuid != object_2.uuid"}, ensures=obj_ens),
             extra_contracts={idx.lookup(f"{GEO}:interpolate_dynamic_object").fq: Contract(f"{GEO}:interpolate_dynamic_object", params={}, returns=DO, requires=E("distinct_times", "t1 < t2"),
                                                                                         raises={"AssertionError": "not (t1 <= t and t <= t2) or object_1.uuid != object_2.uuid"}, ensures=obj_ens)})
    L1, L2, OUT, IDS = "object_list1", "object_list2", "output_object_list", "id_list"
    n1, n2 = f"len({L1})", f"len({L2})"
    gm, dm = pred_fn("in_both", 1, trigger=True)
    gn, dn = pred_fn("only_in_second", 1, trigger=True)
    gc, dc = count_fn("new_before")
    jm = int_fn("first_match", 1)
    src = int_fn("source_of", 1)          # inverse of m -> len(list1) + new_before(m) on the objects that are only in the second neighbour
    in_both_x = lambda k: f"exists(j, 0, {n2}, {L2}[j].uuid == {L1}[{k}].uuid)"
    only2_x = lambda m: f"(not exists(q, 0, {n1}, {L1}[q].uuid == {L2}[{m}].uuid))"        # q: pred_fn binds k
    jm_def = (f"forall(k, 0, {n1}, implies(in_both(k), 0 <= first_match(k) and first_match(k) < {n2} and {L2}[first_match(k)].uuid == {L1}[k].uuid and "
              f"forall(m, 0, first_match(k), {L2}[m].uuid != {L1}[k].uuid)))")
    pose = lambda o, a, b: (" and ".join(f"{o}.state.position[{k}] == {lin(a + '.state.position', b + '.state.position', k)}" for k in range(3)) +
                            f" and same_quat({o}.state.orientation, slerp_of({a}.state.orientation, {b}.state.orientation, {ALPHA})) and {o}.uuid == {a}.uuid and {o}.unix_time == int(t)")
    first_part = lambda out, upto: (f"forall(k, 0, {upto}, implies(in_both(k), interpolated_from({out}[k], {L1}[k], {L2}[first_match(k)], t1, t2, t))) and "
                                    f"forall(k, 0, {upto}, implies(not in_both(k), is_copy_of({out}[k], {L1}[k])))")
    fresh_lists = f"not is_old({OUT}) and not is_old({IDS}) and allocated({OUT}) and allocated({IDS}) and {OUT} is not {IDS}"
    exist = lambda upto: f"forall(k, 0, {upto}, allocated({OUT}[k]) and not is_old({OUT}[k]))"
    untouched = f"{n1} == old({n1}) and {n2} == old({n2}) and forall(k, 0, {n1}, {L1}[k] is old({L1}[k]) and {L1}[k].uuid == old({L1}[k].uuid)) and forall(k, 0, {n2}, {L2}[k] is old({L2}[k]) and {L2}[k].uuid == old({L2}[k].uuid))"
    second_part = lambda out, upto: f"forall(m, 0, {upto}, implies(only_in_second(m), is_copy_of({out}[{n1} + new_before(m)], {L2}[m])))"
    # staged invariant proof: stage A (lengths and the id list — what `not in id_list` decides) is inductive on its own; stage B (which object sits where)
    # assumes stage A's invariants at the loop heads and proves the contents
    A1 = E("lists", f"{fresh_lists} and len({OUT}) == i and len({IDS}) == i", "ids_so_far", f"forall(k, 0, i, {IDS}[k] == {L1}[k].uuid)", "inputs_untouched", untouched)
    A3 = E("lists", f"{fresh_lists} and 0 <= i and i < {n1} and object1 is {L1}[i] and len({OUT}) == i and len({IDS}) == i and found == False",
           "ids_so_far", f"forall(k, 0, i, {IDS}[k] == {L1}[k].uuid)",
           "no_match_among_the_second_neighbours_objects_seen", f"forall(m, 0, j, {L2}[m].uuid != {L1}[i].uuid)", "inputs_untouched", untouched)
    A2 = E("lists", f"{fresh_lists} and len({OUT}) == {n1} + new_before(j) and len({IDS}) == len({OUT})",
           "ids_of_the_first_neighbour", f"forall(k, 0, {n1}, {IDS}[k] == {L1}[k].uuid)",
           "further_ids_come_from_the_second_neighbour",
           f"forall(p, {n1}, len({IDS}), 0 <= source_of(p) and source_of(p) < j and {IDS}[p] == {L2}[source_of(p)].uuid, {IDS}[p])",
           "inputs_untouched", untouched)
    B1 = E("first_neighbours_objects_so_far", first_part(OUT, "i"), "outputs_exist", exist("i"))
    B3 = E("first_neighbours_objects_so_far", first_part(OUT, "i"), "outputs_exist", exist("i"))
    B2 = E("first_neighbours_objects", first_part(OUT, n1), "second_neighbours_new_objects_so_far", second_part(OUT, "j"), "outputs_exist", exist(f"len({OUT})"))
    common = dict(params=dict(tp, **{L1: TSList(DO), L2: TSList(DO)}), returns=TSList(DO),
                  locals={OUT: TSList(DO), IDS: TSList(TStr()), "found": TBool()},
                  ghosts={"in_both": gm, "only_in_second": gn, "new_before": gc, "first_match": jm, "source_of": src},
                  defs=dm(in_both_x, n1) + dn(only2_x, n2) + dc(lambda m: f"only_in_second({m})", n2) +
                  [("first_match.def", jm_def), ("source_of.def", f"forall(m, 0, {n2}, implies(only_in_second(m), source_of({n1} + new_before(m)) == m), new_before(m))")],
                  requires=E("distinct_times", "t1 < t2",
                             "ids_unique_within_each_neighbour", f"forall(a, 0, {n1}, forall(b, 0, {n1}, implies(a != b, {L1}[a].uuid != {L1}[b].uuid))) and "
                                                                 f"forall(a, 0, {n2}, forall(b, 0, {n2}, implies(a != b, {L2}[a].uuid != {L2}[b].uuid)))"),
                  raises={"AssertionError": "not (t1 <= t and t <= t2)"})
    # loop ordinals follow a breadth-first walk of the body: the two top-level loops are 1 and 2, the nested search loop is 3
    P.verify(f"{GEO}:interpolate_object_list", name="interpolate_object_list[stage A: lengths and ids]",
             contract=Contract(f"{GEO}:interpolate_object_list", cut=False,
                               loops={1: LoopSpec(index="i", invariants=A1), 2: LoopSpec(index="j", invariants=A2), 3: LoopSpec(index="j", invariants=A3)},
                               ensures=E("every_object_of_either_neighbour_once", f"len(result) == {n1} + new_before({n2})", "a_new_list", "not is_old(result)"), **common),
             extra_contracts={idx.lookup(f"{GEO}:interpolate_object").fq: obj_cut})
    P.verify(f"{GEO}:interpolate_object_list", name="interpolate_object_list[stage B: contents]",
             contract=Contract(f"{GEO}:interpolate_object_list", cut=False,
                               # of stage A only what the contents need: the lengths / list identities, the inner loop's search state, the untouched inputs
                               loops={1: LoopSpec(index="i", invariants=B1, assumed=[c for c in A1 if c[0] in ("lists", "inputs_untouched")]),
                                      2: LoopSpec(index="j", invariants=B2, assumed=A2),
                                      3: LoopSpec(index="j", invariants=B3, assumed=[c for c in A3 if c[0] in ("lists", "inputs_untouched", "no_match_among_the_second_neighbours_objects_seen")])},
                               ensures=E("objects_present_in_both_neighbours_lie_on_the_segment_and_arc_at_the_proportional_time_others_of_the_first_are_kept", first_part("result", n1),
                                         "objects_present_in_the_second_neighbour_only_are_kept", second_part("result", n2)), **common),
             extra_contracts={idx.lookup(f"{GEO}:interpolate_object").fq: obj_cut})
    frame_body_task(P, _deepcopy)
    P.uncover("inside interpolate_ground_truth_frames the callees are cut at named results: interpolate_homogeneous_matrix (ego pose), convert_objects_to_global (it stores the STRING 'map' in "
              "frame_id fields typed as FrameID members - union typing not built), HomogeneousMatrix.from_matrix; what they compute is exercised by the bounded harness only. "
              "2-D objects (interpolate_dynamic_object2d) are not covered")
    P.assume("callers of interpolate_ground_truth_frames use its cut contract (stamped with the query time, a new frame, named as the interpolation of exactly the two frames passed); "
             "the first two clauses are proved from its body (task interpolate_ground_truth_frames[body]: also which lists and times are handed on, and that both neighbour frames are only read), "
             "the third is a name for the result; deepcopy(frame) is a new frame with a registry and an object list of its own (assumed)")
    P.assume("pyquaternion: Quaternion.slerp(q0, q1, a) is a function of its arguments with slerp(., ., 0) = q0 and slerp(., ., 1) = q1; that it follows the SHORTEST arc is "
             "pyquaternion's contract (not modelled); copy.deepcopy returns a new object with equal field values")
    P.assume("object ids are unique within each neighbour frame and not None (the property's quantifier domain); inside interpolate_object_list the per-object result is known by "
             "the named predicate interpolated_from(result, o1, o2, t1, t2, t) — what such a result looks like is interpolate_object's verified contract (modular composition)")
    P.bounded.append(dict(what="the real interpolate_ground_truth_frames on two real frames: stamped with the query time, every id of either neighbour exactly once, objects in both on the "
                               "segment / slerp arc at the proportional time (exact at the neighbours' own times), objects in one neighbour kept unchanged",
                          bound="150 random frame pairs per run (0-5 ids appearing / disappearing, shuffled order, random ego poses)", where="replay/C17.py"))
    P.assume("FrameGroundTruth.unix_time is an int; frames are strictly time-ordered (the property's own quantifier domain)")
