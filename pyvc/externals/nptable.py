"""2-D numpy score tables as an abstract sort (assumed contracts of the numpy calls the matcher uses).

A table has rows, cols and cell maps nan(r,c), val(r,c) and, for the 3-D score table, flag(r,c) (channel 1).
np.delete is an index shift, np.nanarg{min,max}+np.unravel_index return some in-range (r,c) with a non-NaN optimal
entry (tie-breaking unspecified), np.isnan(t).all() is "every cell is NaN".
"""
import z3

from ..values import *
from ..ops import to_real_z, to_int_z

A2B = z3.ArraySort(I, I, B)
A2R = z3.ArraySort(I, I, R)


def mk(rows, cols, nan, val, flag=None, ndim=2, kind="real"):
    return VOpaque("table", data=dict(rows=rows, cols=cols, nan=nan, val=val, flag=flag, ndim=ndim, kind=kind))


def in_range(t, r, c):
    return z3.And(0 <= r, r < t["rows"], 0 <= c, c < t["cols"])


def _full(interp, args, kwargs, node):
    shape, fill = args[0], args[1]
    if shape.kind != "tuple" or len(shape.items) != 3 or fill.kind != "tuple":
        raise EngineError("np.full: only the (rows, cols, 2) score table is modelled")
    rows, cols = to_int_z(shape.items[0]), to_int_z(shape.items[1])
    if not (fill.items[0].kind == "real" and fill.items[0].special == "nan" and fill.items[1].kind == "bool"):
        raise EngineError("np.full fill value")
    return mk(rows, cols, _const2(B, True), _const2(R, 0), _const2(B, fill.items[1].z), ndim=3)


def _const2(sort, v):
    r, c = z3.Ints("r!c2 c!c2")
    val = z3.BoolVal(bool(v)) if sort == B and isinstance(v, bool) else (v if z3.is_expr(v) else (z3.RealVal(v) if sort == R else z3.BoolVal(v)))
    return z3.Lambda([r, c], val)


def sel(a, r, c):
    return z3.simplify(z3.Select(a, r, c))


def _getitem(interp, args, kwargs, node):
    t, i = args
    if t.tag != "table":
        raise EngineError(f"subscript of opaque {t.tag}")
    d = t.data
    if i.kind == "tuple" and len(i.items) == 2 and i.items[0].kind == "opaque" and i.items[0].tag == "ellipsis":
        ch = i.items[1].const
        if d["ndim"] != 3 or ch not in (0, 1):
            raise EngineError("table[..., k]")
        if ch == 0:
            return mk(d["rows"], d["cols"], d["nan"], d["val"], None, 2)
        return mk(d["rows"], d["cols"], _const2(B, False), d["val"], d["flag"], 2, kind="flag")
    raise EngineError(f"table subscript {i}")


def _setitem(interp, args, kwargs, node):
    t, i, v = args
    d = t.data
    if not (i.kind == "tuple" and len(i.items) == 2 and d["ndim"] == 3 and v.kind == "tuple" and len(v.items) == 2):
        raise EngineError("table store: only score_table[i, j] = (value, flag)")
    r, c = to_int_z(i.items[0]), to_int_z(i.items[1])
    if not interp.spec:
        interp.ctx.oblige("safety.table_index_in_range", in_range(d, r, c), node)
    val = interp.unwrap(v.items[0], node, "matching_value")
    d["nan"] = z3.Store(d["nan"], r, c, z3.BoolVal(False))
    d["val"] = z3.Store(d["val"], r, c, to_real_z(val))
    d["flag"] = z3.Store(d["flag"], r, c, interp.truth(v.items[1], node))
    return NONE


def _shape(interp, t, node):
    d = t.data
    items = [VInt(d["rows"]), VInt(d["cols"])] + ([VInt(2)] if d["ndim"] == 3 else [])
    return VTuple(items)


def _where(interp, args, kwargs, node):
    fl, sc, other = args
    if fl.kind == "bool":          # scalar np.where(c, a, b)
        return interp.merge(fl.z, sc, other)
    if not (fl.kind == "opaque" and fl.tag == "table" and fl.data["kind"] == "flag" and other.kind == "real" and other.special == "nan"):
        raise EngineError("np.where: only np.where(flag_table, scores, nan)")
    f, s = fl.data, sc.data
    r, c = z3.Ints("r!w c!w")
    nan = z3.Lambda([r, c], z3.Or(z3.Not(z3.Select(f["flag"], r, c)), z3.Select(s["nan"], r, c)))
    return mk(s["rows"], s["cols"], nan, s["val"], None, 2)


def _isnan(interp, args, kwargs, node):
    t = args[0]
    if t.kind == "opaque" and t.tag == "table":
        return VOpaque("isnan_table", data=dict(t=t.data))
    v = interp.unwrap(t, node)
    if v.kind == "real":
        return VBool(v.special == "nan")
    raise EngineError(f"np.isnan of {t}")


def _isnan_all(interp, args, kwargs, node):
    t = args[0].data["t"]
    r, c = interp.ctx.bound("r_all"), interp.ctx.bound("c_all")
    return VBool(z3.ForAll([r, c], z3.Implies(in_range(t, r, c), sel(t["nan"], r, c))))


def _nanarg(mx):
    def h(interp, args, kwargs, node):
        return VOpaque("flatindex", data=dict(t=args[0].data, mx=mx))
    return h


def _unravel(interp, args, kwargs, node):
    fi = args[0]
    if not (fi.kind == "opaque" and fi.tag == "flatindex"):
        raise EngineError("np.unravel_index of a non-argmin/argmax value")
    t, mx = fi.data["t"], fi.data["mx"]
    ctx = interp.ctx
    rs, cs = ctx.fresh("best_row", I), ctx.fresh("best_col", I)
    r, c = ctx.bound("r_am"), ctx.bound("c_am")
    if not interp.spec:
        ctx.oblige("safety.nanarg_some_entry_not_nan", z3.Exists([r, c], z3.And(in_range(t, r, c), z3.Not(sel(t["nan"], r, c)))), node)
    ctx.assume(in_range(t, rs, cs))
    ctx.assume(z3.Not(sel(t["nan"], rs, cs)))
    best = sel(t["val"], rs, cs)
    other = sel(t["val"], r, c)
    ctx.assume(z3.ForAll([r, c], z3.Implies(z3.And(in_range(t, r, c), z3.Not(sel(t["nan"], r, c))), best >= other if mx else best <= other)))
    return VTuple((VInt(rs), VInt(cs)))


def _delete(interp, args, kwargs, node):
    t, i = args[0], args[1]
    ax = kwargs.get("axis", args[2] if len(args) > 2 else None)
    if t.kind != "opaque" or t.tag != "table" or ax is None or ax.const not in (0, 1):
        raise EngineError("np.delete: only np.delete(table, index, axis=0|1)")
    d = t.data
    iz = to_int_z(i)
    if not interp.spec:
        n = d["rows"] if ax.const == 0 else d["cols"]
        interp.ctx.oblige("safety.delete_index_in_range", z3.And(0 <= iz, iz < n), node)
    r, c = z3.Ints("r!d c!d")
    sh = (lambda a: z3.Lambda([r, c], z3.Select(a, z3.If(r < iz, r, r + 1), c))) if ax.const == 0 else \
         (lambda a: z3.Lambda([r, c], z3.Select(a, r, z3.If(c < iz, c, c + 1))))
    return mk(d["rows"] - (1 if ax.const == 0 else 0), d["cols"] - (1 if ax.const == 1 else 0), sh(d["nan"]), sh(d["val"]),
              sh(d["flag"]) if d["flag"] is not None else None, d["ndim"], d["kind"])


def _fresh_like(interp, args, kwargs, node):
    v = args[0]
    name = kwargs["name"]
    if v.tag == "table":
        d = v.data
        ctx = interp.ctx
        rows, cols = ctx.fresh(name + "_rows", I), ctx.fresh(name + "_cols", I)
        ctx.assume(z3.And(rows >= 0, cols >= 0))
        return mk(rows, cols, ctx.fresh(name + "_nan", A2B), ctx.fresh(name + "_val", A2R),
                  ctx.fresh(name + "_flag", A2B) if d["flag"] is not None else None, d["ndim"], d["kind"])
    if v.tag in ("ellipsis",):
        return v
    raise EngineError(f"cannot havoc opaque {v.tag} variable {name}")


HANDLERS = {
    "numpy.full": (_full, "np.full((r, c, 2), (nan, False)) is the r x c table of (NaN, False)"),
    "opaque.getitem": (_getitem, "table[..., k] selects channel k"),
    "opaque.setitem": (_setitem, "table[i, j] = (v, f) updates one cell"),
    "numpy.where": (_where, "np.where(flag, scores, nan): NaN where the flag is false"),
    "numpy.isnan": (_isnan, "np.isnan cell-wise"),
    "isnan_table.all": (_isnan_all, "np.isnan(t).all(): every cell is NaN"),
    "numpy.nanargmax": (_nanarg(True), "np.nanargmax: flat index of a maximal non-NaN cell (ties unspecified)"),
    "numpy.nanargmin": (_nanarg(False), "np.nanargmin: flat index of a minimal non-NaN cell (ties unspecified)"),
    "numpy.unravel_index": (_unravel, "np.unravel_index(flat, shape): the (row, col) of that cell"),
    "numpy.delete": (_delete, "np.delete(t, i, axis): rows/cols after i shift down by one"),
    "opaque.fresh_like": (_fresh_like, "loop havoc of table-valued variables (engine internal)"),
}
ATTRS = {("table", "shape"): _shape}


def _tab(interp, e, fr, k=0):
    v = interp.ev(e.args[k], fr)
    if not (v.kind == "opaque" and v.tag == "table"):
        raise EngineError(f"table spec function on {v}")
    return v.data


def _cell(which):
    def f(interp, e, fr):
        t = _tab(interp, e, fr)
        r, c = to_int_z(interp.ev(e.args[1], fr)), to_int_z(interp.ev(e.args[2], fr))
        a = t[which]
        if a is None:
            raise EngineError(f"table has no {which} channel")
        z = sel(a, r, c)
        return VReal(z) if which == "val" else VBool(z)
    return f


SPEC_FUNCS = {
    "rows": lambda it, e, fr: VInt(_tab(it, e, fr)["rows"]),
    "cols": lambda it, e, fr: VInt(_tab(it, e, fr)["cols"]),
    "tnan": _cell("nan"), "tval": _cell("val"), "tflag": _cell("flag"),
}
