"""Operators on symbolic values: truthiness, arithmetic, comparison, equality protocol, merging."""
from __future__ import annotations

import ast
from fractions import Fraction

import z3

from .values import *
from .ctx import NeedFork


def vconst(c):
    if c is None:
        return NONE
    if isinstance(c, bool):
        return VBool(c)
    if isinstance(c, int):
        return VInt(c)
    if isinstance(c, float):
        if c != c:
            return VReal(0, special="nan")
        if c in (float("inf"), float("-inf")):
            return VReal(0, special="inf" if c > 0 else "-inf")
        return VReal(z3.RealVal(Fraction(c).limit_denominator(10**15) if False else repr(c)))
    if isinstance(c, str):
        return VStr(c)
    if c is Ellipsis:
        return VOpaque("ellipsis")
    raise EngineError(f"constant {c!r}")


def is_num(v):
    return v.kind in ("int", "real", "bool")


def to_real_z(v):
    if v.kind == "real":
        if v.special:
            raise EngineError(f"arithmetic on {v.special}")
        return v.z
    if v.kind == "int":
        return z3.ToReal(v.z)
    if v.kind == "bool":
        return z3.If(v.z, z3.RealVal(1), z3.RealVal(0))
    raise EngineError(f"not a number: {v}")


def to_int_z(v):
    if v.kind == "int":
        return v.z
    if v.kind == "bool":
        return z3.If(v.z, z3.IntVal(1), z3.IntVal(0))
    raise EngineError(f"not an int: {v}")


class Ops:
    """mixin of Interp"""

    # ------------------------------------------------------------------ truthiness
    def truth(self, v, node=None):
        """z3 Bool of Python truthiness"""
        k = v.kind
        if k == "bool":
            return v.z
        if k == "none":
            return z3.BoolVal(False)
        if k == "int":
            return v.z != 0
        if k == "real":
            if v.special:
                return z3.BoolVal(True)
            return v.z != 0
        if k == "str":
            return z3.Length(v.z) > 0 if v.const is None else z3.BoolVal(len(v.const) > 0)
        if k == "tuple":
            return z3.BoolVal(len(v.items) > 0)
        if k == "ref":
            if v.rkind in ("list", "set"):
                return z3.BoolVal(len(self.ctx.cell(v)) > 0)
            if v.rkind == "dict":
                return z3.BoolVal(len(self.ctx.cell(v)[0]) > 0)
            if v.rkind == "obj":
                if v.cls is not None and v.cls.find_method(self.index, "__len__") or (v.cls is not None and v.cls.find_method(self.index, "__bool__")):
                    raise EngineError(f"truth test of {v.cls.name} with __len__/__bool__ (line {getattr(node, 'lineno', '?')})")
                return z3.BoolVal(True)
        if k == "slist":
            n = self.ctx.slen(v.z)
            return z3.And(v.z != 0, n > 0) if v.nullable else n > 0
        if k == "sobj":
            cm = self.class_models.get(v.cname)
            if cm is not None and cm.repo_class is not None and (cm.repo_class.find_method(self.index, "__len__") or cm.repo_class.find_method(self.index, "__bool__")):
                raise EngineError(f"truth test of {v.cname} with __len__/__bool__")
            return v.z != 0
        if k == "enum":
            if isinstance(v.idx, int):
                return z3.BoolVal(True)
            return v.idx >= 0     # nullable enum: -1 is None
        if k == "opt":
            return z3.And(z3.Not(v.isnone), self.truth(v.inner))
        if k in ("class", "func", "ext", "module", "lambda"):
            return z3.BoolVal(True)
        if k == "opaque":
            if v.tag == "polygon" or v.tag == "quaternion":
                return z3.BoolVal(True)
        if k == "dyn":
            return self.dyn_truth(v)
        raise EngineError(f"truthiness of {v} (line {getattr(node, 'lineno', '?')})")

    def is_none_z(self, v):
        k = v.kind
        if k == "none":
            return z3.BoolVal(True)
        if k in ("slist", "sobj"):
            return v.z == 0 if v.nullable else z3.BoolVal(False)
        if k == "opt":
            return v.isnone
        if k == "enum" and not isinstance(v.idx, int):
            return v.idx == -1
        if k == "dyn":
            return self.dyn_is_none(v)
        return z3.BoolVal(False)

    # ------------------------------------------------------------------ unwrap optionals
    def unwrap(self, v, node, what="value"):
        if v.kind == "opt":
            if not self.spec:
                self.ctx.oblige(f"safety.not_none.{what}", z3.Not(v.isnone), node)
                self.ctx.assume(z3.Not(v.isnone))
            return v.inner
        return v

    # ------------------------------------------------------------------ arithmetic
    def binop(self, op, a, b, node):
        a, b = self.unwrap(a, node), self.unwrap(b, node)
        if a.kind == "dyn" or b.kind == "dyn":
            return self.dyn_binop(op, a, b, node)
        if a.kind == "opaque" or b.kind == "opaque":
            return self.ext_binop(op, a, b, node)
        if isinstance(op, ast.Add):
            if a.kind == "str" and b.kind == "str":
                return VStr(z3.Concat(a.z, b.z))
            if a.kind == "tuple" and b.kind == "tuple":
                return VTuple(a.items + b.items)
            if a.kind == "ref" and a.rkind == "list" and b.kind == "ref" and b.rkind == "list":
                return self.ctx.new_cell("list", list(self.ctx.cell(a)) + list(self.ctx.cell(b)))
            if a.kind == "slist" or b.kind == "slist":
                return self.slist_concat(a, b, node)
        if isinstance(op, ast.Mult):
            if a.kind == "ref" and a.rkind == "list" and b.kind == "int":
                n = b.const
                if n is None:
                    return self.list_repeat_sym(a, b, node)
                return self.ctx.new_cell("list", list(self.ctx.cell(a)) * n)
            if b.kind == "ref" and b.rkind == "list" and a.kind == "int":
                return self.binop(op, b, a, node)
        if not (is_num(a) and is_num(b)):
            raise EngineError(f"binop {type(op).__name__} on {a}, {b} (line {getattr(node, 'lineno', '?')})")
        both_int = a.kind in ("int", "bool") and b.kind in ("int", "bool")
        if (a.kind == "real" and a.special) or (b.kind == "real" and b.special):
            return self.special_arith(op, a, b, node)
        if isinstance(op, (ast.Add, ast.Sub, ast.Mult)):
            f = {ast.Add: lambda x, y: x + y, ast.Sub: lambda x, y: x - y, ast.Mult: lambda x, y: x * y}[type(op)]
            if both_int:
                return VInt(z3.simplify(f(to_int_z(a), to_int_z(b))))
            return VReal(z3.simplify(f(to_real_z(a), to_real_z(b))))
        if isinstance(op, ast.Div):
            bz = to_real_z(b)
            if not self.spec:
                self.ctx.oblige("safety.div_nonzero", bz != 0, node)
                self.ctx.assume(bz != 0)
            return VReal(z3.simplify(to_real_z(a) / bz))
        if isinstance(op, (ast.FloorDiv, ast.Mod)) and both_int:
            az, bz = to_int_z(a), to_int_z(b)
            if not self.spec:
                self.ctx.oblige("safety.div_nonzero", bz != 0, node)
                self.ctx.assume(bz != 0)
            # Python floor semantics for a positive divisor equal SMT div/mod; negative divisor adjusted
            if isinstance(op, ast.FloorDiv):
                q = z3.If(bz > 0, az / bz, (-az) / (-bz))
                return VInt(z3.simplify(q))
            m = z3.If(bz > 0, az % bz, -((-az) % (-bz)))
            return VInt(z3.simplify(m))
        if isinstance(op, ast.FloorDiv) and not both_int:
            bz = to_real_z(b)
            if not self.spec:
                self.ctx.oblige("safety.div_nonzero", bz != 0, node)
                self.ctx.assume(bz != 0)
            return VReal(z3.ToReal(z3.ToInt(to_real_z(a) / bz)))     # floor of the real quotient
        if isinstance(op, ast.Pow):
            if both_int and a.const is not None and b.const is not None and 0 <= b.const <= 64:
                return VInt(a.const ** b.const)
            if b.const is not None and isinstance(b.const, int) and 0 <= b.const <= 4:
                acc = VInt(1) if both_int else VReal(1)
                for _ in range(b.const):
                    acc = self.binop(ast.Mult(), acc, a, node)
                return acc
            if b.kind == "real" and b.const == Fraction(1, 2):
                return self.call_ext("math.sqrt", [a], {}, node)
        raise EngineError(f"binop {type(op).__name__} on {a}, {b} (line {getattr(node, 'lineno', '?')})")

    def special_arith(self, op, a, b, node):
        """IEEE results that do not depend on the finite operand's value: x + inf, inf + inf, inf - inf (nan), x / inf (0), anything with nan"""
        sa, sb = getattr(a, "special", None), getattr(b, "special", None)
        if "nan" in (sa, sb):
            return VReal(0, special="nan")
        neg = lambda s_: {"inf": "-inf", "-inf": "inf", None: None}[s_]
        if isinstance(op, (ast.Add, ast.Sub)):
            if isinstance(op, ast.Sub):
                sb = neg(sb)
            if sa and sb:
                return VReal(0, special=sa if sa == sb else "nan")
            return VReal(0, special=sa or sb)
        if isinstance(op, ast.Div) and sb and not sa:
            return VReal(z3.RealVal(0))
        raise EngineError(f"arithmetic on inf/nan (line {getattr(node, 'lineno', '?')})")

    def unaryop(self, op, v, node):
        if isinstance(op, ast.Not):
            return VBool(z3.simplify(z3.Not(self.truth(v, node))))
        v = self.unwrap(v, node)
        if isinstance(op, ast.USub):
            if v.kind == "int":
                return VInt(z3.simplify(-v.z))
            if v.kind == "real":
                if v.special == "inf":
                    return VReal(0, special="-inf")
                if v.special == "-inf":
                    return VReal(0, special="inf")
                return VReal(z3.simplify(-v.z))
            if v.kind == "opaque":
                return self.ext_binop(ast.Mult(), VInt(-1), v, node)
        if isinstance(op, ast.UAdd) and is_num(v):
            return v
        raise EngineError(f"unary {type(op).__name__} on {v}")

    # ------------------------------------------------------------------ comparison
    def compare(self, op, a, b, node):
        """returns VBool"""
        if isinstance(op, ast.Is):
            return VBool(self.identical(a, b))
        if isinstance(op, ast.IsNot):
            return VBool(z3.Not(self.identical(a, b)))
        if isinstance(op, ast.Eq):
            return VBool(self.py_eq(a, b, node))
        if isinstance(op, ast.NotEq):
            return VBool(z3.Not(self.py_eq(a, b, node)))
        if isinstance(op, ast.In):
            return VBool(self.contains(b, a, node))
        if isinstance(op, ast.NotIn):
            return VBool(z3.Not(self.contains(b, a, node)))
        a, b = self.unwrap(a, node), self.unwrap(b, node)
        if a.kind == "none" or b.kind == "none":
            # ordering with None raises TypeError: a safety obligation on this path
            if not self.spec:
                self.ctx.oblige("safety.ordering_operands_not_none", z3.BoolVal(False), node)
            from .interp import PyRaise
            raise PyRaise(VExc("TypeError"), node)
        if a.kind == "dyn" or b.kind == "dyn":
            return self.dyn_compare(op, a, b, node)
        if a.kind == "opaque" or b.kind == "opaque":
            return self.ext_compare(op, a, b, node)
        if a.kind == "ref" and a.rkind == "set" and b.kind == "ref" and b.rkind == "set":
            return self.set_compare(op, a, b, node)
        if is_num(a) and is_num(b):
            sa, sb = getattr(a, "special", None), getattr(b, "special", None)
            if sa or sb:
                return VBool(self.special_order(op, a, b))
            if a.kind in ("int", "bool") and b.kind in ("int", "bool"):
                x, y = to_int_z(a), to_int_z(b)
            else:
                x, y = to_real_z(a), to_real_z(b)
            r = {ast.Lt: x < y, ast.LtE: x <= y, ast.Gt: x > y, ast.GtE: x >= y}[type(op)]
            return VBool(z3.simplify(r))
        raise EngineError(f"compare {type(op).__name__} on {a}, {b} (line {getattr(node, 'lineno', '?')})")

    def special_order(self, op, a, b):
        """ordering involving +-inf / nan sentinels"""
        sa, sb = getattr(a, "special", None), getattr(b, "special", None)
        if "nan" in (sa, sb):
            return z3.BoolVal(False)
        rank = lambda s: {"-inf": -1, None: 0, "inf": 1}[s]
        ra, rb = rank(sa), rank(sb)
        if ra != rb:
            lt = ra < rb
            return z3.BoolVal({ast.Lt: lt, ast.LtE: lt, ast.Gt: not lt, ast.GtE: not lt}[type(op)])
        return z3.BoolVal(type(op) in (ast.LtE, ast.GtE))

    def identical(self, a, b):
        """z3 Bool of `a is b`"""
        if a.kind == "none" or b.kind == "none":
            o = b if a.kind == "none" else a
            return self.is_none_z(o)
        if a.kind == "opt" or b.kind == "opt":
            raise EngineError("`is` on optional scalars")
        if a.kind != b.kind:
            if {a.kind, b.kind} == {"sobj", "ref"}:
                return z3.BoolVal(False)
            return z3.BoolVal(False)
        k = a.kind
        if k == "enum":
            if a.ecls is not b.ecls:
                return z3.BoolVal(False)
            return z3.simplify(a.z == b.z)
        if k in ("slist", "sobj"):
            return z3.simplify(a.z == b.z)
        if k == "ref":
            return z3.BoolVal(a.addr == b.addr)
        if k == "bool":
            return z3.simplify(a.z == b.z)
        if k == "class":
            return z3.BoolVal(a.cls is b.cls)
        if k == "notimpl":
            return z3.BoolVal(True)
        if k in ("int", "str", "real"):
            # identity of immutable scalars is an implementation detail; the repository never relies on it
            raise EngineError("`is` between numbers/strings")
        if k == "tuple":
            raise EngineError("`is` between tuples")
        if k == "opaque":
            if a.z is not None and b.z is not None:
                return a.z == b.z
        if k == "dyn":
            return z3.simplify(a.z == b.z)
        raise EngineError(f"identity of {a} and {b}")

    # ------------------------------------------------------------------ == protocol
    def user_eq(self, v):
        """FuncInfo of a repository __eq__ applicable to v, or None"""
        cls = None
        if v.kind == "enum":
            cls = v.ecls
        elif v.kind == "ref" and v.rkind == "obj":
            cls = v.cls
        elif v.kind == "sobj":
            cm = self.class_models.get(v.cname)
            cls = cm.repo_class if cm else None
        if cls is None:
            return None
        return cls.find_method(self.index, "__eq__")

    def py_eq(self, a, b, node):
        """z3 Bool of `a == b` following the data-model protocol"""
        fa, fb = self.user_eq(a), self.user_eq(b)
        tried_b_first = False
        if fb is not None and fa is not fb and self.is_strict_subclass_val(b, a):
            r = self.call_function(fb, [b, a], {}, node)
            tried_b_first = True
            if r.kind != "notimpl":
                return self.truth(r)
        if fa is not None:
            r = self.call_function(fa, [a, b], {}, node)
            if r.kind != "notimpl":
                return self.truth(r)
        else:
            r = self.builtin_eq(a, b, node)
            if r is not None:
                return r
        if fb is not None and not tried_b_first:
            r = self.call_function(fb, [b, a], {}, node)
            if r.kind != "notimpl":
                return self.truth(r)
        elif fb is None and fa is not None:
            r = self.builtin_eq(b, a, node)
            if r is not None:
                return r
        return self.identical_or_false(a, b)

    def is_strict_subclass_val(self, b, a):
        ca = a.ecls if a.kind == "enum" else getattr(a, "cls", None)
        cb = b.ecls if b.kind == "enum" else getattr(b, "cls", None)
        if ca is None or cb is None or ca is cb or isinstance(ca, str) or isinstance(cb, str):
            return False
        return cb.is_subclass_of(self.index, ca)

    def identical_or_false(self, a, b):
        try:
            return self.identical(a, b)
        except EngineError:
            return z3.BoolVal(False)

    def builtin_eq(self, a, b, node):
        """__eq__ of builtin types: z3 Bool, or None for NotImplemented"""
        if a.kind == "opt" or b.kind == "opt":
            na, nb = self.is_none_z(a), self.is_none_z(b)
            ia = a.inner if a.kind == "opt" else a
            ib = b.inner if b.kind == "opt" else b
            if ia.kind == "none" or ib.kind == "none":
                return z3.And(na, nb)
            inner = self.builtin_eq(ia, ib, node)
            if inner is None:
                inner = z3.BoolVal(False)
            return z3.Or(z3.And(na, nb), z3.And(z3.Not(na), z3.Not(nb), inner))
        if a.kind == "dyn" or b.kind == "dyn":
            return self.dyn_eq(a, b, node)
        if a.kind == "none" or b.kind == "none":
            if a.kind == "none" and b.kind == "none":
                return z3.BoolVal(True)
            o = b if a.kind == "none" else a
            if o.kind in ("slist", "sobj", "enum"):
                return None      # falls through to the other side / identity
            return None if self.user_eq(o) else z3.BoolVal(False)
        if is_num(a) and is_num(b):
            sa, sb = getattr(a, "special", None), getattr(b, "special", None)
            if sa or sb:
                return z3.BoolVal(sa == sb and sa != "nan")
            if a.kind in ("int", "bool") and b.kind in ("int", "bool"):
                return z3.simplify(to_int_z(a) == to_int_z(b))
            return z3.simplify(to_real_z(a) == to_real_z(b))
        if a.kind == "str" and b.kind == "str":
            for x in (a, b):
                if x.const is not None:
                    self.ctx.note_literal(x.const)
            return z3.simplify(a.z == b.z)
        if a.kind == "tuple" and b.kind == "tuple":
            if len(a.items) != len(b.items):
                return z3.BoolVal(False)
            return z3.And(*[self.py_eq(x, y, node) for x, y in zip(a.items, b.items)]) if a.items else z3.BoolVal(True)
        if a.kind == "ref" and b.kind == "ref" and a.rkind == b.rkind == "list":
            la, lb = self.ctx.cell(a), self.ctx.cell(b)
            if len(la) != len(lb):
                return z3.BoolVal(False)
            return z3.And(*[self.py_eq(x, y, node) for x, y in zip(la, lb)]) if la else z3.BoolVal(True)
        if a.kind == "enum" and b.kind == "enum":
            if a.ecls is b.ecls:
                return z3.simplify(a.z == b.z)   # default Enum equality is identity
            return None
        if a.kind == "enum" or b.kind == "enum":
            return None
        if a.kind == "class" and b.kind == "class":
            return z3.BoolVal(a.cls is b.cls)
        if a.kind in ("sobj", "slist") or b.kind in ("sobj", "slist"):
            if a.kind == "slist" and b.kind == "slist":
                raise EngineError("== between SMT lists")
            return None
        if a.kind == "ref" or b.kind == "ref":
            if a.kind == "ref" and b.kind == "ref" and a.rkind == "obj" and b.rkind == "obj":
                return None
            if a.kind == "ref" and a.rkind == "obj" or b.kind == "ref" and b.rkind == "obj":
                return None
            return z3.BoolVal(False)
        if a.kind == "opaque" and b.kind == "opaque" and a.tag == b.tag and a.tag == "ellipsis":
            return z3.BoolVal(True)
        if a.kind != b.kind:
            return z3.BoolVal(False)
        raise EngineError(f"== on {a}, {b} (line {getattr(node, 'lineno', '?')})")

    # ------------------------------------------------------------------ membership
    def contains(self, container, x, node):
        c = container
        if c.kind == "tuple":
            items = c.items
        elif c.kind == "ref" and c.rkind in ("list", "set"):
            items = self.ctx.cell(c)
        elif c.kind == "ref" and c.rkind == "dict":
            items = self.ctx.cell(c)[0]
        elif c.kind == "slist":
            # x in L  <=>  exists k. L[k] is x or L[k] == x ; the comparison is evaluated parametrically in k (results of
            # contracts applied inside become functions of k, their facts are closed over k)
            k = self.ctx.bound("k_in")
            n = self.ctx.slen(c.z)
            rng = z3.And(0 <= k, k < n)
            self.ctx.push_param(k, rng)
            self.ctx.no_branch += 1
            try:
                st_item = self.ctx.sitem(c, k)
                eq = z3.Or(self.identical_or_false(st_item, x), self.py_eq(st_item, x, node))
            finally:
                self.ctx.no_branch -= 1
                self.ctx.pop_param()
            return z3.Exists([k], z3.And(rng, eq))
        elif c.kind == "str" and x.kind == "str":
            return z3.Contains(c.z, x.z)
        elif c.kind == "class" and not isinstance(c.cls, str) and c.cls.is_enum(self.index):
            if x.kind == "enum" and x.ecls is c.cls:
                return z3.BoolVal(True)
            raise EngineError("`in EnumClass` with non-member")
        elif c.kind == "opt":
            return self.contains(self.unwrap(c, node), x, node)
        elif c.kind == "opaque":
            return self.truth(self.call_ext("opaque.contains", [c, x], {}, node))
        elif c.kind == "ref" and c.rkind == "obj":
            f = c.cls.find_method(self.index, "__contains__")
            if f is None:
                raise EngineError(f"`in` on {c}")
            return self.truth(self.call_function(f, [c, x], {}, node))
        else:
            raise EngineError(f"`in` on {c} (line {getattr(node, 'lineno', '?')})")
        # CPython: item is x or item == x, for each item in order
        parts = []
        for it in items:
            parts.append(z3.Or(self.identical_or_false(it, x), self.py_eq(it, x, node)))
        return z3.simplify(z3.Or(*parts)) if parts else z3.BoolVal(False)

    # ------------------------------------------------------------------ merge
    def merge(self, c, a, b):
        """value of `a if c else b` without branching; raises NeedFork when shapes differ"""
        if z3.is_true(c):
            return a
        if z3.is_false(c):
            return b
        if a is b:
            return a
        ka, kb = a.kind, b.kind
        if ka == "none" and kb == "none":
            return a
        if ka == kb:
            if ka == "bool":
                return VBool(z3.If(c, a.z, b.z))
            if ka == "int":
                return VInt(z3.If(c, a.z, b.z))
            if ka == "real" and not a.special and not b.special:
                return VReal(z3.If(c, a.z, b.z))
            if ka == "str":
                return VStr(z3.If(c, a.z, b.z))
            if ka == "enum" and a.ecls is b.ecls:
                return VEnum(a.ecls, z3.If(c, a.z, b.z))
            if ka == "tuple" and len(a.items) == len(b.items):
                return VTuple([self.merge(c, x, y) for x, y in zip(a.items, b.items)])
            if ka == "sobj" and a.cname == b.cname:
                return VSObj(z3.If(c, a.z, b.z), a.cname, a.nullable or b.nullable)
            if ka == "slist":
                return VSList(z3.If(c, a.z, b.z), a.elem, a.nullable or b.nullable)
            if ka == "opt":
                return VOpt(z3.If(c, a.isnone, b.isnone), self.merge(c, a.inner, b.inner))
            if ka == "ref" and a.addr == b.addr:
                return a
            if ka == "opaque" and a.tag == b.tag and a.z is not None and b.z is not None and not a.data and not b.data:
                return VOpaque(a.tag, z3.simplify(z3.If(c, a.z, b.z)))
        if {ka, kb} == {"int", "real"}:
            return VReal(z3.If(c, to_real_z(a), to_real_z(b)))
        if ka == "none" or kb == "none":
            o = b if ka == "none" else a
            cn = c if ka == "none" else z3.Not(c)      # condition under which the result is None
            if o.kind == "sobj":
                return VSObj(z3.If(cn, z3.IntVal(0), o.z), o.cname, True)
            if o.kind == "slist":
                return VSList(z3.If(cn, z3.IntVal(0), o.z), o.elem, True)
            if o.kind == "enum":
                return VEnum(o.ecls, z3.If(cn, z3.IntVal(-1), o.z))
            if o.kind in ("int", "real", "bool", "str") and not getattr(o, "special", None):
                return VOpt(cn, o)
            if o.kind == "opt":
                return VOpt(z3.Or(cn, o.isnone), o.inner)
        if ka == "opt" or kb == "opt":
            o, p, co = (a, b, c) if ka == "opt" else (b, a, z3.Not(c))
            if p.kind == o.inner.kind or {p.kind, o.inner.kind} == {"int", "real"}:
                return VOpt(z3.And(co, o.isnone), self.merge(co, o.inner, p))
        raise NeedFork(f"cannot merge {a} / {b}")
