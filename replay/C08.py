"""C08 native harness: TP sets and AP of the real code under loosened thresholds."""
import itertools
import random
import sys

from common import main, budget
import C04 as ap


def check_ap(w1, w2, G):
    a1, a2 = ap.core_ap(list(w1), G), ap.core_ap(list(w2), G)
    if a2 < a1 - 1e-12:
        return f"AP fell from {a1} to {a2} although every TP weight did not decrease: {list(w1)} -> {list(w2)}, G={G}"
    return None


def check_scene(case):
    import frames
    outs = []
    for thr in case["thrs"]:
        fr, eo, go, res = frames.frame_result(case["est"], case["gt"], ego=None, task=case.get("task", "detection"), targets=case["targets"], crit=case["crit"],
                                              pass_thr=[thr] * 3, policy="DEFAULT", metrics=dict(center_distance_thresholds=[[thr] * 3], plane_distance_thresholds=[[thr] * 3]))
        pf = fr.pass_fail_result
        tp = [(id(r.estimated_object.uuid), r.estimated_object.uuid) for r in pf.tp_object_results]
        aps = {str(m.matching_mode): [a.ap for a in m.aps] for m in fr.metrics_score.maps if str(m.matching_mode) in ("Center Distance", "Plane Distance")}
        outs.append((thr, set(u for _, u in tp), len(pf.fn_objects), aps))
    for (t1, tp1, fn1, ap1), (t2, tp2, fn2, ap2) in zip(outs, outs[1:]):
        if not tp1 <= tp2:
            return f"TP {sorted(tp1 - tp2)} at threshold {t1} is lost at the looser threshold {t2}"
        if fn2 > fn1:
            return f"FN count rose from {fn1} to {fn2} when the threshold was loosened from {t1} to {t2}"
        for mode in ap1:
            for a, b in zip(ap1[mode], ap2[mode]):
                if a != float("inf") and b != float("inf") and b < a - 1e-12:
                    return f"{mode} AP fell from {a} to {b} when the threshold was loosened from {t1} to {t2}"
    return None


def check_modes(case):
    """the same result objects judged under several matching modes and thresholds, in any order: each verdict is the one fresh objects get, and within a mode
    the TP set only grows as the threshold is loosened (a verdict must not depend on what was asked before)"""
    import frames
    from perception_eval.evaluation.matching.object_matching import MatchingMode
    from perception_eval.evaluation.matching.objects_filter import get_positive_objects, get_negative_objects
    def results():
        fr, eo, go, res = frames.frame_result(case["est"], case["gt"], ego=None, task="detection", targets=case["targets"], crit=case["crit"], pass_thr=[1.0] * 3)
        return fr
    labels = None
    shared = results()
    labels = shared.pass_fail_result.frame_pass_fail_config.target_labels
    verdict = {}
    for mode, thr in case["queries"]:
        mm = MatchingMode(mode)
        tp, fp = get_positive_objects(shared.object_results, labels, mm, [thr] * 3)
        tn, fn = get_negative_objects(shared.frame_ground_truth.objects, shared.object_results, labels, mm, [thr] * 3)
        fresh = results()
        tp0, fp0 = get_positive_objects(fresh.object_results, labels, mm, [thr] * 3)
        tn0, fn0 = get_negative_objects(fresh.frame_ground_truth.objects, fresh.object_results, labels, mm, [thr] * 3)
        got = (sorted(r.estimated_object.uuid for r in tp), len(fp), len(fn))
        want = (sorted(r.estimated_object.uuid for r in tp0), len(fp0), len(fn0))
        if got != want:
            return f"{mode} at {thr}: the results judged before under other modes give (TP, #FP, #FN) = {got}, fresh results give {want}"
        verdict[(mode, thr)] = set(got[0])
    for (m1, t1), s1 in verdict.items():
        for (m2, t2), s2 in verdict.items():
            looser = (t2 < t1) if m1.startswith("IoU") else (t2 > t1)
            if m1 == m2 and looser and not s1 <= s2:
                return f"{m1}: TP {sorted(s1 - s2)} at threshold {t1} is lost at the looser threshold {t2}"
    return None


def check_scene_pooled(case):
    """scene-level evaluation as the manager does it: one nested structure {label: [[], frame results...]} evaluated against several threshold rows
    (loose row first); AP per label must not be lower in the looser row, and the evaluation must not change the structure it is given"""
    import frames
    from perception_eval.evaluation.matching.objects_filter import divide_objects, divide_objects_to_num
    from perception_eval.evaluation.metrics.metrics import MetricsScore
    n = len(case["targets"])
    loose, tight = case["rows"]
    et, cof, pfc, msc = frames.configs("detection", case["targets"], case["crit"], [loose] * n,
                                       metrics=dict(center_distance_thresholds=[[loose] * n, [tight] * n], plane_distance_thresholds=[[loose] * n, [tight] * n]))
    pooled = {lab: [[]] for lab in cof.target_labels}
    num_gt = {lab: 0 for lab in cof.target_labels}
    for f in case["frames"]:
        fr, eo, go, res = frames.frame_result(f["est"], f["gt"], ego=None, task="detection", targets=case["targets"], crit=case["crit"], pass_thr=[loose] * n,
                                              metrics=dict(center_distance_thresholds=[[loose] * n, [tight] * n], plane_distance_thresholds=[[loose] * n, [tight] * n]))
        d = divide_objects(fr.object_results, cof.target_labels)
        g = divide_objects_to_num(fr.frame_ground_truth.objects, cof.target_labels)
        for lab in cof.target_labels:
            pooled[lab].append(d[lab])
            num_gt[lab] += g[lab]
    before = {lab: [list(x) for x in v] for lab, v in pooled.items()}
    ms = MetricsScore(config=msc, used_frame=list(range(len(case["frames"]))))
    ms.evaluate_detection(pooled, num_gt)
    after = {lab: [list(x) for x in v] for lab, v in pooled.items()}
    if any(len(a) != len(b) or any(len(x) != len(y) or any(p is not q for p, q in zip(x, y)) for x, y in zip(a, b)) for a, b in ((after[l], before[l]) for l in before)):
        return "evaluating the scene changed the pooled per-frame results it was given"
    by_mode = {}
    for m in ms.maps:
        by_mode.setdefault(str(m.matching_mode), []).append(m)
    # every pooled result is judged on its own: the number of TPs in a label's ranking is the number of results that pass the row's threshold
    # (several results may be paired with equal ground truths: the same annotated frame evaluated for two estimation frames)
    for m in ms.maps:
        if str(m.matching_mode) not in ("Center Distance", "Plane Distance"):
            continue
        thr = loose if m is by_mode[str(m.matching_mode)][0] else tight
        for lab, a in zip(cof.target_labels, m.aps):
            flat = [r for fr_ in pooled[lab] for r in fr_]
            want = sum(1 for r in flat if r.ground_truth_object is not None and r.is_result_correct(m.matching_mode, thr))
            got = a.tp_list[-1] if len(a.tp_list) else 0
            if abs(got - want) > 1e-9:
                return f"scene {m.matching_mode.value} at {thr}, {lab.value}: {want} pooled results pass the threshold on their own, the AP ranking counts {got} TPs"
    for mode in ("Center Distance", "Plane Distance"):
        rows = by_mode.get(mode, [])
        if len(rows) == 2:
            for a_loose, a_tight in zip(rows[0].aps, rows[1].aps):
                if a_loose.ap != float("inf") and a_tight.ap != float("inf") and a_loose.ap < a_tight.ap - 1e-12:
                    return f"scene {mode} AP is {a_loose.ap} at the looser threshold {loose} and {a_tight.ap} at the tighter threshold {tight}"
                if a_tight.ap != float("inf") and a_tight.ap > 1 + 1e-9:
                    return f"scene {mode} AP {a_tight.ap} exceeds 1"
            for a_loose, a_tight in zip(rows[0].aphs, rows[1].aphs):
                if a_loose.ap != float("inf") and a_tight.ap != float("inf") and a_loose.ap < a_tight.ap - 1e-12:
                    return f"scene {mode} APH is {a_loose.ap} at the looser threshold {loose} and {a_tight.ap} at the tighter threshold {tight}"
            for nm in ("map", "maph"):
                vl, vt = getattr(rows[0], nm), getattr(rows[1], nm)
                same_labels = [x.ap == float("inf") for x in rows[0].aps] == [x.ap == float("inf") for x in rows[1].aps]
                if same_labels and vl != float("inf") and vt != float("inf") and vl < vt - 1e-12:
                    return f"scene {mode} {nm} is {vl} at the looser threshold {loose} and {vt} at the tighter threshold {tight}"
    return None


def search(item, seed):
    vals = [0.0, 0.5, 1.0]
    for n in range(0, 6):
        for w1 in itertools.product(vals, repeat=n):
            ups = [[v for v in vals if v >= x and (x > 0 and v == x or x == 0)] for x in w1]     # a TP keeps its weight; a non-TP may become one
            for w2 in itertools.product(*ups):
                for G in range(max(1, sum(1 for x in w2 if x > 0)), 7):
                    why = check_ap(w1, w2, G)
                    if why:
                        return dict(function="Ap", input=dict(w1=list(w1), w2=list(w2), G=G), observed=why)
    rnd = random.Random(seed * 7 + 2)
    for _ in range(budget(60)):
        case = ap.gen_scene(rnd)
        # thresholds as a configuration file spells them: floats and whole numbers mixed
        # ... up to "no limit" (inf is the loosest distance threshold there is)
        case["thrs"] = rnd.choice([[0.0, 0.3, 0.9, 1.7, 3.0], [0, 0.3, 1, 1.7, 2, 3.0], [0.5, 1, 2, 3], [0.3, 1.7, 10.0, float("inf")]])
        if rnd.random() < 0.35:
            # every 3-D task is judged the same way at frame level; thresholds within [0, 1] so that a mode mix-up cannot hide behind a range assertion
            case["task"] = rnd.choice(["tracking", "fp_validation"])
            case["thrs"] = [0.1, 0.25, 0.4, 0.6, 0.8, 1.0]
        try:
            why = check_scene(case)
        except Exception as ex:
            why = f"raised {type(ex).__name__}: {ex}"
        if why:
            return dict(function="scene", input=case, observed=why)
    for _ in range(budget(40)):
        case = ap.gen_scene(rnd)
        # the same numbers as thresholds of different modes (a verdict belongs to a mode AND a threshold)
        qs = [(m, t) for m in ("Center Distance", "IoU 2D", "Plane Distance", "IoU 3D") for t in (0.3, 0.5, 0.6, 1.0)] + [("Center Distance", 2.0)]
        rnd.shuffle(qs)
        case["queries"] = qs
        try:
            why = check_modes(case)
        except Exception as ex:
            why = f"raised {type(ex).__name__}: {ex}"
        if why:
            return dict(function="modes", input=case, observed=why)
    for _ in range(budget(40)):
        base = ap.gen_scene(rnd)
        case = dict(targets=base["targets"], crit=base["crit"], rows=[rnd.choice([1.7, 3.0, 2, 3]), rnd.choice([0.3, 0.9, 1])],
                    frames=[dict(est=base["est"], gt=base["gt"])] + [(lambda b: dict(est=b["est"], gt=b["gt"]))(ap.gen_scene(rnd)) for _ in range(rnd.randint(1, 2))])
        if rnd.random() < 0.6:
            # the estimator publishes faster than the annotation rate: further estimation frames are evaluated against an annotated frame already used
            # (equal ground truths in one ranking), with estimates nearer or farther, more or less confident, and headed differently
            for f in list(case["frames"]):
                if f["gt"] and rnd.random() < 0.7:
                    case["frames"].append(dict(gt=[dict(g) for g in f["gt"]],
                                               est=[dict(label=g["label"], x=g["x"] + rnd.choice([0.1, 0.6, 1.2, 2.2]), y=g["y"], yaw=rnd.choice([0.0, 0.4, 2.8]),
                                                         score=round(rnd.uniform(0.05, 0.99), 3), uuid="r%d" % k) for k, g in enumerate(f["gt"]) if rnd.random() < 0.8]))
        try:
            why = check_scene_pooled(case)
        except Exception as ex:
            why = f"raised {type(ex).__name__}: {ex}"
        if why:
            return dict(function="pooled", input=case, observed=why)
    return None


def replay(payload):
    i = payload["input"]
    if payload["function"] == "modes":
        i["queries"] = [tuple(q) for q in i["queries"]]
        why = check_modes(i)
    elif payload["function"] == "pooled":
        why = check_scene_pooled(i)
    else:
        why = check_ap(i["w1"], i["w2"], i["G"]) if payload["function"] == "Ap" else check_scene(i)
    return (why is None, why or "ok")


if __name__ == "__main__":
    sys.exit(main("C08", search, replay))
