"""C20 native harness: runs the real parsers on candidate strings and evaluates the property statement."""
import random
import sys

from common import main, model_strings


def parsers():
    from perception_eval.common.evaluation_task import EvaluationTask, set_task
    from perception_eval.common.schema import FrameID, Visibility, SensorModality
    from perception_eval.common.shape import ShapeType, Shape
    from perception_eval.common.transform import TransformKey
    from perception_eval.evaluation.matching.object_matching import MatchingLabelPolicy
    alias = {"v0-40": Visibility.NONE, "v40-60": Visibility.PARTIAL, "v60-80": Visibility.MOST, "v80-100": Visibility.FULL}
    return {
        "EvaluationTask.from_value": (EvaluationTask, EvaluationTask.from_value, lambda s: s, "reject", True),
        "set_task": (EvaluationTask, set_task, lambda s: s, "none", True),
        "FrameID.from_value": (FrameID, FrameID.from_value, lambda s: s.lower(), "reject", True),
        "Visibility.from_value": (Visibility, Visibility.from_value, lambda s: s, lambda s: alias.get(s, Visibility.UNAVAILABLE), True),
        "SensorModality.from_value": (SensorModality, SensorModality.from_value, lambda s: s, "reject", True),
        "ShapeType.from_value": (ShapeType, ShapeType.from_value, lambda s: s, "reject", True),
        "MatchingLabelPolicy.from_str": (MatchingLabelPolicy, MatchingLabelPolicy.from_str, lambda s: s.upper(), "reject", True),
    }


def check(fname, s):
    """None if the statement holds for parse(s), else a description"""
    cls, fn, norm, other, has_str = parsers()[fname]
    expect = [m for m in cls if m.value == s or m.value == norm(s) or (has_str and str(m) == s)]
    try:
        got = fn(s)
        exc = None
    except (ValueError, AssertionError) as ex:
        got, exc = None, type(ex).__name__
    except Exception as ex:
        return f"{fname}({s!r}) raised {type(ex).__name__}: {ex}"
    if expect:
        if exc is not None or got is not expect[0]:
            return f"{fname}({s!r}) must be the member {expect[0]!r}; got {got!r}" + (f" raised {exc}" if exc else "")
        return None
    if other == "reject":
        if exc is None:
            return f"{fname}({s!r}) names no member and must be rejected; returned {got!r}"
    elif other == "none":
        if exc is not None or got is not None:
            return f"{fname}({s!r}) names no member; expected None, got {got!r} {exc or ''}"
    else:
        want = other(s)
        if exc is not None or got is not want:
            return f"{fname}({s!r}) names no member; documented fallback is {want!r}, got {got!r} {exc or ''}"
    return None


def check_ctor(kind, s):
    from perception_eval.common.schema import FrameID
    from perception_eval.common.shape import ShapeType, Shape
    from perception_eval.common.transform import TransformKey
    if kind == "Shape.__init__":
        exp = [m for m in ShapeType if m.value == s]
        def build(t):
            try:
                return Shape(t, (1.0, 2.0, 3.0)), None
            except ValueError as ex:
                return None, str(ex)
        a, err = build(s)
        if not exp:
            return None if a is None else f"Shape({s!r}, size).type is {a.type!r} although {s!r} names no shape type"
        b, err_m = build(exp[0])       # the same construction spelled with the member: both spellings behave identically
        if (a is None) != (b is None):
            return f"Shape({s!r}, size) {'raised ' + err if a is None else 'is accepted'} while Shape({exp[0]!r}, size) {'raised ' + err_m if b is None else 'is accepted'}"
        if a is not None and (a.type is not exp[0] or b.type is not exp[0]):
            return f"Shape({s!r}, size).type is {a.type!r}"
        return None
    exp = [m for m in FrameID if m.value == s or m.value == s.lower()]
    if kind == "HomogeneousMatrix":
        from perception_eval.common.transform import HomogeneousMatrix
        for as_src in (True, False):
            args = (s, FrameID.MAP) if as_src else (FrameID.MAP, s)
            try:
                h = HomogeneousMatrix((1.0, 2.0, 3.0), (1.0, 0.0, 0.0, 0.0), *args)
            except ValueError:
                if exp:
                    return f"HomogeneousMatrix(p, q, {args[0]!r}, {args[1]!r}) raised although {exp[0]!r} is a member"
                continue
            got = h.src if as_src else h.dst
            if not exp or got is not exp[0]:
                return f"HomogeneousMatrix(p, q, {args[0]!r}, {args[1]!r}) is labelled {got!r}"
        return None
    try:
        k = TransformKey(s, "map")
    except ValueError:
        return f"TransformKey({s!r}, 'map') raised although {exp[0]!r} is a member" if exp else None
    if not exp or k.src is not exp[0] or not (k == TransformKey(exp[0], FrameID.MAP)):
        return f"TransformKey({s!r}, 'map').src is {k.src!r}"
    # a key equals the pair it was built from, in whichever spelling (a registry's `pair in registry` and `registry[pair]` then agree)
    for pair in ((s, "map"), (exp[0], FrameID.MAP), (s, FrameID.MAP), [s, "map"]):
        try:
            same = (k == pair)
        except Exception as ex:
            return f"TransformKey({s!r}, 'map') == {pair!r} raised {type(ex).__name__}: {ex}"
        if not same:
            return f"TransformKey({s!r}, 'map') == {pair!r} is False although the key was built from that pair"
    other = [m for m in FrameID if m is not exp[0]][0]
    if k == (other, FrameID.MAP) or k == (other.value.upper(), "map"):
        return f"TransformKey({s!r}, 'map') equals a pair with another source frame"
    return None


def check_registry(s):
    """X -> X given with either spelling of the frame returns its argument; a registered entry is found under either spelling"""
    from perception_eval.common.schema import FrameID
    from perception_eval.common.transform import HomogeneousMatrix, TransformDict
    exp = [m for m in FrameID if m.value == s]
    if not exp:
        return None
    m = exp[0]
    reg = TransformDict(HomogeneousMatrix((1.0, 2.0, 3.0), (1.0, 0.0, 0.0, 0.0), FrameID.BASE_LINK, FrameID.MAP))
    p = (4.0, 5.0, 6.0)
    for key in ((s, m), (m, s), ("".join([s]), "".join([c for c in s])), (s.upper(), m)):
        try:
            got = reg.transform(key, p)
        except Exception as ex:
            return f"TransformDict.transform({key!r}, p) raised {type(ex).__name__}: {ex} although source and destination are the same frame"
        if tuple(got) != p:
            return f"TransformDict.transform({key!r}, p) changed p"
    return None


def check_task_collections(names):
    """the list and dict forms of the EvaluationTask constructor: one member per member name, in the order given; a dict keyed by the members"""
    from perception_eval.common.evaluation_task import EvaluationTask, set_task_lists, set_task_dict
    want = [m for n in names for m in EvaluationTask if m.value == n]
    try:
        got = set_task_lists(list(names))
    except Exception as ex:
        return f"set_task_lists({names!r}) raised {type(ex).__name__}: {ex}"
    if len(got) != len(want) or any(a is not b for a, b in zip(got, want)):
        return f"set_task_lists({names!r}) gives {got!r}, the members named in that order are {want!r}"
    data = {n: dict(i=i) for i, n in enumerate(names)}
    try:
        d = set_task_dict(dict(data))
    except Exception as ex:
        return f"set_task_dict({sorted(data)!r}) raised {type(ex).__name__}: {ex}"
    members = {m for m in want}
    if set(d.keys()) != members or any(d[m] is not data[m.value] for m in members):
        return f"set_task_dict({sorted(data)!r}) gives keys {list(d.keys())!r}"
    return None


def candidates(fname, item, seed):
    rnd = random.Random(seed)
    out = [s for _, s in model_strings(item.get("model"))]
    if fname in parsers():
        cls = parsers()[fname][0]
        for m in cls:
            out += [m.value, str(m), m.value.upper(), m.value.lower(), m.name, m.name.lower()]
    out += ["v0-40", "v40-60", "v60-80", "v80-100", "", "bogus", "None", "not available"]
    out += ["".join(rnd.choice("abcXYZ_ -") for _ in range(rnd.randint(1, 8))) for _ in range(50)]
    seen, res = set(), []
    for s in out:
        if s not in seen:
            seen.add(s)
            res.append(s)
    return res


def search(item, seed):
    fname = item["func"].split(":")[-1]
    if fname in ("Shape.__init__", "TransformKey.__init__", "TransformKey.__eq__", "HomogeneousMatrix.__init__"):
        from perception_eval.common.schema import FrameID
        from perception_eval.common.shape import ShapeType
        cls = ShapeType if fname.startswith("Shape") else FrameID
        cands = [s for _, s in model_strings(item.get("model"))] + [m.value for m in cls] + [m.value.upper() for m in cls]
        for s in cands:
            why = check_ctor("Shape.__init__" if fname.startswith("Shape") else "HomogeneousMatrix" if fname.startswith("Homog") else "TransformKey", s)
            if why:
                return dict(function=fname, input=s, observed=why)
        return None
    if fname.startswith("set_task_lists") or fname.startswith("set_task_dict") or item["name"] == "bounded-native-search":
        from perception_eval.common.evaluation_task import EvaluationTask
        vals = [m.value for m in EvaluationTask]
        rnd_ = random.Random(seed)
        for names in [[v] for v in vals] + [list(reversed(vals)), vals[:3] + ["bogus"] + vals[:1]] + [rnd_.sample(vals, 3) + [rnd_.choice(vals)] for _ in range(20)]:
            why = check_task_collections(names)
            if why:
                return dict(function="set_task_lists/set_task_dict", input=names, observed=why)
        if not item["name"] == "bounded-native-search":
            return None
    if fname.startswith("TransformDict.transform") or item["name"] == "bounded-native-search":
        from perception_eval.common.schema import FrameID
        for m in FrameID:
            why = check_registry(m.value)
            if why:
                return dict(function="TransformDict.transform", input=m.value, observed=why)
        if fname.startswith("TransformDict.transform"):
            return None
    if item["name"] == "bounded-native-search":
        # the whole statement on the real code: every parser on its members' values, printed forms, case variants and non-member strings;
        # every enum-or-string constructor on both spellings
        for f in parsers():
            for s in candidates(f, item, seed):
                why = check(f, s)
                if why:
                    return dict(function=f, input=s, observed=why)
        from perception_eval.common.schema import FrameID
        from perception_eval.common.shape import ShapeType
        for f, cls in (("Shape.__init__", ShapeType), ("TransformKey.__init__", FrameID), ("HomogeneousMatrix.__init__", FrameID)):
            for s in [m.value for m in cls] + [m.value.upper() for m in cls] + ["bogus", ""]:
                why = check_ctor("Shape.__init__" if f.startswith("Shape") else "HomogeneousMatrix" if f.startswith("Homog") else "TransformKey", s)
                if why:
                    return dict(function=f, input=s, observed=why)
        return None
    if fname not in parsers():
        return None
    for s in candidates(fname, item, seed):
        why = check(fname, s)
        if why:
            return dict(function=fname, input=s, observed=why)
    return None


def replay(payload):
    f, s = payload["function"], payload["input"]
    if f == "set_task_lists/set_task_dict":
        why = check_task_collections(s)
        return (why is None, why or "ok")
    if f == "TransformDict.transform":
        why = check_registry(s)
        return (why is None, why or "ok")
    why = check(f, s) if f in parsers() else check_ctor("Shape.__init__" if f.startswith("Shape") else "HomogeneousMatrix" if f.startswith("Homog") else "TransformKey", s)
    return (why is None, why or "ok")


if __name__ == "__main__":
    sys.exit(main("C20", search, replay))
