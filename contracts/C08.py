"""C08 — loosening a matching threshold never loses a TP and never lowers AP.

Functional contracts + lemmas over them (never two executions related directly):
 * is_better_than of every matching class is `value < t` (distances) / `value > t` (IoUs): strict and monotone in the loosening direction;
 * is_result_correct == C03's definition; for ordinary (non FP-labelled) ground truth it is monotone in the threshold (lemma over that text);
 * TP counts: a prefix count is monotone under pointwise implication of its predicate (induction, proved on every run);
 * AP: with cumulative TP weights T' >= T pointwise, the interpolated area does not decrease — Abel summation and term-wise comparison
   as induction lemmas over the rank-indexed definition AP = sum_k (r_k - r_{k-1}) * M_k, M_k = max_{j>=k} p_j.
   The link from Ap's code (C04: envelope lists + area sum) to that rank-indexed sum is checked on the real Ap by exhaustive enumeration
   (bounded stand-in: every pair of rankings up to length 6, G <= 6).
"""
from pyvc.api import *
import contracts.C03 as C03

OM = "evaluation.matching.object_matching"
OR = "evaluation.result.object_result"


def build(P):
    idx = P.index
    C03.models(P)
    P.min_obligations = 20
    P.install(lambda it: it.spec_funcs.update(opt_value=C03.opt_value))
    # ---------------------------------------------------------------- is_better_than: strict comparison in the right direction
    for mode, (fld, cls) in C03.MODES.items():
        ci = idx.lookup(f"{OM}:{cls}")
        mk = lambda it, ci=ci: (lambda o: (it.ctx.cell(o).update(value=TOpt(TReal()).fresh(it.ctx, "value")), o)[1])(it.ctx.new_cell("obj", {}, ci))
        iou = mode.startswith("IOU")
        P.verify(f"{OM}:{cls}.is_better_than", name=f"{cls}.is_better_than",
                 contract=Contract(f"{OM}:{cls}.is_better_than", cut=False, params={"self": mk, "threshold_value": TReal()},
                                   requires=E("iou_threshold_in_unit_interval", "0 <= threshold_value and threshold_value <= 1") if iou else [],
                                   ensures=E("strictly_better_than_the_threshold",
                                             "result == (self.value is not None and self.value " + (">" if iou else "<") + " threshold_value)")))
    # ---------------------------------------------------------------- is_result_correct is the statement's definition (same tasks as C03)
    C03.correctness_tasks(P)
    # frame level: PassFailResult.evaluate judges 3-D pairs (FP validation included) by plane distance and 2-D pairs by IoU, at the configured thresholds
    # (C03's task, re-verified here: a wrong mode turns "looser" upside down)
    n0_ = len(P.tasks)
    mo_ = P.min_obligations
    C03.build(P)
    P.tasks[n0_:] = [t for t in P.tasks[n0_:] if t.name.startswith(("PassFailResult.evaluate", "get_positive_objects", "get_negative_objects", "get_status["))]
    P.min_obligations = mo_
    # ---------------------------------------------------------------- which results AP counts as TP: exactly the correct ones at the label's threshold, whatever number type it has
    import contracts.C04 as C04
    C04.tp_fp_tasks(P, models=False)
    C04.init_tasks(P)       # ... over every result of every frame, ranked once, the caller's lists untouched (scene level)
    # ---------------------------------------------------------------- a TP stays a TP under a looser threshold (ordinary ground truth)
    RES = TSObj("DynamicObjectWithPerceptionResult")
    for mode in C03.MODES:
        iou = mode.startswith("IOU")
        looser = "t2 <= t1" if iou else "t1 <= t2"
        P.spec_lemma(f"correct_result_stays_correct_under_a_looser_threshold[{mode}]", OR,
                     params={"r": RES, "t1": TReal(), "t2": TReal()},
                     hyps=[looser, "r.ground_truth_object is not None", "not (r.ground_truth_object.semantic_label.label is AutowareLabel.FP)",
                           C03.correct_def("r", mode, "t1")],
                     goal=C03.correct_def("r", mode, "t2"))

    # ---------------------------------------------------------------- counts are monotone under pointwise implication
    def count_mono(step):
        def f(z3):
            I, B = z3.IntSort(), z3.BoolSort()
            c1, c2 = z3.Function("c1", I, I), z3.Function("c2", I, I)
            p1, p2 = z3.Function("p1", I, B), z3.Function("p2", I, B)
            k = z3.Int("k")
            defs = [c1(0) == 0, c2(0) == 0, k >= 0,
                    c1(k + 1) == c1(k) + z3.If(p1(k), 1, 0), c2(k + 1) == c2(k) + z3.If(p2(k), 1, 0), z3.Implies(p1(k), p2(k))]
            if not step:
                return defs, c1(0) <= c2(0)
            return defs + [c1(k) <= c2(k)], c1(k + 1) <= c2(k + 1)
        return f
    P.lemma("tp_count_monotone_under_implication.base", count_mono(False))
    P.lemma("tp_count_monotone_under_implication.step", count_mono(True))

    # ---------------------------------------------------------------- AP is monotone in the cumulative TP weights (rank-indexed definition)
    def abel(z3):
        # A(k) = sum_{j<k} (r_j - r_{j-1}) M_j ;  B(k) = sum_{j<k} r_j (M_j - M_{j+1}) ;  claim A(k) == B(k) + r_{k-1} M_k   (r_{-1} = 0)
        I, Rr = z3.IntSort(), z3.RealSort()
        A, Bf, r, M = z3.Function("A", I, Rr), z3.Function("B", I, Rr), z3.Function("r", I, Rr), z3.Function("M", I, Rr)
        k = z3.Int("k")
        prev = lambda j: z3.If(j >= 1, r(j - 1), z3.RealVal(0))
        hy = [k >= 0, A(k + 1) == A(k) + (r(k) - prev(k)) * M(k), Bf(k + 1) == Bf(k) + r(k) * (M(k) - M(k + 1)), A(k) == Bf(k) + prev(k) * M(k)]
        return hy, A(k + 1) == Bf(k + 1) + r(k) * M(k + 1)
    P.lemma("abel_summation.step", abel)

    def abel_base(z3):
        I, Rr = z3.IntSort(), z3.RealSort()
        A, Bf, M = z3.Function("A", I, Rr), z3.Function("B", I, Rr), z3.Function("M", I, Rr)
        return [A(0) == 0, Bf(0) == 0], A(0) == Bf(0) + 0 * M(0)
    P.lemma("abel_summation.base", abel_base)

    def termwise(z3):
        # sum_{j<k} r'_j (M_j - M_{j+1}) >= sum_{j<k} r_j (M_j - M_{j+1})  when r' >= r and M non-increasing
        I, Rr = z3.IntSort(), z3.RealSort()
        S1, S2, r1, r2, M = (z3.Function(n, I, Rr) for n in ("S1", "S2", "r1", "r2", "M"))
        k = z3.Int("k")
        hy = [k >= 0, S1(k + 1) == S1(k) + r1(k) * (M(k) - M(k + 1)), S2(k + 1) == S2(k) + r2(k) * (M(k) - M(k + 1)),
              r2(k) >= r1(k), M(k) >= M(k + 1), S2(k) >= S1(k)]
        return hy, S2(k + 1) >= S1(k + 1)
    P.lemma("weighted_sum_monotone_in_recall.step", termwise)

    def envelope(z3):
        # sum_{j<k} dr'_j M'_j >= sum_{j<k} dr'_j M_j  when M' >= M and dr' >= 0
        I, Rr = z3.IntSort(), z3.RealSort()
        S1, S2, d, M1, M2 = (z3.Function(n, I, Rr) for n in ("T1", "T2", "d", "M1", "M2"))
        k = z3.Int("k")
        hy = [k >= 0, S1(k + 1) == S1(k) + d(k) * M1(k), S2(k + 1) == S2(k) + d(k) * M2(k), d(k) >= 0, M2(k) >= M1(k), S2(k) >= S1(k)]
        return hy, S2(k + 1) >= S1(k + 1)
    P.lemma("area_monotone_in_the_envelope.step", envelope)

    def max_env(z3):
        # M_k = max(p_k, M_{k+1}) is non-increasing in k, and M' >= M when p' >= p (downward induction step)
        p1, p2, m1n, m2n = z3.Reals("p1 p2 m1n m2n")
        mx = lambda a, b: z3.If(a >= b, a, b)
        return [p2 >= p1, m2n >= m1n], z3.And(mx(p2, m2n) >= mx(p1, m1n), mx(p1, m1n) >= m1n)
    P.lemma("max_precision_envelope_monotone.step", max_env)
    P.bounded.append(dict(what="AP of the real Ap is non-decreasing when TP weights are raised pointwise (the code's area equals the rank-indexed sum the lemmas are about)",
                          bound="exhaustive: rankings over {0, 0.5, 1} up to length 6, every pointwise-larger ranking, G <= 6", where="replay/C08.py"))
    P.assume("induction over the naturals is the only meta-level step of the count / Abel lemmas; each base / step is an SMT obligation")
    P.uncover("the identification of Ap's interpolated-curve area (C04) with the rank-indexed sum of the lemmas is bounded (exhaustive enumeration), not proved; mAP: the labels with a defined AP do not depend on the threshold (by inspection of Map)")
