"""Native construction of evaluated frames (PerceptionFrameResult) from scene descriptions, without a dataset on disk."""
import types

import build


def configs(task="detection", targets=("car", "pedestrian", "bicycle", "unknown"), crit=None, pass_thr=None, metrics=None, pass_targets=None):
    from perception_eval.common.evaluation_task import EvaluationTask
    from perception_eval.common.label import LabelConverter
    from perception_eval.evaluation.metrics.metrics_score_config import MetricsScoreConfig
    from perception_eval.evaluation.result.perception_frame_config import CriticalObjectFilterConfig, PerceptionPassFailConfig
    et = EvaluationTask(task)
    conv = LabelConverter(et, False, "autoware")
    ev = types.SimpleNamespace(evaluation_task=et, label_converter=conv)
    n = len(targets)
    crit = crit or dict(max_x_position_list=[10.0] * n, max_y_position_list=[10.0] * n)
    cof = CriticalObjectFilterConfig(ev, list(targets), **crit)
    # pass_targets: the pass/fail configuration may list the labels in an order of its own (pass_thr goes with that order)
    pfc = PerceptionPassFailConfig(ev, list(pass_targets or targets), matching_threshold_list=pass_thr if pass_thr is not None else [1.0] * n)
    mparams = dict(target_labels=cof.target_labels, center_distance_thresholds=[[1.0] * n], plane_distance_thresholds=[[1.0] * n],
                   iou_2d_thresholds=[[0.5] * n], iou_3d_thresholds=[[0.5] * n])
    if et in (EvaluationTask.DETECTION, EvaluationTask.TRACKING):
        mparams.update(metrics or {})
        msc = MetricsScoreConfig(et, **mparams)
    else:
        msc = MetricsScoreConfig(et, target_labels=cof.target_labels)
    return et, cof, pfc, msc


def frame_result(est, gt, ego=None, task="detection", targets=("car", "pedestrian", "bicycle", "unknown"), crit=None, pass_thr=None,
                 policy="DEFAULT", matching_mode="Center Distance", metrics=None, frame_name="0", unix_time=0, previous=None, evaluate=True, registry=True, pass_targets=None):
    """est/gt: lists of object descriptions (build.obj3d); ego: None (objects in base_link) or ego pose dict (objects may be in map)"""
    from perception_eval.common.dataset import FrameGroundTruth
    from perception_eval.evaluation.matching.object_matching import MatchingMode, MatchingLabelPolicy
    from perception_eval.evaluation.result.object_result import get_object_results
    from perception_eval.evaluation.result.perception_frame_result import PerceptionFrameResult
    et, cof, pfc, msc = configs(task, targets, crit, pass_thr, metrics, pass_targets)
    eo = [build.obj3d(d) for d in est]
    go = [build.obj3d(d) for d in gt]
    # registry=False: an ego-frame frame built without any transform (FrameGroundTruth then carries an EMPTY registry, not None)
    fgt = FrameGroundTruth(unix_time, frame_name, go, transforms=build.ego_matrix(ego) if (registry or ego is not None) else None)
    tf = fgt.transforms
    res = get_object_results(et, eo, go, target_labels=cof.target_labels, matching_label_policy=MatchingLabelPolicy(policy),
                             matching_mode=MatchingMode(matching_mode), transforms=tf)
    fr = PerceptionFrameResult(res, fgt, msc, cof, pfc, unix_time, cof.target_labels)
    if evaluate:
        fr.evaluate_frame(previous_result=previous)
    return fr, eo, go, res
