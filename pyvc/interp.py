"""Symbolic interpreter over the repository's AST (the verified text is the code that runs).

Direct-style interpreter; path exploration is depth-first by re-execution (ctx.decide).  Loops over
data of unknown size are cut at invariants, calls to functions under contract are cut at contracts,
run-time errors are safety obligations.
"""
from __future__ import annotations

import ast
import time
import os

import z3

from .values import *
from .ctx import Ctx, PathEnd, NeedFork, Obligation, has_quant
from .ops import Ops, vconst, is_num, to_real_z, to_int_z
from .repoindex import FuncInfo, ClassInfo, ModuleInfo, External
from .builtins import Builtins
from .dyn import DynOps



GEN_DEADLINE = [None, 0]      # [absolute deadline of the task being generated, its budget in seconds]; set by the driver's worker

class PyRaise(Exception):
    def __init__(self, exc, node=None):
        self.exc, self.node = exc, node


class _Return(Exception):
    def __init__(self, val, line=0):
        self.val, self.line = val, line


class _Break(Exception):
    pass


class _Continue(Exception):
    pass


class Frame:
    def __init__(self, module, fi=None, parent=None):
        self.vars, self.module, self.fi, self.parent = {}, module, fi, parent

    def lookup(self, name):
        f = self
        while f is not None:
            if name in f.vars:
                return f.vars[name]
            f = f.parent
        return None


class LoopSpec:
    def __init__(self, index="i", invariants=(), modifies=(), entry_ghosts=None, assumed=(), unchanged=()):
        self.index, self.invariants, self.modifies = index, list(invariants), list(modifies)
        # lists allocated earlier on this path that the loop does not write (e.g. the snapshot it iterates over): not havocked at the cut;
        # a write to one of them inside the body is a frame obligation that fails
        self.unchanged = list(unchanged)
        self.entry_ghosts = entry_ghosts or {}     # ghost name -> spec expr, evaluated once when the loop is reached
        # invariants established by ANOTHER task on the same loop (staged invariant proof: that task proves them without using this task's invariants);
        # assumed at the loop head here, never checked here
        self.assumed = list(assumed)


class Contract:
    """sidecar contract of one repository function"""

    def __init__(self, target, params=None, returns=None, requires=(), ensures=(), raises=None,
                 loops=None, locals=None, modifies=(), cut=True, ghosts=None, self_type=None, note="", defs=(), assigns=None, hints=None):
        self.target = target                  # 'module:qualname'
        self.params = params or {}            # name -> T (symbolic inputs when verified)
        self.returns = returns                # T of the result at cut call sites
        self.requires = list(requires)        # [(name, expr)]
        self.ensures = list(ensures)          # [(name, expr)]
        self.raises = raises or {}            # exception class name -> expr (allowed only when ...)
        self.loops = loops or {}              # ordinal -> LoopSpec
        self.locals = locals or {}            # local name -> T
        self.modifies = list(modifies)        # spec expressions denoting SMT lists / ('field', cname, fname)
        self.cut = cut
        self.ghosts = ghosts or {}
        # proof hints (intermediate assertions): statement text -> [(name, expr)]; right before a simple statement whose source text contains the key,
        # each expr is an obligation `hint.<name>` and is then assumed. A key that matches no statement adds nothing (the proof only gets harder)
        self.hints = hints or {}
        self.assigns = assigns or {}          # 'obj.field' -> spec expr: precise field updates performed by the callee (constructors)
        self.defs = list(defs)                # [(name, expr)] definitional axioms of ghost spec functions / proved lemmas
        self.note = note


class ClassModel:
    """SMT-heap layout of a repository class: field name -> T"""

    def __init__(self, name, fields, repo_class=None, immutable=()):
        self.name, self.fields, self.repo_class = name, fields, repo_class
        self.immutable = set(immutable)


BUILTIN_CLASSES = {"str", "int", "float", "bool", "list", "tuple", "dict", "set", "object", "type",
                   "ValueError", "TypeError", "KeyError", "RuntimeError", "NotImplementedError", "AssertionError",
                   "IndexError", "Exception", "AttributeError", "FileNotFoundError", "range", "enumerate", "zip",
                   "reversed", "frozenset", "super", "property"}
BUILTIN_FUNCS = {"len", "abs", "min", "max", "sum", "any", "all", "isinstance", "round", "hash", "print", "sorted",
                 "hasattr", "getattr", "issubclass", "id", "repr", "iter", "next", "callable", "map", "filter"}
SPEC_FUNCS = {"local", "is_new", "implies", "forall", "exists", "old", "iff", "ite", "fresh_ref", "allocated", "is_old", "count_if",
              "unfold", "lower", "typeof", "same_type", "result_is_new", "distinct", "well_typed"}


class Interp(Ops, Builtins, DynOps):
    def __init__(self, index, ctx=None):
        self.index = index
        self.ctx = ctx or Ctx(index)
        self.spec = False
        self.contracts = {}        # fq -> Contract
        self.class_models = {}     # name -> ClassModel
        self.externals = {}        # dotted -> handler(interp, args, kwargs, node) -> Val
        self.ext_attrs = {}        # (tag, attr) -> handler(interp, recv, node) -> Val
        self.spec_funcs = {}       # extra spec functions name -> handler(interp, args, node)
        self.ghost_env = {}
        self.call_alloc = None
        self.body_frame = None
        self.verifying = None      # fq of the function whose body is being verified
        self.old_state = None
        self.loop_ordinals = {}
        self.unroll_limit = 400
        self.inline_depth = 0
        self.max_inline_depth = 40
        self.called = set()        # fq of every repository function entered (evidence)
        self.dropped_calls = ("logging.", "logger.", "warnings.warn", "print")
        self._parse_cache = {}
        self.mod_frames = {}

    # ================================================================== names
    def module_frame(self, module):
        if id(module) not in self.mod_frames:
            self.mod_frames[id(module)] = Frame(module)
        return self.mod_frames[id(module)]

    def wrap_global(self, r, module, name, node):
        if r is None:
            return None
        if isinstance(r, FuncInfo):
            return VFunc(r)
        if isinstance(r, ClassInfo):
            return VClass(r)
        if isinstance(r, ModuleInfo):
            return VModule(r)
        if isinstance(r, External):
            if r.dotted in self.ext_attrs_plain:
                return self.ext_attrs_plain[r.dotted](self, node)
            return VExt(r.dotted)
        if isinstance(r, tuple) and r[0] == "assign":
            _, mod, expr = r
            fr = self.module_frame(mod)
            key = ("#g", name)
            if key not in fr.vars:
                was = self.spec
                a0 = self.ctx.next_addr
                try:
                    fr.vars[key] = self.ev(expr, fr)
                finally:
                    self.spec = was
                # objects built by a module-level assignment exist before any call: a store into them is a store into a pre-existing object
                self.ctx.preexisting.update(range(a0, self.ctx.next_addr))
            return fr.vars[key]
        raise EngineError(f"global {name}: {r}")

    def lookup_name(self, name, frame, node):
        v = frame.lookup(name)
        if v is not None:
            if v.kind == "maybe":
                if not self.spec:
                    self.ctx.oblige(f"safety.local_bound.{name}", v.defined, node)
                    self.ctx.assume(v.defined)
                return v.inner
            return v
        r = self.index.resolve_global(frame.module, name)
        v = self.wrap_global(r, frame.module, name, node)
        if v is not None:
            return v
        if name in BUILTIN_CLASSES:
            return VClass(name)
        if name in BUILTIN_FUNCS:
            return VExt(name)
        if name == "NotImplemented":
            return NOTIMPL
        if name == "Ellipsis":
            return VOpaque("ellipsis")
        if self.spec and (name in SPEC_FUNCS or name in self.spec_funcs):
            return VExt("spec." + name)
        if self.spec and name in self.ghost_env:
            return self.ghost_env[name]
        if self.spec:
            # contracts may name any repository class (enum members, isinstance tests)
            hits = [m.classes[name] for m in self.index.modules.values() if name in m.classes]
            if len(hits) == 1:
                return VClass(hits[0])
        raise EngineError(f"unbound name {name} in {frame.module.name} line {getattr(node, 'lineno', '?')}")

    # ================================================================== expressions
    def ev(self, e, fr):
        m = getattr(self, "ev_" + type(e).__name__, None)
        if m is None:
            raise EngineError(f"unsupported expression {type(e).__name__} line {getattr(e, 'lineno', '?')}")
        return m(e, fr)

    def ev_Constant(self, e, fr):
        return vconst(e.value)

    def ev_Name(self, e, fr):
        return self.lookup_name(e.id, fr, e)

    def ev_JoinedStr(self, e, fr):
        # text of messages is dropped (extraction rule): an unconstrained string
        return VStr(self.ctx.fresh("fstring", S))

    def ev_Tuple(self, e, fr):
        return VTuple(self.ev_elts(e.elts, fr))

    def ev_elts(self, elts, fr):
        out = []
        for x in elts:
            if isinstance(x, ast.Starred):
                out.extend(self.iter_concrete(self.ev(x.value, fr), x))
            else:
                out.append(self.ev(x, fr))
        return out

    def ev_List(self, e, fr):
        return self.ctx.new_cell("list", self.ev_elts(e.elts, fr))

    def ev_Set(self, e, fr):
        return self.make_set(self.ev_elts(e.elts, fr), e)

    def ev_Dict(self, e, fr):
        keys, vals = [], []
        for k, v in zip(e.keys, e.values):
            if k is None:
                d = self.ev(v, fr)
                dk, dv = self.ctx.cell(d)
                for kk, vv in zip(dk, dv):
                    self.dict_set_raw(keys, vals, kk, vv, e)
            else:
                self.dict_set_raw(keys, vals, self.ev(k, fr), self.ev(v, fr), e)
        return self.ctx.new_cell("dict", (keys, vals))

    def ev_UnaryOp(self, e, fr):
        return self.unaryop(e.op, self.ev(e.operand, fr), e)

    def ev_BinOp(self, e, fr):
        a = self.ev(e.left, fr)
        b = self.ev(e.right, fr)
        return self.binop(e.op, a, b, e)

    def ev_Compare(self, e, fr):
        left = self.ev(e.left, fr)
        if len(e.ops) == 1:
            return self.compare(e.ops[0], left, self.ev(e.comparators[0], fr), e)
        acc = []
        for op, r in zip(e.ops, e.comparators):
            right = self.ev(r, fr)    # NOTE: chained comparisons evaluate all operands (they are simple in this code base)
            acc.append(self.compare(op, left, right, e).z)
            left = right
        return VBool(z3.simplify(z3.And(*acc)))

    def guarded(self, guard, thunk):
        """evaluate thunk() with `guard` added to the hypotheses of everything it emits"""
        self.ctx.guards.append(guard)
        try:
            return thunk()
        finally:
            self.ctx.guards.pop()

    def try_merge(self, thunk):
        """run thunk in no-branch mode; on NeedFork roll back what it emitted and return None"""
        c = self.ctx
        mark = (len(c.pc), len(c.obligations), dict(c.sheap), c.alloc, list(c.fresh_refs), len(c.written),
                len(c.subst), set(c.literals), dict(c.cheap), c.next_addr)
        c.no_branch += 1
        try:
            return thunk()
        except NeedFork as nf:
            if os.environ.get("PYVC_TRACE"):
                print("  needfork:", nf)
            # roll back everything the attempt did (facts, obligations, allocations, heap stores)
            del c.pc[mark[0]:]
            del c.obligations[mark[1]:]
            c.sheap, c.alloc, c.fresh_refs = mark[2], mark[3], mark[4]
            del c.written[mark[5]:]
            del c.subst[mark[6]:]
            c.literals = mark[7]
            c.cheap = mark[8]
            c.next_addr = mark[9]
            return None
        finally:
            c.no_branch -= 1
            if c.no_branch == 0:
                c.merge_fresh = set()

    def ev_BoolOp(self, e, fr):
        is_and = isinstance(e.op, ast.And)
        # value semantics: result is the first operand that decides, else the last
        def merged():
            vals, conds = [], []
            guard_acc = []
            for k, x in enumerate(e.values):
                g = z3.And(*guard_acc) if guard_acc else z3.BoolVal(True)
                v = self.guarded(g, lambda: self.ev(x, fr)) if guard_acc else self.ev(x, fr)
                t = z3.simplify(self.truth(v, x))
                vals.append(v)
                conds.append(t)
                if (is_and and z3.is_false(t)) or (not is_and and z3.is_true(t)):
                    break
                guard_acc.append(t if is_and else z3.Not(t))
            allbool = all(v.kind == "bool" for v in vals)
            if allbool or self.spec:
                zs = [c for c in conds]
                return VBool(z3.simplify(z3.And(*zs) if is_and else z3.Or(*zs)))
            res = vals[-1]
            for v, t in reversed(list(zip(vals[:-1], conds[:-1]))):
                res = self.merge(t if not is_and else z3.Not(t), v, res)
            return res
        if self.spec or self.ctx.no_branch:
            return merged()
        r = self.try_merge(merged)
        if r is not None:
            return r
        v = None
        for k, x in enumerate(e.values):
            v = self.ev(x, fr)
            if k == len(e.values) - 1:
                return v
            t = self.ctx.branch(self.truth(v, x), f"boolop@{e.lineno}")
            if (is_and and not t) or (not is_and and t):
                return v
        return v

    def ev_IfExp(self, e, fr):
        cv = self.ev(e.test, fr)
        c = z3.simplify(self.truth(cv, e.test))
        if z3.is_true(c):
            return self.ev(e.body, fr)
        if z3.is_false(c):
            return self.ev(e.orelse, fr)
        def merged():
            a = self.guarded(c, lambda: self.ev(e.body, fr))
            b = self.guarded(z3.Not(c), lambda: self.ev(e.orelse, fr))
            return self.merge(c, a, b)
        if self.spec or self.ctx.no_branch:
            return merged()
        r = self.try_merge(merged)
        if r is not None:
            return r
        if self.ctx.branch(c, f"ifexp@{e.lineno}"):
            return self.ev(e.body, fr)
        return self.ev(e.orelse, fr)

    def ev_Slice(self, e, fr):
        c = lambda x: None if x is None else self.ev(x, fr).const
        return VOpaque("slice", data={"lo": c(e.lower), "hi": c(e.upper), "step": c(e.step)})

    def ev_Lambda(self, e, fr):
        return VLambda(e, fr, fr.module)

    def ev_Starred(self, e, fr):
        raise EngineError("starred expression outside call/tuple")

    # ------------------------------------------------------------------ attribute
    def ev_Attribute(self, e, fr):
        o = self.ev(e.value, fr)
        return self.getattr(o, e.attr, e)

    def getattr(self, o, attr, node):
        k = o.kind
        if k == "module":
            if isinstance(o.mod, ModuleInfo):
                v = self.wrap_global(self.index.resolve_global(o.mod, attr), o.mod, attr, node)
                if v is None:
                    raise EngineError(f"{o.mod.name}.{attr} not found")
                return v
            return VExt(o.mod.dotted + "." + attr)
        if k == "ext":
            d = o.dotted + "." + attr
            if d in self.ext_attrs_plain:
                return self.ext_attrs_plain[d](self, node)
            return VExt(d, o.recv)
        if k == "class":
            return self.class_getattr(o.cls, attr, node)
        if k == "enum":
            return self.enum_getattr(o, attr, node)
        if k == "ref" and o.rkind == "obj":
            cell = self.ctx.cell(o)
            if attr in cell:
                return cell[attr]
            return self.instance_class_attr(o, o.cls, attr, node)
        if k == "sobj":
            return self.sobj_getattr(o, attr, node)
        if k == "opt":
            return self.getattr(self.unwrap(o, node, attr), attr, node)
        if k == "none":
            if not self.spec:
                self.ctx.oblige(f"safety.not_none.{attr}", z3.BoolVal(False), node)
            raise PathEnd()
        if k == "opaque" and o.tag == "super":
            return self.super_getattr(o, attr, node)
        if k == "opaque":
            h = self.ext_attrs.get((o.tag, attr))
            if h is not None:
                return h(self, o, node)
            return VExt(f"{o.tag}.{attr}", o)
        if k in ("str", "tuple", "slist", "int", "real", "dyn") or (k == "ref"):
            tname = {"str": "str", "tuple": "tuple", "slist": "list", "int": "int", "real": "float", "dyn": "dyn"}.get(k) or o.rkind
            return VExt(f"{tname}.{attr}", o)
        if k == "exc":
            if attr == "args":
                return VTuple(o.args)
        raise EngineError(f"attribute {attr} of {o} (line {getattr(node, 'lineno', '?')})")

    def super_getattr(self, o, attr, node):
        cls, slf = o.data["cls"], o.data["self"]
        start = slf.ecls if slf.kind == "enum" else (slf.cls if slf.kind == "ref" else self.class_models[slf.cname].repo_class)
        f = start.find_method(self.index, attr, after=cls)
        if f is not None:
            return VFunc(f, self_val=slf)
        return VExt(f"object.{attr}", slf)

    def class_getattr(self, cls, attr, node):
        if isinstance(cls, str):
            return VExt(f"{cls}.{attr}")
        if cls.is_enum(self.index):
            mem = self.ctx.enum_members(cls)
            names = [n for n, _ in mem]
            if attr in names and cls.find_method(self.index, attr) is None:
                return VEnum(cls, names.index(attr))
            if attr == "__members__":
                keys = [VStr(n) for n in names]
                vals = [VEnum(cls, i) for i in range(len(names))]
                return self.ctx.new_cell("dict", (keys, vals))
        if attr == "__name__":
            return VStr(cls.name)
        f = cls.find_method(self.index, attr)
        if f is not None:
            if f.is_classmethod:
                return VFunc(f, self_val=VClass(cls))
            return VFunc(f)
        c, expr = cls.find_class_attr(self.index, attr)
        if expr is not None:
            return self.ev(expr, self.module_frame(c.module))
        raise EngineError(f"class attribute {cls.name}.{attr} (line {getattr(node, 'lineno', '?')})")

    def instance_class_attr(self, o, cls, attr, node):
        if cls is None or isinstance(cls, str):
            raise EngineError(f"attribute {attr} of {o}")
        f = cls.find_method(self.index, attr)
        if f is not None:
            if f.is_property:
                return self.call_function(f, [o], {}, node)
            if f.is_static:
                return VFunc(f)
            if f.is_classmethod:
                return VFunc(f, self_val=VClass(cls))
            return VFunc(f, self_val=o)
        c, expr = cls.find_class_attr(self.index, attr)
        if expr is not None:
            return self.ev(expr, self.module_frame(c.module))
        if attr == "__class__":
            return VClass(cls)
        if not self.spec:
            if o.kind == "sobj" or (o.kind == "ref" and self.ctx.entry_addr is not None and o.addr < self.ctx.entry_addr):
                # the object was built by the contract's own argument builder, not by the class's constructor: an attribute it lacks is a gap of the
                # contract's object model (e.g. a field added to __init__ later), not an AttributeError of the code
                raise EngineError(f"attribute {attr} is not part of the contract's model of {cls.name} (line {getattr(node, 'lineno', '?')})")
            self.ctx.oblige(f"safety.has_attr.{attr}", z3.BoolVal(False), node)
        raise PathEnd()

    def enum_value(self, ecls, i):
        """value of member number i (python int) of ecls"""
        name, expr = self.ctx.enum_members(ecls)[i]
        key = ("#enumval", id(ecls), i)
        fr = self.module_frame(ecls.module)
        if key not in fr.vars:
            # class-body scope: earlier members are visible by bare name
            cf = Frame(ecls.module, parent=fr)
            for j, (n2, _) in enumerate(self.ctx.enum_members(ecls)[:i]):
                cf.vars[n2] = VEnum(ecls, j)
            fr.vars[key] = self.ev(expr, cf)
        return fr.vars[key]

    def enum_getattr(self, o, attr, node):
        mem = self.ctx.enum_members(o.ecls)
        if attr in ("value", "name"):
            c = o.const
            if c is not None:
                if c < 0:
                    self.ctx.oblige(f"safety.not_none.{attr}", z3.BoolVal(False), node)
                    raise PathEnd()
                return self.enum_value(o.ecls, c) if attr == "value" else VStr(mem[c][0])
            if not self.spec:
                self.ctx.oblige(f"safety.not_none.{attr}", o.idx >= 0, node)
            res = None
            for i in reversed(range(len(mem))):
                v = self.enum_value(o.ecls, i) if attr == "value" else VStr(mem[i][0])
                res = v if res is None else self.merge(o.idx == i, v, res)
            return res
        return self.instance_class_attr(o, o.ecls, attr, node)

    def sobj_getattr(self, o, attr, node):
        cm = self.class_models.get(o.cname)
        if cm is None:
            raise EngineError(f"no class model for {o.cname}")
        if attr in cm.fields:
            if not self.spec and o.nullable:
                self.ctx.oblige(f"safety.not_none.{attr}", o.z != 0, node)
                self.ctx.assume(o.z != 0)
            t = cm.fields[attr]
            zs = [z3.Select(self.ctx.field_map(o.cname, attr, p, s), o.z) for p, s in t.comps()]
            return t.unpack(zs)
        if cm.repo_class is not None:
            if not self.spec and o.nullable:
                self.ctx.oblige(f"safety.not_none.{attr}", o.z != 0, node)
                self.ctx.assume(o.z != 0)
            return self.instance_class_attr(o, cm.repo_class, attr, node)
        raise EngineError(f"field {attr} not in class model {o.cname}")

    def setattr(self, o, attr, v, node):
        if o.kind == "ref" and o.rkind == "obj":
            f = o.cls.methods.get(attr + "#setter") if o.cls is not None and not isinstance(o.cls, str) else None
            if f is not None:
                self.call_function(f, [o, v], {}, node)
                return
            self.ctx.mutating()
            self.ctx.cell(o)[attr] = v
            self.ctx.cell_write(o.addr, attr, node)
            return
        if o.kind == "sobj":
            cm = self.class_models[o.cname]
            if attr not in cm.fields:
                raise EngineError(f"store to undeclared field {o.cname}.{attr}")
            self.ctx.mutating()
            if o.nullable and not self.spec:
                self.ctx.oblige(f"safety.not_none.{attr}", o.z != 0, node)
            t = cm.fields[attr]
            zs = t.pack(v, self.ctx)
            for (p, s), zv in zip(t.comps(), zs):
                key = ("f", o.cname, attr, p)
                self.ctx.sheap[key] = z3.Store(self.ctx.field_map(o.cname, attr, p, s), o.z, zv)
            self.ctx.written.append(("field", o.cname, attr, o.z, node))
            return
        raise EngineError(f"attribute store on {o}")

    # ------------------------------------------------------------------ subscript
    def ev_Subscript(self, e, fr):
        o = self.ev(e.value, fr)
        if isinstance(e.slice, ast.Slice):
            lo = self.ev(e.slice.lower, fr) if e.slice.lower is not None else None
            hi = self.ev(e.slice.upper, fr) if e.slice.upper is not None else None
            st = self.ev(e.slice.step, fr) if e.slice.step is not None else None
            return self.slice(o, lo, hi, st, e)
        i = self.ev(e.slice, fr)
        return self.getitem(o, i, e)

    def norm_index(self, i, n, node):
        """python index (possibly negative constant / symbolic) -> z3 Int in range, with safety obligation"""
        i = self.unwrap(i, node)
        iz = to_int_z(i)
        nz = n if not isinstance(n, int) else z3.IntVal(n)
        if z3.is_int_value(iz):
            idx = z3.simplify(z3.If(iz < 0, iz + nz, iz))
        elif self.spec or self.ctx.params or not self.ctx.feasible([iz < 0]):
            # spec indices are mathematical; in code, the negative-index wrap-around is kept only where the path
            # condition allows a negative value (it would otherwise pollute every quantifier trigger)
            idx = iz
        else:
            idx = z3.simplify(z3.If(iz < 0, iz + nz, iz))
        if not self.spec:
            self.ctx.oblige("safety.index_in_range", z3.And(0 <= idx, idx < nz), node)
            self.ctx.assume(z3.And(0 <= idx, idx < nz))
        return idx

    def getitem(self, o, i, node):
        k = o.kind
        if k == "opt":
            return self.getitem(self.unwrap(o, node), i, node)
        if k == "tuple" or (k == "ref" and o.rkind == "list"):
            items = o.items if k == "tuple" else self.ctx.cell(o)
            if i.kind == "opaque":
                return self.ext_getitem(o, i, node)
            idx = self.norm_index(i, len(items), node)
            if z3.is_int_value(idx):
                j = idx.as_long()
                if not (0 <= j < len(items)):
                    raise PathEnd()
                return items[j]
            res = None
            for j in reversed(range(len(items))):
                res = items[j] if res is None else self.merge(idx == j, items[j], res)
            if res is None:
                raise PathEnd()
            return res
        if k == "ref" and o.rkind == "dict":
            return self.dict_get(o, i, node, default=None)
        if k == "slist":
            if o.nullable and not self.spec:
                self.ctx.oblige("safety.not_none.subscript", o.z != 0, node)
            idx = self.norm_index(i, self.ctx.slen(o.z), node)
            return self.ctx.sitem(o, idx)
        if k == "str":
            idx = self.norm_index(i, z3.Length(o.z), node)
            return VStr(z3.SubString(o.z, idx, 1))
        if k == "opaque":
            return self.ext_getitem(o, i, node)
        if k == "class":
            return o     # typing generics such as List[int]
        if k == "ext":
            return o
        if k == "ref" and o.rkind == "obj":
            f = o.cls.find_method(self.index, "__getitem__")
            if f is not None:
                return self.call_function(f, [o, i], {}, node)
        if k == "dyn":
            return self.dyn_getitem(o, i, node)
        if k == "sobj" and o.cname in self.class_models and self.class_models[o.cname].repo_class is not None:
            f = self.class_models[o.cname].repo_class.find_method(self.index, "__getitem__")
            if f is not None:
                return self.call_function(f, [o, i], {}, node)
        raise EngineError(f"subscript of {o} (line {getattr(node, 'lineno', '?')})")

    def slice(self, o, lo, hi, st, node):
        if o.kind == "opaque":
            return self.ext_slice(o, lo, hi, st, node)
        if o.kind == "tuple" or (o.kind == "ref" and o.rkind == "list"):
            items = list(o.items if o.kind == "tuple" else self.ctx.cell(o))
            def c(v):
                if v is None:
                    return None
                if v.kind != "int" or v.const is None:
                    raise EngineError("symbolic slice bound on concrete sequence")
                return v.const
            out = items[c(lo):c(hi):c(st)]
            return VTuple(out) if o.kind == "tuple" else self.ctx.new_cell("list", out)
        if o.kind == "slist":
            return self.slist_slice(o, lo, hi, st, node)
        raise EngineError(f"slice of {o} (line {getattr(node, 'lineno', '?')})")

    def setitem(self, o, i, v, node):
        if o.kind == "ref" and o.rkind == "list":
            self.ctx.mutating()
            items = self.ctx.cell(o)
            idx = self.norm_index(i, len(items), node)
            if not z3.is_int_value(idx):
                for j in range(len(items)):
                    items[j] = self.merge(idx == j, v, items[j])
                return
            items[idx.as_long()] = v
            self.ctx.cell_write(o.addr, "[]", node)
            return
        if o.kind == "ref" and o.rkind == "dict":
            self.ctx.mutating()
            keys, vals = self.ctx.cell(o)
            self.dict_set_raw(keys, vals, i, v, node)
            self.ctx.cell_write(o.addr, "[]", node)
            return
        if o.kind == "slist":
            idx = self.norm_index(i, self.ctx.slen(o.z), node)
            self.ctx.set_list(o, self.ctx.slen(o.z), ("store", idx, v))
            self.ctx.written.append(("list", o.z, node))
            return
        if o.kind == "opaque":
            return self.ext_setitem(o, i, v, node)
        if o.kind == "ref" and o.rkind == "obj" and o.cls is not None and not isinstance(o.cls, str):
            f = o.cls.find_method(self.index, "__setitem__")
            if f is not None:
                self.call_function(f, [o, i, v], {}, node)
                return
        if o.kind == "sobj" and o.cname in self.class_models and self.class_models[o.cname].repo_class is not None:
            f = self.class_models[o.cname].repo_class.find_method(self.index, "__setitem__")
            if f is not None:
                self.call_function(f, [o, i, v], {}, node)
                return
        raise EngineError(f"item store on {o} (line {getattr(node, 'lineno', '?')})")

    # ------------------------------------------------------------------ comprehensions
    def ev_ListComp(self, e, fr):
        r = self.comprehension(e, fr, "list")
        return r

    def ev_GeneratorExp(self, e, fr):
        return self.comprehension(e, fr, "list")

    def ev_SetComp(self, e, fr):
        r = self.comprehension(e, fr, "list")
        return self.make_set(list(self.ctx.cell(r)), e)

    def ev_DictComp(self, e, fr):
        return self.comprehension(e, fr, "dict")

    def comprehension(self, e, fr, what):
        gens = e.generators
        cf = Frame(fr.module, fr.fi, parent=fr)
        first = self.ev(gens[0].iter, fr)
        if first.kind in ("slist", "dyn") or (first.kind == "opaque" and first.tag == "symiter"):
            if what != "list" or len(gens) != 1:
                raise EngineError(f"comprehension over SMT list: unsupported shape (line {e.lineno})")
            return self.slist_comprehension(e, first, cf)
        out_k, out_v = [], []
        def rec(gi, frame):
            g = gens[gi]
            it = first if gi == 0 else self.ev(g.iter, frame)
            for x in self.iter_concrete(it, g.iter):
                self.assign(g.target, x, frame)
                ok = True
                for cond in g.ifs:
                    cv = self.ev(cond, frame)
                    c = z3.simplify(self.truth(cv, cond))
                    if z3.is_false(c):
                        ok = False
                        break
                    if not z3.is_true(c):
                        if self.spec or self.ctx.no_branch:
                            raise EngineError(f"symbolic comprehension filter in spec/merge mode (line {e.lineno})") if self.spec else NeedFork("comp filter")
                        if not self.ctx.branch(c, f"compif@{e.lineno}"):
                            ok = False
                            break
                if not ok:
                    continue
                if gi + 1 < len(gens):
                    rec(gi + 1, frame)
                elif what == "dict":
                    # a contract may declare the values of a dict comprehension as SMT lists ("#dictvalue<line>": type): list displays are lifted
                    c_ = self.contracts.get(fr.fi.fq) if fr.fi is not None else None
                    vt = c_.locals.get(f"#dictvalue{e.lineno}") if c_ is not None else None
                    val = self.lift_list_display(e.value, vt, frame) if vt is not None else self.ev(e.value, frame)
                    self.dict_set_raw(out_k, out_v, self.ev(e.key, frame), val, e)
                else:
                    out_v.append(self.ev(e.elt, frame))
        rec(0, cf)
        if what == "dict":
            return self.ctx.new_cell("dict", (out_k, out_v))
        return self.ctx.new_cell("list", out_v)

    def lift_list_display(self, node, t, fr):
        """[x, ...] (possibly nested) as an SMT list of the declared type"""
        if isinstance(t, TSList) and isinstance(node, ast.List) and not any(isinstance(x, ast.Starred) for x in node.elts):
            lst = self.new_slist(t.elem, "newlist")
            for x in node.elts:
                self.slist_append(lst, self.lift_list_display(x, t.elem, fr), node)
            return lst
        return self.ev(node, fr)

    def quantified_comp(self, comp, fr, is_any):
        """any([...]) / all([...]) over a comprehension whose generators range over data of unknown size: the quantified formula itself
        (exists / forall over the indices), no list is built.  Returns None when every generator is concrete (ordinary evaluation)."""
        gens = comp.generators
        cf = Frame(fr.module, fr.fi, parent=fr)
        any_sym = [False]

        def rec(gi):
            if gi == len(gens):
                return z3.simplify(self.truth(self.ev(comp.elt, cf), comp.elt))
            g = gens[gi]
            it = self.ev(g.iter, cf)
            sym = None
            if it.kind in ("slist", "dyn") or (it.kind == "opaque" and it.tag == "symiter"):
                sym = self.symbolic_iter(it, g.iter)
            if sym is None:
                parts = []
                for x in self.iter_concrete(it, g.iter):
                    self.assign(g.target, x, cf)
                    conds = [z3.simplify(self.truth(self.ev(c, cf), c)) for c in g.ifs]
                    inner = rec(gi + 1)
                    parts.append(z3.And(*conds, inner) if is_any else z3.Implies(z3.And(*conds), inner) if conds else inner)
                if not parts:
                    return z3.BoolVal(not is_any)
                return z3.Or(*parts) if is_any else z3.And(*parts)
            any_sym[0] = True
            n, at, _ = sym
            k = self.ctx.bound("k_q")
            rng = z3.And(0 <= k, k < n)
            self.ctx.push_param(k, rng)
            self.ctx.no_branch += 1
            try:
                self.assign(g.target, at(k), cf)
                conds = [z3.simplify(self.truth(self.ev(c, cf), c)) for c in g.ifs]
                inner = rec(gi + 1)
            finally:
                self.ctx.no_branch -= 1
                self.ctx.pop_param()
            if is_any:
                return z3.Exists([k], z3.And(rng, *conds, inner))
            return z3.ForAll([k], z3.Implies(z3.And(rng, *conds), inner))
        # only when the first generator ranges over data of unknown size (its iterable is a pure expression in this code base)
        first = self.ev(gens[0].iter, cf)
        if not (first.kind in ("slist", "dyn") or (first.kind == "opaque" and first.tag == "symiter")):
            return None
        return VBool(rec(0))

    def iter_concrete(self, it, node):
        """python list of the elements of a concrete-spine iterable"""
        k = it.kind
        if k == "tuple":
            return list(it.items)
        if k == "ref" and it.rkind in ("list", "set"):
            return list(self.ctx.cell(it))
        if k == "ref" and it.rkind == "dict":
            return list(self.ctx.cell(it)[0])
        if k == "class" and not isinstance(it.cls, str) and it.cls.is_enum(self.index):
            return [VEnum(it.cls, i) for i in range(len(self.ctx.enum_members(it.cls)))]
        if k == "opaque" and "items" in it.data:
            return list(it.data["items"])
        if k == "ref" and it.rkind == "obj":
            f = it.cls.find_method(self.index, "__iter__")
            if f is not None:
                return self.iter_concrete(self.call_function(f, [it], {}, node), node)
        if k == "str" and it.const is not None:
            return [VStr(ch) for ch in it.const]
        raise EngineError(f"cannot iterate concretely over {it} (line {getattr(node, 'lineno', '?')})")

    # ================================================================== calls
    def ev_Call(self, e, fr):
        # dropped calls (extraction rule): logging / warnings / print
        src = self._callee_text(e.func)
        if src is not None and src.startswith(self.dropped_calls):
            return NONE
        if isinstance(e.func, ast.Name) and e.func.id == "super" and not e.args:
            return self.make_super(fr, e)
        if (isinstance(e.func, ast.Name) and e.func.id in ("any", "all") and len(e.args) == 1 and not e.keywords
                and isinstance(e.args[0], (ast.ListComp, ast.GeneratorExp)) and fr.lookup(e.func.id) is None):
            q = self.quantified_comp(e.args[0], fr, e.func.id == "any")
            if q is not None:
                return q
        f = self.ev(e.func, fr)
        if f.kind == "ext" and f.dotted.startswith("spec."):
            return self.call_spec(f.dotted[5:], e, fr)
        args, kwargs = self.ev_args(e, fr)
        return self.call_value(f, args, kwargs, e, fr)

    def _callee_text(self, f):
        try:
            if isinstance(f, ast.Attribute):
                base = self._callee_text(f.value)
                return None if base is None else base + "." + f.attr
            if isinstance(f, ast.Name):
                return f.id
        except Exception:
            return None
        return None

    def ev_args(self, e, fr):
        args, kwargs = [], {}
        for a in e.args:
            if isinstance(a, ast.Starred):
                args.extend(self.iter_concrete(self.ev(a.value, fr), a))
            else:
                args.append(self.ev(a, fr))
        for kw in e.keywords:
            if kw.arg is None:
                d = self.ev(kw.value, fr)
                if not (d.kind == "ref" and d.rkind == "dict"):
                    raise EngineError(f"** of {d} (line {e.lineno})")
                ks, vs = self.ctx.cell(d)
                for k, v in zip(ks, vs):
                    if k.kind != "str" or k.const is None:
                        raise EngineError("** with non-constant key")
                    kwargs[k.const] = v
            else:
                kwargs[kw.arg] = self.ev(kw.value, fr)
        return args, kwargs

    def make_super(self, fr, node):
        f = fr
        while f is not None and (f.fi is None or f.fi.cls is None):
            f = f.parent
        if f is None:
            raise EngineError("super() outside a method")
        selfname = f.fi.node.args.args[0].arg
        return VOpaque("super", data={"cls": f.fi.cls, "self": f.lookup(selfname)})

    def call_value(self, f, args, kwargs, node, fr=None):
        k = f.kind
        if k == "func":
            a = ([f.self_val] if f.self_val is not None else []) + list(args)
            return self.call_function(f.fi, a, kwargs, node, closure=f.closure)
        if k == "class":
            if isinstance(f.cls, str):
                return self.call_builtin_class(f.cls, args, kwargs, node)
            return self.instantiate(f.cls, args, kwargs, node)
        if k == "ext":
            if f.dotted.startswith("super."):
                pass
            return self.call_ext(f.dotted, ([f.recv] if f.recv is not None else []) + list(args), kwargs, node)
        if k == "specfn":
            return f.fn(self, list(args))
        if k == "lambda":
            lf = Frame(f.module, f.frame.fi, parent=f.frame)
            self.bind_args(f.node.args, args, kwargs, lf, node, "<lambda>")
            return self.ev(f.node.body, lf)
        if k == "opaque" and f.tag == "super":
            raise EngineError("call of super object")
        raise EngineError(f"call of {f} (line {getattr(node, 'lineno', '?')})")

    def bind_args(self, a, args, kwargs, frame, node, fname):
        """bind actuals to the formals of ast.arguments `a` (Python semantics incl. *args/**kwargs)"""
        params = [p.arg for p in a.posonlyargs + a.args]
        defaults = [None] * (len(params) - len(a.defaults)) + list(a.defaults)
        args = list(args)
        kwargs = dict(kwargs)
        for i, p in enumerate(params):
            if i < len(args):
                if p in kwargs:
                    self.type_error(f"{fname}: multiple values for {p}", node)
                frame.vars[p] = args[i]
            elif p in kwargs:
                frame.vars[p] = kwargs.pop(p)
            elif defaults[i] is not None:
                frame.vars[p] = self.ev(defaults[i], self.module_frame(frame.module))
            else:
                self.type_error(f"{fname}: missing argument {p}", node)
        extra = args[len(params):]
        if a.vararg is not None:
            frame.vars[a.vararg.arg] = VTuple(extra)
        elif extra:
            self.type_error(f"{fname}: too many positional arguments", node)
        for p, d in zip(a.kwonlyargs, a.kw_defaults):
            if p.arg in kwargs:
                frame.vars[p.arg] = kwargs.pop(p.arg)
            elif d is not None:
                frame.vars[p.arg] = self.ev(d, self.module_frame(frame.module))
            else:
                self.type_error(f"{fname}: missing keyword argument {p.arg}", node)
        if a.kwarg is not None:
            ks = [VStr(k) for k in kwargs]
            frame.vars[a.kwarg.arg] = self.ctx.new_cell("dict", (ks, list(kwargs.values())))
        elif kwargs:
            self.type_error(f"{fname}: unexpected keyword argument {sorted(kwargs)}", node)

    def type_error(self, msg, node):
        if not self.spec:
            self.ctx.oblige("safety.call_signature", z3.BoolVal(False), node, note=msg)
        raise PyRaise(VExc("TypeError", (VStr(msg),)), node)

    def call_function(self, fi, args, kwargs, node, closure=None):
        """call a repository function: cut at its contract, or inline its body"""
        c = self.contracts.get(fi.fq)
        if c is not None and c.cut and self.verifying != fi.fq and not (self.spec and c.returns is None):
            return self.apply_contract(fi, c, args, kwargs, node)
        if fi.is_abstract and all(isinstance(b, ast.Pass) or (isinstance(b, ast.Expr) and isinstance(b.value, ast.Constant)) for b in fi.node.body):
            # an @abstractmethod with a real body may be reached through super(): it runs like any other method
            raise EngineError(f"call of abstract method {fi.fq}")
        if self.inline_depth > self.max_inline_depth:
            raise EngineError(f"inline depth exceeded at {fi.fq}")
        self.called.add(fi.fq)
        parent = closure if closure is not None else None
        fr = Frame(fi.module, fi, parent=parent)
        self.bind_args(fi.node.args, args, kwargs, fr, node, fi.qual)
        self.inline_depth += 1
        self.ctx.func_stack.append(fi.fq)
        try:
            self.exec_block(fi.node.body, fr)
            return NONE
        except _Return as r:
            return r.val
        finally:
            self.ctx.func_stack.pop()
            self.inline_depth -= 1

    def instantiate(self, cls, args, kwargs, node):
        cc = self.contracts.get(cls.fq)
        if cc is not None and callable(cc.returns):
            # constructor call cut at a contract on the class itself: the contract builds the (abstract) instance
            cf = Frame(cls.module)
            cf.vars["args"] = VTuple(args)
            for k, v in kwargs.items():
                cf.vars[k] = v
            return cc.returns(self, cf)
        if cls.is_enum(self.index):
            return self.enum_by_value(cls, args[0], node)
        cm = self.class_models.get(cls.name)
        if cm is not None and cm.repo_class is cls and getattr(cm, "alloc_smt", False):
            return self.instantiate_smt(cls, cm, args, kwargs, node)
        if self.is_exception_class(cls):
            return VExc(cls.name, tuple(args))
        o = self.ctx.new_cell("obj", {}, cls)
        init = cls.find_method(self.index, "__init__")
        if init is not None:
            self.call_function(init, [o] + list(args), kwargs, node)
        elif cls.is_dataclass:
            fields = []
            for c in reversed(cls.mro(self.index)):
                fields.extend(c.ann_fields)
            cell = self.ctx.cell(o)
            names = [n for n, _ in fields]
            for i, (n, d) in enumerate(fields):
                if i < len(args):
                    cell[n] = args[i]
                elif n in kwargs:
                    cell[n] = kwargs[n]
                elif d is not None:
                    cell[n] = self.ev(d, self.module_frame(cls.module))
                else:
                    self.type_error(f"{cls.name}: missing field {n}", node)
        elif args or kwargs:
            if cls.is_subclass_exception(self.index) if hasattr(cls, "is_subclass_exception") else False:
                pass
            else:
                bases = [b for b in cls.bases(self.index) if isinstance(b, str)]
                if any(b in ("Exception", "ValueError", "RuntimeError") for b in bases):
                    return VExc(cls.name, tuple(args))
                self.type_error(f"{cls.name}() takes no arguments", node)
        else:
            bases = [b for b in cls.bases(self.index) if isinstance(b, str)]
            if any(b in ("Exception", "ValueError", "RuntimeError") for b in bases):
                return VExc(cls.name, ())
        return o

    def is_exception_class(self, cls):
        for c in cls.mro(self.index):
            for b in c.bases(self.index):
                if isinstance(b, str) and b.split(".")[-1] in ("Exception", "ValueError", "RuntimeError", "TypeError", "KeyError", "BaseException"):
                    return True
        return False

    def enum_by_value(self, cls, v, node):
        mem = self.ctx.enum_members(cls)
        for i in range(len(mem)):
            eq = z3.simplify(self.py_eq(self.enum_value(cls, i), v, node)) if self.enum_value(cls, i).kind == v.kind else z3.BoolVal(False)
            if z3.is_true(eq):
                return VEnum(cls, i)
            if not z3.is_false(eq):
                if self.ctx.branch(eq, f"enumval@{getattr(node, 'lineno', 0)}"):
                    return VEnum(cls, i)
        raise PyRaise(VExc("ValueError"), node)

    # ================================================================== statements
    def exec_block(self, stmts, fr):
        for s in stmts:
            self.exec_stmt(s, fr)

    def exec_stmt(self, s, fr):
        if GEN_DEADLINE[0] is not None and time.time() > GEN_DEADLINE[0]:
            # a body whose paths multiply (e.g. a comprehension branching on every element) is not read to the end: checker error, never a verdict
            raise EngineError(f"generation budget of {GEN_DEADLINE[1]} s exceeded while reading line {getattr(s, 'lineno', '?')} (too many paths)")
        m = getattr(self, "st_" + type(s).__name__, None)
        if m is None:
            raise EngineError(f"unsupported statement {type(s).__name__} line {s.lineno}")
        if not self.spec and fr.fi is not None and isinstance(s, (ast.Expr, ast.Assign, ast.AugAssign, ast.AnnAssign, ast.Return)):
            c = self.contracts.get(fr.fi.fq)
            if c is not None and getattr(c, "hints", None) and not c.cut:
                src = ast.unparse(s)
                for key, exprs in c.hints.items():
                    if key in src:
                        for nm, tx in exprs:
                            g = self.truth(self.eval_spec(tx, fr))
                            self.ctx.oblige(f"hint.{nm}", g, s, kind="hint")
                            self.ctx.assume(g)
        return m(s, fr)

    def st_Pass(self, s, fr):
        pass

    def st_Expr(self, s, fr):
        if isinstance(s.value, ast.Constant):
            return    # docstring
        self.ev(s.value, fr)

    def st_Import(self, s, fr):
        pass

    def st_ImportFrom(self, s, fr):
        # function-local import: bind lazily through the module resolution of the imported name
        for a in s.names:
            mod = s.module
            if mod in self.index.modules:
                v = self.wrap_global(self.index.resolve_global(self.index.modules[mod], a.name), self.index.modules[mod], a.name, s)
                if v is not None:
                    fr.vars[a.asname or a.name] = v
                    continue
            fr.vars[a.asname or a.name] = VExt(f"{mod}.{a.name}")

    def st_FunctionDef(self, s, fr):
        fi = FuncInfo(fr.module, (fr.fi.qual + "." if fr.fi else "") + s.name, s, cls=fr.fi.cls if fr.fi else None, outer=fr.fi)
        fr.vars[s.name] = VFunc(fi, closure=fr)

    def st_Assign(self, s, fr):
        v = self.ev_rhs(s.value, s.targets[0], fr)
        for t in s.targets:
            self.assign(t, v, fr)

    def st_AnnAssign(self, s, fr):
        if s.value is not None:
            self.assign(s.target, self.ev_rhs(s.value, s.target, fr), fr)

    def ev_rhs(self, value, target, fr):
        """evaluate an assignment's right-hand side; an empty list literal bound to a name the contract
        declares as SMT list is allocated in the SMT heap"""
        t = self.declared_type(target, fr)
        if t is not None and isinstance(t, TSList) and isinstance(value, ast.List) and not any(isinstance(x, ast.Starred) for x in value.elts):
            lst = self.new_slist(t.elem, "newlist")
            for x in value.elts:
                self.slist_append(lst, self.ev(x, fr), value)
            return lst
        return self.ev(value, fr)

    def declared_type(self, target, fr):
        c = self.contracts.get(fr.fi.fq) if fr.fi is not None else None
        if isinstance(target, ast.Name):
            return c.locals.get(target.id) if c is not None else None
        if isinstance(target, ast.Attribute) and isinstance(target.value, ast.Name):
            t = c.locals.get(f"{target.value.id}.{target.attr}") if c is not None else None
            if t is None:
                # a field of an SMT-heap object has the type its class model declares
                o = fr.vars.get(target.value.id)
                if o is not None and o.kind == "sobj" and o.cname in self.class_models:
                    t = self.class_models[o.cname].fields.get(target.attr)
            return t
        return None

    def new_slist(self, elem, name):
        r = self.ctx.new_sref(name)
        self.ctx.sheap[("len",)] = z3.Store(self.ctx.len_map(), r, z3.IntVal(0))
        self.ctx.assume(REF_TYPE(r) == TSList(elem).tag())
        return VSList(r, elem)

    def coerce_declared(self, t, v):
        if t is None:
            return v
        try:
            zs = t.pack(v, self.ctx)
        except EngineError:
            return v
        return t.unpack(zs)

    def assign(self, tgt, v, fr):
        if isinstance(tgt, ast.Name):
            t = self.declared_type(tgt, fr)
            fr.vars[tgt.id] = self.coerce_declared(t, v)
            return
        if isinstance(tgt, (ast.Tuple, ast.List)):
            items = self.unpack_iter(v, tgt)
            star = [i for i, t in enumerate(tgt.elts) if isinstance(t, ast.Starred)]
            if star:
                i = star[0]
                nafter = len(tgt.elts) - i - 1
                if len(items) < len(tgt.elts) - 1:
                    raise PyRaise(VExc("ValueError"), tgt)
                for t, x in zip(tgt.elts[:i], items[:i]):
                    self.assign(t, x, fr)
                self.assign(tgt.elts[i].value, self.ctx.new_cell("list", items[i:len(items) - nafter]), fr)
                for t, x in zip(tgt.elts[i + 1:], items[len(items) - nafter:]):
                    self.assign(t, x, fr)
                return
            if len(items) != len(tgt.elts):
                if not self.spec:
                    self.ctx.oblige("safety.unpack_arity", z3.BoolVal(False), tgt)
                raise PyRaise(VExc("ValueError"), tgt)
            for t, x in zip(tgt.elts, items):
                self.assign(t, x, fr)
            return
        if isinstance(tgt, ast.Attribute):
            self.setattr(self.ev(tgt.value, fr), tgt.attr, self.coerce_declared(self.declared_type(tgt, fr), v), tgt)
            return
        if isinstance(tgt, ast.Subscript):
            o = self.ev(tgt.value, fr)
            if isinstance(tgt.slice, ast.Slice):
                raise EngineError(f"slice store (line {tgt.lineno})")
            self.setitem(o, self.ev(tgt.slice, fr), v, tgt)
            return
        raise EngineError(f"assignment target {type(tgt).__name__}")

    def unpack_iter(self, v, node):
        if v.kind == "opaque":
            return self.ext_unpack(v, node)
        return self.iter_concrete(v, node)

    def st_AugAssign(self, s, fr):
        if isinstance(s.target, ast.Name):
            cur = self.ev(ast.Name(s.target.id, ast.Load(), lineno=s.lineno), fr)
        elif isinstance(s.target, ast.Attribute):
            obj = self.ev(s.target.value, fr)
            cur = self.getattr(obj, s.target.attr, s)
        elif isinstance(s.target, ast.Subscript):
            obj = self.ev(s.target.value, fr)
            idx = self.ev(s.target.slice, fr)
            cur = self.getitem(obj, idx, s)
        else:
            raise EngineError("augassign target")
        rhs = self.ev(s.value, fr)
        # in-place list extension mutates the object
        if isinstance(s.op, ast.Add) and cur.kind == "ref" and cur.rkind == "list":
            self.ctx.mutating()
            self.ctx.cell(cur).extend(self.iter_concrete(rhs, s))
            self.ctx.cell_write(cur.addr, "[]", s)
            new = cur
        elif isinstance(s.op, ast.Add) and cur.kind == "slist":
            self.slist_extend(cur, rhs, s)
            new = cur
        else:
            new = self.binop(s.op, cur, rhs, s)
        if isinstance(s.target, ast.Name):
            self.assign(s.target, new, fr)
        elif isinstance(s.target, ast.Attribute):
            self.setattr(obj, s.target.attr, new, s)
        else:
            self.setitem(obj, idx, new, s)

    def mergeable_if(self, s):
        """only simple assignments to local names (and nested ifs of that kind): executed without forking"""
        def ok_stmt(x):
            if isinstance(x, ast.Pass):
                return True
            if isinstance(x, ast.Expr):
                return isinstance(x.value, ast.Constant) or (isinstance(x.value, ast.Call) and (self._callee_text(x.value.func) or "").startswith(self.dropped_calls))
            if isinstance(x, ast.Assign):
                return all(isinstance(t, ast.Name) for t in x.targets)
            if isinstance(x, ast.AnnAssign):
                return isinstance(x.target, ast.Name)
            if isinstance(x, ast.AugAssign):
                return isinstance(x.target, ast.Name) and not isinstance(x.op, ast.Add) or (isinstance(x.target, ast.Name) and isinstance(x.value, ast.Constant))
            if isinstance(x, ast.If):
                return all(ok_stmt(y) for y in x.body + x.orelse)
            return False
        return all(ok_stmt(y) for y in s.body + s.orelse)

    def exec_if_merged(self, s, fr, c):
        v0 = dict(fr.vars)
        try:
            self.guarded(c, lambda: self.exec_block(s.body, fr))
            v1 = dict(fr.vars)
            fr.vars.clear()
            fr.vars.update(v0)
            self.guarded(z3.Not(c), lambda: self.exec_block(s.orelse, fr))
            v2 = dict(fr.vars)
            out = dict(v0)
            for nm in set(v1) | set(v2):
                a, b = v1.get(nm), v2.get(nm)
                if a is None or b is None:
                    # bound on one branch only: usable later only where that branch was taken (checked at the use)
                    x, cx = (a, c) if b is None else (b, z3.Not(c))
                    if x.kind == "maybe":
                        x, cx = x.inner, z3.And(cx, x.defined)
                    out[nm] = VMaybe(cx, x)
                    continue
                if a.kind == "maybe" or b.kind == "maybe":
                    da = a.defined if a.kind == "maybe" else z3.BoolVal(True)
                    db = b.defined if b.kind == "maybe" else z3.BoolVal(True)
                    ia = a.inner if a.kind == "maybe" else a
                    ib = b.inner if b.kind == "maybe" else b
                    out[nm] = VMaybe(z3.If(c, da, db), ia if ia is ib else self.merge(c, ia, ib))
                    continue
                out[nm] = a if a is b else self.merge(c, a, b)
        except NeedFork:
            fr.vars.clear()
            fr.vars.update(v0)
            raise
        fr.vars.clear()
        fr.vars.update(out)
        return True

    def st_If(self, s, fr):
        cv = self.ev(s.test, fr)
        c0 = z3.simplify(self.truth(cv, s.test))
        if not z3.is_true(c0) and not z3.is_false(c0) and not self.spec and self.mergeable_if(s):
            if self.ctx.no_branch:
                self.exec_if_merged(s, fr, c0)
                return
            if self.try_merge(lambda: self.exec_if_merged(s, fr, c0)):
                self.cover(s, "T")
                self.cover(s, "F")
                return
        if self.ctx.branch(c0, f"if@{s.lineno}"):
            self.cover(s, "T")
            self.exec_block(s.body, fr)
        else:
            self.cover(s, "F")
            self.exec_block(s.orelse, fr)

    def cover(self, node, tag):
        if self.ctx.func_stack and self.ctx.func_stack[-1] == self.verifying:
            self.ctx.covers[(self.verifying, node.lineno, tag)] = True

    def st_Return(self, s, fr):
        raise _Return(self.ev(s.value, fr) if s.value is not None else NONE, s.lineno)

    def st_Raise(self, s, fr):
        if s.exc is None:
            raise EngineError("bare raise")
        v = self.ev(s.exc, fr)
        if v.kind == "class":
            v = VExc(v.cls if isinstance(v.cls, str) else v.cls.name)
        if v.kind != "exc":
            raise EngineError(f"raise of {v}")
        raise PyRaise(v, s)

    def st_Assert(self, s, fr):
        cv = self.ev(s.test, fr)
        if not self.ctx.branch(self.truth(cv, s.test), f"assert@{s.lineno}"):
            raise PyRaise(VExc("AssertionError"), s)

    def st_Break(self, s, fr):
        raise _Break()

    def st_Continue(self, s, fr):
        raise _Continue()

    def st_Delete(self, s, fr):
        for t in s.targets:
            if isinstance(t, ast.Name):
                fr.vars.pop(t.id, None)
            else:
                raise EngineError("del of non-name")

    def st_While(self, s, fr):
        raise EngineError(f"while loop (line {s.lineno})")

    def st_With(self, s, fr):
        raise EngineError(f"with statement (line {s.lineno})")

    def st_Try(self, s, fr):
        raise EngineError(f"try statement (line {s.lineno})")

    # ------------------------------------------------------------------ for loops
    @staticmethod
    def _iter_makes_only_temporaries(e):
        """the lists allocated while evaluating this iterable expression are referenced by the iterator alone:
        slices of named lists, wrapped in enumerate / zip / reversed"""
        if isinstance(e, (ast.Name, ast.Attribute, ast.Constant)):
            return True
        if isinstance(e, ast.Subscript) and isinstance(e.slice, ast.Slice):
            parts = [e.slice.lower, e.slice.upper, e.slice.step]
            return Interp._iter_makes_only_temporaries(e.value) and all(p is None or isinstance(p, (ast.Constant, ast.Name, ast.UnaryOp, ast.BinOp)) for p in parts)
        if isinstance(e, ast.Call) and isinstance(e.func, ast.Name) and e.func.id in ("enumerate", "zip", "reversed") and not e.keywords:
            return all(Interp._iter_makes_only_temporaries(a) for a in e.args)
        return False

    def st_For(self, s, fr):
        n_fresh = len(self.ctx.fresh_refs)
        it = self.ev(s.iter, fr)
        if self._iter_makes_only_temporaries(s.iter):
            # e.g. `for x in xs[1:]`: the slice is a new list nobody but the iterator can reach, so the loop body cannot change it
            self.ctx.loop_temporaries = getattr(self.ctx, "loop_temporaries", []) + list(self.ctx.fresh_refs[n_fresh:])
            for r in self.ctx.fresh_refs[n_fresh:]:
                # their defining facts survive the context reset at the cut (the lists are not havocked)
                for d in getattr(self.ctx, "list_defs", {}).get(r.get_id(), []):
                    self.ctx.keep_ids.add(d.get_id())
        sym = self.symbolic_iter(it, s)
        if sym is None:
            items = self.iter_concrete(it, s.iter)
            if len(items) > self.unroll_limit:
                raise EngineError(f"unroll limit exceeded (line {s.lineno})")
            broke = False
            for x in items:
                self.assign(s.target, x, fr)
                try:
                    self.exec_block(s.body, fr)
                except _Break:
                    broke = True
                    break
                except _Continue:
                    continue
            if not broke:
                self.exec_block(s.orelse, fr)
            return
        self.cut_loop(s, fr, sym)

    def symbolic_iter(self, it, node):
        """None for concrete-spine iterables, else (n: z3 Int, elem_at: k -> Val, lists read)"""
        if it.kind == "slist":
            if it.nullable and not self.spec:
                self.ctx.oblige("safety.not_none.iter", it.z != 0, node)
            n = self.ctx.slen(it.z)
            return (n, lambda k: self.ctx.sitem(it, k), [it])
        if it.kind == "opaque" and it.tag == "symiter":
            return it.data["sym"]
        if it.kind == "dyn":
            return self.dyn_iter(it, node)
        return None

    def loop_ordinal(self, fi, node):
        key = fi.fq
        if key not in self.loop_ordinals:
            self.loop_ordinals[key] = {id(n): i + 1 for i, n in enumerate(
                x for x in ast.walk(fi.node) if isinstance(x, (ast.For, ast.While)))}
        return self.loop_ordinals[key][id(node)]

    def assigned_names(self, body):
        names, attrs = set(), set()
        rebound = set()
        for nd in ast.walk(ast.Module(body=body, type_ignores=[])):
            if isinstance(nd, ast.Name) and isinstance(nd.ctx, ast.Store):
                names.add(nd.id)
                rebound.add(nd.id)
            elif isinstance(nd, ast.Attribute) and isinstance(nd.ctx, ast.Store) and isinstance(nd.value, ast.Name):
                attrs.add((nd.value.id, nd.attr))
            elif isinstance(nd, ast.AugAssign) and isinstance(nd.target, ast.Attribute) and isinstance(nd.target.value, ast.Name):
                attrs.add((nd.target.value.id, nd.target.attr))
            elif isinstance(nd, ast.Subscript) and isinstance(nd.ctx, ast.Store) and isinstance(nd.value, ast.Name):
                names.add(nd.value.id)      # x[i] = v changes the value x denotes (tables, lists)
        # names that are only item-assigned keep denoting the same heap list / object (its CONTENT is havocked with the heap, not the reference)
        self._last_item_only = names - rebound
        return sorted(names), sorted(attrs)

    def cut_loop(self, s, fr, sym):
        if self.spec or self.ctx.no_branch:
            raise EngineError(f"loop over symbolic data in spec/merge mode (line {s.lineno})")
        fi = fr.fi
        if fi is None:
            raise EngineError("loop at module level")
        k = self.loop_ordinal(fi, s)
        c = self.contracts.get(fi.fq)
        spec = c.loops.get(k) if c is not None else None
        if spec is None:
            raise EngineError(f"loop {k} of {fi.fq} (line {s.lineno}) iterates over data of unknown size and has no invariant")
        n, elem_at, _ = sym
        ivar = spec.index
        tag = f"{fi.qual}.loop{k}"
        def check_inv(idx, phase):
            inv_fr = Frame(fr.module, fi, parent=fr)
            inv_fr.vars[ivar] = VInt(idx)
            for nm, tx in spec.invariants:
                g = self.truth(self.eval_spec(tx, inv_fr))
                self.ctx.oblige(f"{tag}.{phase}.{nm}", g, s, kind="invariant")
        def assume_inv(idx):
            inv_fr = Frame(fr.module, fi, parent=fr)
            inv_fr.vars[ivar] = VInt(idx)
            for nm, tx in list(spec.invariants) + list(spec.assumed):
                self.ctx.assume(self.truth(self.eval_spec(tx, inv_fr)))
        for gname, gtx in spec.entry_ghosts.items():
            fr.vars[gname] = self.eval_spec(gtx, fr)
        check_inv(z3.IntVal(0), "entry")
        names, attrs = self.assigned_names(s.body)
        item_only = set(self._last_item_only)
        tnames, _ = self.assigned_names([ast.Assign(targets=[s.target], value=ast.Constant(0), lineno=s.lineno)])
        for tn in tnames:
            if tn not in names:
                # the loop target is rebound on every iteration; after the loop it holds an element nobody may rely on
                v = fr.vars.get(tn)
                if v is not None:
                    try:
                        fr.vars[tn] = self.fresh_like(v, tn, s)
                    except EngineError:
                        del fr.vars[tn]
        which = self.ctx.decide([("iter", []), ("exit", [])], f"loop{k}@{s.lineno}")
        # context reset at the cut (keeps each query small): quantified facts gathered since the function's entry are
        # dropped, the invariant has to be self-sufficient; requires, definitions and quantifier-free facts stay
        c = self.ctx
        if c.base_len is not None:
            c.pc = c.pc[:c.base_len] + [f for f in c.pc[c.base_len:] if not has_quant(f) or f.get_id() in c.keep_ids]
        self._item_assigned_only = item_only
        pre_havoc_addr = self.ctx.next_addr      # concrete cells made by the havoc itself are fresh stand-ins (already "forgotten" state)
        outer_dicts = getattr(self, "_havocked_dicts", None)
        self._havocked_dicts = {}
        try:
            self.havoc_for_loop(fr, names, attrs, spec, s)
        finally:
            havocked_dicts, self._havocked_dicts = self._havocked_dicts, outer_dicts
        wmark = len(self.ctx.written)
        cmark, cut_addr = len(getattr(self.ctx, "all_cell_writes", [])), self.ctx.next_addr
        if which == 0:
            idx = self.ctx.fresh(ivar, I)
            self.ctx.assume(z3.And(0 <= idx, idx < n))
            fr.vars[ivar] = VInt(idx)        # ghost: the loop index is readable by the specs of nested loops
            assume_inv(idx)
            if not self.ctx.feasible([]):
                raise PathEnd()
            self.assign(s.target, elem_at(idx), fr)
            try:
                self.exec_block(s.body, fr)
            except _Continue:
                pass
            except _Break:
                return          # continue after the loop with the state at the break
            check_inv(idx + 1, "preserve")
            self._loop_attrs = attrs
            self.loop_frame_check(tag, spec, fr, wmark, s)
            # concrete containers that exist before the cut and are mutated by the body (x.append(...), d[k] = v, ...) are not forgotten at the cut:
            # the engine would run every iteration on their pre-loop state. Refuse instead of proving from a stale state.
            hav = set()
            for (on, an) in attrs:
                o = fr.lookup(on)
                if o is not None and o.kind == "ref":
                    hav.add((o.addr, an))
            entry = self.ctx.entry_addr or 0
            for (addr, what, node) in getattr(self.ctx, "all_cell_writes", [])[cmark:]:
                if what == "[]" and addr in havocked_dicts and len(self.ctx.cheap[addr][0]) == havocked_dicts[addr]:
                    continue        # a dict whose values were forgotten at the cut and whose key set the body leaves alone
                if entry <= addr < pre_havoc_addr and (addr, what) not in hav:
                    raise EngineError(f"the body of loop {k} of {fi.fq} changes a concrete container created before the loop ({what} at line {getattr(node, 'lineno', '?')}): "
                                      f"declare that local as an SMT list / object in the contract (locals=...) so that the cut forgets it")
            raise PathEnd()
        else:
            assume_inv(n)
            fr.vars[ivar] = VInt(n)
            if not self.ctx.feasible([]):
                raise PathEnd()
            self.exec_block(s.orelse, fr)

    def loop_frame_check(self, tag, spec, fr, wmark, node):
        """the loop frame assumed at the cut (pre-existing objects and lists unchanged) is an obligation on the body's writes"""
        ctx = self.ctx
        allowed = [self.eval_spec(tx, fr).z for tx in spec.modifies]
        kept = [self.eval_spec(tx, fr).z for tx in getattr(spec, "unchanged", ())]
        seen = set()
        havocked = set()
        for (on, an) in getattr(self, "_loop_attrs", ()):
            o = fr.lookup(on)
            if o is not None and o.kind == "ref" and o.rkind == "obj":
                havocked.add((o.addr, an))
        for w in ctx.written[wmark:]:
            if w[0] == "cell":
                # a store into a pre-existing concrete object: accounted for iff the cut havocked that attribute (assigned in the loop body's own text)
                if (w[1], w[2]) not in havocked:
                    ctx.oblige(f"{tag}.frame.store_into_pre_existing_object_not_in_the_loop_frame.{w[2]}", z3.BoolVal(False), w[3], kind="frame")
                continue
            ref = w[1] if w[0] == "list" else w[3]
            k = (w[0], ref.get_id()) + ((w[1], w[2]) if w[0] == "field" else ())
            if k in seen:
                continue
            seen.add(k)
            what = "list" if w[0] == "list" else f"field.{w[1]}.{w[2]}"
            ctx.oblige(f"{tag}.frame.{what}_write_only_to_new_objects", z3.And(z3.Or(z3.Not(ctx.is_old(ref)), *[ref == a for a in allowed]), *[ref != u for u in kept]), w[-1], kind="frame")

    def havoc_for_loop(self, fr, names, attrs, spec, node):
        """forget everything the loop body may change: assigned locals, assigned fields of concrete objects,
        SMT lists/objects allocated on this path (frame of the loop) and whatever the loop spec names"""
        ctx = self.ctx
        for nm in names:
            v = fr.vars.get(nm)
            if v is None:
                continue
            if nm in getattr(self, "_item_assigned_only", ()) and v.kind in ("slist", "sobj"):
                continue
            fr.vars[nm] = self.fresh_like(v, nm, node)
        for (on, an) in attrs:
            o = fr.lookup(on)
            if o is None:
                continue
            if o.kind == "ref" and o.rkind == "obj":
                cell = ctx.cell(o)
                if an in cell:
                    cell[an] = self.fresh_like(cell[an], f"{on}.{an}", node)
            elif o.kind == "sobj":
                self.havoc_field(o.cname, an)
        temps = {t.get_id() for t in getattr(ctx, "loop_temporaries", [])}
        temps |= {self.eval_spec(tx, fr).z.get_id() for tx in getattr(spec, "unchanged", ())}
        fresh = [r for r in ctx.fresh_refs if r.get_id() not in temps]
        extra = []
        for tx in spec.modifies:
            mv = self.eval_spec(tx, fr)
            extra.append(mv.z)
        self.havoc_lists(fresh + extra)

    def havoc_lists(self, refs):
        """new len/item maps that agree with the old ones outside `refs`"""
        ctx = self.ctx
        if not refs:
            return
        r = z3.Int("r!frame")
        notw = z3.And(*[r != w for w in refs])
        old_len = ctx.len_map()
        new_len = ctx.fresh("len", old_len.sort())
        def keep(f):
            ctx.assume(f)
            ctx.keep_ids.add(f.get_id())
            ctx.kept.append(f)
        keep(z3.ForAll([r], z3.Implies(notw, z3.Select(new_len, r) == z3.Select(old_len, r))))
        keep(z3.ForAll([r], z3.Select(new_len, r) >= 0))
        ctx.sheap[("len",)] = new_len
        for key in [k for k in ctx.sheap if k[0] == "item"]:
            old = ctx.sheap[key]
            new = ctx.fresh("item", old.sort())
            keep(z3.ForAll([r], z3.Implies(notw, z3.Select(new, r) == z3.Select(old, r))))
            ctx.sheap[key] = new
        for key in [k for k in ctx.sheap if k[0] == "f"]:
            old = ctx.sheap[key]
            new = ctx.fresh("field", old.sort())
            keep(z3.ForAll([r], z3.Implies(notw, z3.Select(new, r) == z3.Select(old, r))))
            ctx.sheap[key] = new
        # ground instances for the references the path knows
        new_alloc = ctx.fresh("alloc", ctx.alloc.sort())
        ctx.assume(z3.ForAll([r], z3.Implies(z3.Select(ctx.alloc, r), z3.Select(new_alloc, r))))
        for w in ctx.fresh_refs:
            ctx.assume(z3.Select(new_alloc, w))
        ctx.alloc = new_alloc

    def havoc_field(self, cname, fname):
        for key in [k for k in self.ctx.sheap if k[0] == "f" and k[1] == cname and k[2] == fname]:
            self.ctx.sheap[key] = self.ctx.fresh("field", self.ctx.sheap[key].sort())

    def fresh_like(self, v, name, node=None):
        k = v.kind
        ctx = self.ctx
        if k == "bool":
            return VBool(ctx.fresh(name, B))
        if k == "int":
            return VInt(ctx.fresh(name, I))
        if k == "real":
            if v.special:
                raise EngineError(f"loop-assigned variable {name} holds {v.special}: declare its type in the contract")
            return VReal(ctx.fresh(name, R))
        if k == "str":
            return VStr(ctx.fresh(name, S))
        if k == "enum":
            t = TEnum(v.ecls, nullable=not isinstance(v.idx, int) and False)
            return t.fresh(ctx, name)
        if k == "tuple":
            return VTuple([self.fresh_like(x, f"{name}.{i}", node) for i, x in enumerate(v.items)])
        if k == "sobj":
            return VSObj(ctx.fresh(name, I), v.cname, v.nullable)
        if k == "slist":
            return VSList(ctx.fresh(name, I), v.elem, v.nullable)
        if k == "opt":
            return VOpt(ctx.fresh(name + "?", B), self.fresh_like(v.inner, name, node))
        if k == "none":
            raise EngineError(f"variable {name} is None before a cut loop and assigned inside: declare its type in the contract locals (line {getattr(node, 'lineno', '?')})")
        if k == "opaque":
            return self.ext_fresh_like(v, name, node)
        if k in ("func", "class", "module", "ext", "lambda"):
            return v
        if k == "ref" and v.rkind == "dict":
            # a dict whose entries are updated in the loop (d[k] += x, d[k].append(y)): same keys, scalar values forgotten; SMT-list values keep their
            # identity (their contents are havocked with the other lists allocated on this path)
            keys, vals = ctx.cell(v)
            for i, x in enumerate(vals):
                if x.kind not in ("slist", "sobj"):
                    vals[i] = self.fresh_like(x, f"{name}[{i}]", node)
            if getattr(self, "_havocked_dicts", None) is not None:
                self._havocked_dicts[v.addr] = len(keys)
            return v
        raise EngineError(f"cannot havoc {name} = {v} at a loop cut (line {getattr(node, 'lineno', '?')})")

    # ================================================================== contracts and spec expressions
    def parse_expr(self, tx):
        if tx not in self._parse_cache:
            self._parse_cache[tx] = ast.parse(tx.strip(), mode="eval").body
        return self._parse_cache[tx]

    def eval_spec(self, tx, fr):
        was = self.spec
        self.spec = True
        try:
            return self.ev(self.parse_expr(tx) if isinstance(tx, str) else tx, fr)
        finally:
            self.spec = was

    def call_spec(self, name, e, fr):
        if name in self.spec_funcs:
            return self.spec_funcs[name](self, e, fr)
        ctx = self.ctx
        if name == "implies":
            a = self.truth(self.ev(e.args[0], fr))
            if z3.is_false(z3.simplify(a)):
                return VBool(True)
            b = self.guarded(a, lambda: self.truth(self.ev(e.args[1], fr)))
            return VBool(z3.Implies(a, b))
        if name == "iff":
            a, b = [self.truth(self.ev(x, fr)) for x in e.args]
            return VBool(a == b)
        if name == "ite":
            c = self.truth(self.ev(e.args[0], fr))
            return self.merge(c, self.guarded(c, lambda: self.ev(e.args[1], fr)), self.guarded(z3.Not(c), lambda: self.ev(e.args[2], fr)))
        if name in ("forall", "exists"):
            # forall(k, lo, hi, body) | forall((k, T), body)
            if len(e.args) in (4, 5):
                # forall(k, lo, hi, body[, trigger]): the optional 5th argument is the instantiation pattern (a term over k)
                var = e.args[0].id
                lo = to_int_z(self.ev(e.args[1], fr))
                hi = to_int_z(self.ev(e.args[2], fr))
                kz = ctx.bound(var)
                qf = Frame(fr.module, fr.fi, parent=fr)
                qf.vars[var] = VInt(kz)
                rng = z3.And(lo <= kz, kz < hi)
                body = self.guarded(rng, lambda: self.truth(self.ev(e.args[3], qf)))
                if len(e.args) == 5 and name == "forall":
                    pv = self.ev(e.args[4], qf)
                    pat = pv.z if getattr(pv, "z", None) is not None else None
                    if pat is not None and not z3.is_const(pat):
                        return VBool(z3.ForAll([kz], z3.Implies(rng, body), patterns=[pat]))
                return VBool(z3.ForAll([kz], z3.Implies(rng, body)) if name == "forall" else z3.Exists([kz], z3.And(rng, body)))
            if len(e.args) == 2:
                # forall(p, body): p ranges over all integers (ids of an abstract universe, e.g. points)
                var = e.args[0].id
                kz = ctx.bound(var)
                qf = Frame(fr.module, fr.fi, parent=fr)
                qf.vars[var] = VInt(kz)
                body = self.guarded(z3.BoolVal(True), lambda: self.truth(self.ev(e.args[1], qf)))
                return VBool(z3.ForAll([kz], body) if name == "forall" else z3.Exists([kz], body))
            raise EngineError("forall/exists: expected (var, lo, hi, body) or (var, body)")
        if name == "old":
            return self.eval_old(e.args[0], fr)
        if name == "lower":
            return self.call_ext("str.lower", [self.ev(e.args[0], fr)], {}, e)
        if name == "allocated":
            v = self.ev(e.args[0], fr)
            return VBool(z3.Select(ctx.alloc, v.z))
        if name == "local":
            # value of a local variable / loop ghost of the verified function at the point of return (default if unbound)
            nm = self.ev(e.args[0], fr).const
            bf = self.body_frame
            if bf is not None and nm in bf.vars:
                v = bf.vars[nm]
                return v.inner if v.kind == "maybe" else v
            c0 = self.contracts.get(self.verifying)
            t0 = c0.locals.get(nm) if c0 is not None else None
            if len(e.args) == 1 and isinstance(t0, TSList):
                # unbound list local (early return): reads as an empty list of its declared type
                r = self.ctx.fresh("empty_" + nm, I)
                self.ctx.assume(z3.And(r > 0, self.ctx.slen(r) == 0))
                return VSList(r, t0.elem)
            if len(e.args) > 1:
                c = self.contracts.get(self.verifying)
                t = c.locals.get(nm) if c is not None else None
                if isinstance(e.args[1], ast.List) and not e.args[1].elts and isinstance(t, TSList):
                    # an unbound list local reads as the empty list of its declared type
                    r = self.ctx.fresh("empty_" + nm, I)
                    self.ctx.assume(z3.And(r > 0, self.ctx.slen(r) == 0))
                    return VSList(r, t.elem)
                return self.ev(e.args[1], fr)
            raise EngineError(f"local('{nm}') is unbound on this path")
        if name == "well_typed":
            # the reference has the dynamic type its static type says (and is not None unless nullable)
            v = self.ev(e.args[0], fr)
            if v.kind == "slist":
                t = TSList(v.elem, getattr(v, "nullable", False))
            elif v.kind == "sobj":
                t = TSObj(v.cname, v.nullable)
            else:
                raise EngineError(f"well_typed of {v}")
            return VBool(z3.And(*t.facts(v, ctx)))
        if name == "is_old":
            v = self.ev(e.args[0], fr)
            if v.kind == "ref":       # a concrete container: it existed at entry iff it was built before the entry
                return VBool((ctx.entry_addr is not None and v.addr < ctx.entry_addr) or v.addr in ctx.preexisting)
            return VBool(ctx.is_old(v.z))
        if name == "is_new":
            # allocated by the function under contract: inside its own verification "did not exist at entry";
            # at a call site additionally "not allocated when the call was made"
            v = self.ev(e.args[0], fr)
            if v.kind == "ref":
                return VBool(not ((ctx.entry_addr is not None and v.addr < ctx.entry_addr) or v.addr in ctx.preexisting))
            if self.call_alloc is not None:
                return VBool(z3.And(z3.Not(ctx.is_old(v.z)), z3.Not(z3.Select(self.call_alloc, v.z)), v.z != 0))
            return VBool(z3.And(z3.Not(ctx.is_old(v.z)), v.z != 0))
        if name == "distinct":
            vs = [self.ev(a, fr) for a in e.args]
            return VBool(z3.Distinct(*[v.z for v in vs]))
        raise EngineError(f"spec function {name}")

    def eval_old(self, expr, fr):
        if self.old_state is None:
            raise EngineError("old() without a pre-state")
        ctx = self.ctx
        cur = (ctx.sheap, ctx.cheap, ctx.alloc)
        ctx.sheap, ctx.cheap, ctx.alloc = dict(self.old_state[0]), {a: _copy_cell(c) for a, c in self.old_state[1].items()}, self.old_state[2]
        try:
            return self.ev(expr, fr)
        finally:
            ctx.sheap, ctx.cheap, ctx.alloc = cur

    def snapshot(self):
        return (dict(self.ctx.sheap), {a: _copy_cell(c) for a, c in self.ctx.cheap.items()}, self.ctx.alloc)

    def apply_contract(self, fi, c, args, kwargs, node):
        """modular call: assert requires, havoc the frame, assume ensures"""
        ctx = self.ctx
        cf = Frame(fi.module, fi)
        self.bind_args(fi.node.args, args, kwargs, cf, node, fi.qual)
        short = fi.qual
        for gname, gb in c.ghosts.items():
            cf.vars[gname] = gb(self, cf) if callable(gb) else gb
        for nm, tx in c.requires:
            g = self.truth(self.eval_spec(tx, cf))
            if not self.spec:
                ctx.oblige(f"call.{short}.requires.{nm}", g, node, kind="call")
            ctx.assume(g)
        saved_old = self.old_state
        self.old_state = self.snapshot()
        saved_call_alloc = self.call_alloc
        self.call_alloc = ctx.alloc
        try:
            mods = []
            for tx in c.modifies:
                if isinstance(tx, tuple) and tx[0] == "field":
                    self.ctx.mutating()
                    self.havoc_field(tx[1], tx[2])
                elif isinstance(tx, tuple) and tx[0] == "fieldof":
                    # the callee may assign this one field of this one object: a write the caller's frame has to license
                    o = self.eval_spec(tx[1], cf)
                    t = self.class_models[o.cname].fields[tx[2]]
                    self.setattr(o, tx[2], t.fresh(ctx, f"{tx[2]}_after_{short}"), node)
                else:
                    mods.append(self.eval_spec(tx, cf).z)
            if mods:
                self.ctx.mutating()
                self.havoc_lists(mods)
            for target, tx in c.assigns.items():
                on, fn = target.split(".")
                self.setattr(cf.vars[on], fn, self.eval_spec(tx, cf), node)
            # exceptional exits allowed by the contract become branches of the caller
            for exc, tx in c.raises.items():
                cond = self.truth(self.eval_spec(tx, cf))
                if not z3.is_false(z3.simplify(cond)):
                    if self.spec:
                        raise EngineError(f"contract of {short} may raise; not usable in a spec expression")
                    # "raises X only when cond": the callee MAY raise X where cond holds, and may also return normally
                    if self.ctx.decide([("raise", [cond]), ("return", [])], f"raises.{short}.{exc}@{getattr(node, 'lineno', 0)}") == 0:
                        raise PyRaise(VExc(exc), node)
            # the callee may allocate: the set of allocated references grows (ensures may say what became allocated)
            r_ = z3.Int("r!al")
            new_alloc = ctx.fresh("alloc", ctx.alloc.sort())
            # facts about a fresh symbol: asserted unconditionally, also when the call sits under a merge guard (the allocation map in force after a
            # merged conditional is this one on both sides; a guarded fact would leave it unrelated to the previous map where the guard is false)
            ctx.pc.append(z3.ForAll([r_], z3.Implies(z3.Select(ctx.alloc, r_), z3.Select(new_alloc, r_))))
            for w in ctx.fresh_refs:
                ctx.pc.append(z3.Select(new_alloc, w))
            ctx.alloc = new_alloc
            if c.returns is None:
                res = NONE
            elif callable(c.returns) and not isinstance(c.returns, T):
                res = c.returns(self, cf)
            else:
                res = c.returns.fresh(ctx, short + "_res")
            cf.vars["result"] = res
            for nm, tx in c.ensures:
                ctx.assume(self.truth(self.eval_spec(tx, cf)))
        finally:
            self.old_state = saved_old
            self.call_alloc = saved_call_alloc
        return res


def _copy_cell(c):
    if isinstance(c, list):
        return list(c)
    if isinstance(c, dict):
        return dict(c)
    if isinstance(c, tuple):
        return tuple(list(x) if isinstance(x, list) else x for x in c)
    return c
