"""C15 native harness: threshold normalisation over all small nestings / mixed types, and evaluation configurations obtained by
deleting, adding or corrupting keys of a valid one.  (The silent drop of unknown metric keys is a recorded known finding and is
reported through its own obligation, not here.)"""
import itertools
import numbers
import shutil
import sys
import tempfile

from common import main


def is_num(x):
    return isinstance(x, numbers.Real)


def check_thresholds(value, n, nest):
    import copy
    from perception_eval.common.threshold import set_thresholds
    v0 = copy.deepcopy(value)
    try:
        out = set_thresholds(value, n, nest)
    except Exception as ex:
        out, exc = None, ex
    else:
        exc = None
    if value != v0:
        # the specification belongs to the caller (the same configuration dict is used for several evaluators): normalising it must not rewrite it
        return f"set_thresholds({v0!r}, {n}, nest={nest}) rewrote the caller's specification to {value!r}"
    flat_ok = (is_num(v0) or (isinstance(v0, list) and len(v0) in (1, n) and all(is_num(x) for x in v0) and len(v0) > 0))
    def inner_ok(x):
        return isinstance(x, list) and len(x) in (1, n) and len(x) > 0 and all(is_num(y) for y in x)
    if nest:
        wellformed = is_num(v0) or (isinstance(v0, list) and len(v0) > 0 and (all(is_num(x) for x in v0) or all(inner_ok(x) for x in v0)))
    else:
        wellformed = flat_ok
    if exc is None:
        if nest:
            if not (isinstance(out, list) and all(isinstance(r, list) and len(r) == n and all(is_num(x) for x in r) for r in out)):
                return f"set_thresholds({v0!r}, {n}, nest=True) accepted and returned {out!r}: not lists of {n} numbers"
        else:
            if not (isinstance(out, list) and len(out) == n and all(is_num(x) for x in out)):
                return f"set_thresholds({v0!r}, {n}, nest=False) accepted and returned {out!r}: not {n} numbers"
        if not wellformed:
            return f"set_thresholds({v0!r}, {n}, nest={nest}) accepted a malformed specification and returned {out!r}"
        again = set_thresholds(copy.deepcopy(out), n, nest)
        if again != out:
            return f"normalising the normalised value {out!r} changed it to {again!r}"
        nums_in = [x for x in (v0 if isinstance(v0, list) else [v0]) for x in (x if isinstance(x, list) else [x])]
        nums_out = [x for r in (out if nest else [out]) for x in r]
        if any(not any(x == y for y in nums_in) for x in nums_out):
            return f"set_thresholds({v0!r}, {n}, nest={nest}) invented an entry: {out!r}"
    elif wellformed and n >= 1:
        return f"set_thresholds({v0!r}, {n}, nest={nest}) rejected a well-formed specification with {type(exc).__name__}: {exc}"
    return None


def base_config():
    return {"evaluation_task": "detection", "target_labels": ["car", "bicycle", "pedestrian"], "ignore_attributes": None,
            "max_x_position": 100.0, "max_y_position": 100.0, "min_point_numbers": [0, 0, 0], "label_prefix": "autoware",
            "merge_similar_labels": False, "allow_matching_unknown": True, "center_distance_thresholds": [[1.0, 1.0, 1.0]],
            "plane_distance_thresholds": [2.0], "iou_2d_thresholds": [0.5], "iou_3d_thresholds": [0.5]}


def check_config(cfg):
    from perception_eval.config import PerceptionEvaluationConfig
    d = tempfile.mkdtemp(prefix="c15-")
    try:
        try:
            c = PerceptionEvaluationConfig(dataset_paths=["/nonexistent"], frame_id="base_link", result_root_directory=d, evaluation_config_dict=dict(cfg), load_raw_data=False)
        except Exception as ex:
            c, exc = None, ex
        else:
            exc = None
    finally:
        shutil.rmtree(d, ignore_errors=True)
    xy = cfg.get("max_x_position") is not None and cfg.get("max_y_position") is not None
    dd = cfg.get("max_distance") is not None and cfg.get("min_distance") is not None
    task = cfg.get("evaluation_task")
    supported = task in ("detection", "tracking", "prediction", "detection2d", "tracking2d", "classification2d", "fp_validation", "fp_validation2d")
    if exc is None:
        is3d = task in ("detection", "tracking", "prediction", "fp_validation")
        if not supported:
            return f"task {task!r} accepted"
        if is3d and (xy == dd):
            return f"configuration with {'both kinds' if xy else 'no kind'} of range bound accepted for task {task}"
        if task == "detection" and cfg.get("min_point_numbers") is None:
            return "detection configuration without min_point_numbers accepted"
        if "label_prefix" not in cfg:
            return "configuration without label_prefix accepted"
        n = len(c.target_labels)
        for k, v in c.filtering_params.items():
            if k.endswith("_list") or k in ("max_matchable_radii", "min_point_numbers"):
                if v is not None and not (isinstance(v, list) and len(v) == n and all(is_num(x) for x in v)):
                    return f"accepted configuration exposes filtering parameter {k} = {v!r}, not one number per target label ({n})"
        mc = c.metrics_config.detection_config or c.metrics_config.tracking_config
        if mc is not None:
            for k in ("center_distance_thresholds", "plane_distance_thresholds", "iou_2d_thresholds", "iou_3d_thresholds"):
                if is_num(cfg.get(k)) and getattr(mc, k) != [[cfg[k]] * n]:
                    return f"metric parameter {k} given as the number {cfg[k]!r} is exposed as {getattr(mc, k)!r}, not as one list holding it once per target label"
                for row in getattr(mc, k):
                    if not (isinstance(row, list) and len(row) == n and all(is_num(x) for x in row)):
                        return f"accepted configuration exposes metric parameter {k} = {getattr(mc, k)!r}"
    return None


def search(item, seed):
    atoms = [1.0, 2, "a", None]
    vals = list(atoms)
    lists1 = [list(t) for m in range(0, 4) for t in itertools.product([1.0, 2, "a"], repeat=m)]
    vals += lists1
    inner = [[1.0], [1.0, 2.0], [1.0, 2.0, 3.0], ["a"], [], [1.0, [2.0]], 1.0]
    vals += [list(t) for m in range(1, 3) for t in itertools.product(inner, repeat=m)]
    for n in (1, 2, 3, 4, 6):      # 4 and 6: a list may be shorter than the label count and divide it (two values for four labels): rejected, not tiled
        for nest in (False, True):
            for v in vals:
                why = check_thresholds(v, n, nest)
                if why:
                    return dict(function="set_thresholds", input=dict(value=v, n=n, nest=nest), observed=why)
    base = base_config()
    variants = [dict(base)]
    for k in list(base):
        d = dict(base)
        del d[k]
        variants.append(d)
    for extra in (dict(max_distance=100.0, min_distance=0.0), dict(max_distance=100.0), dict(min_distance=[1.0, 2.0]), dict(max_matchable_radii=[1.0, 2.0]),
                  dict(max_matchable_radii=2.0), dict(min_point_numbers=[0, 0]), dict(confidence_threshold=0.5), dict(evaluation_task="foo"),
                  dict(evaluation_task="sensing"), dict(evaluation_task="tracking"), dict(max_x_position=None, max_y_position=None, max_distance=50.0, min_distance=[0.0, 1.0, 2.0]),
                  dict(max_x_position=None, max_y_position=None, max_distance=50.0, min_distance=[0.0, 1.0]), dict(center_distance_thresholds=[["a", "b", "c"]]),
                  dict(iou_2d_thresholds=[[0.5, 0.5]]), dict(iou_2d_thresholds=0.0), dict(center_distance_thresholds=0), dict(plane_distance_thresholds=2.5),
                  dict(iou_3d_thresholds=0.0, evaluation_task="tracking")):
        d = dict(base)
        d.update(extra)
        variants.append(d)
    for cfg in variants:
        why = check_config(cfg)
        if why:
            return dict(function="PerceptionEvaluationConfig", input=cfg, observed=why)
    return None


def replay(payload):
    i = payload["input"]
    why = check_thresholds(i["value"], i["n"], i["nest"]) if payload["function"] == "set_thresholds" else check_config(i)
    return (why is None, why or "ok")


if __name__ == "__main__":
    sys.exit(main("C15", search, replay))
