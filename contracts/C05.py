"""C05 — CLEAR tracking scores follow their definitions for every history.

Under contract: CLEAR.__init__ (every total is the sum, over consecutive frame pairs, of the per-frame value of that pair — frame t against
frame t-1 and nothing else — then MOTA / MOTP from the totals), CLEAR._is_id_switched / _is_same_match (truth tables), _calculate_tp_fp (per frame: every considered result is
exactly one of TP / FP; an ID switch is counted once per TP whose pairing differs from the first previous TP that shares its
estimated track or its ground-truth track; accumulators equal ghost prefix counts), _calculate_score (MOTA / MOTP formulas with
their sentinels).  Track ids are strings compared only with ==, so every contract is invariant under consistent renaming.
"""
from pyvc.api import *
from pyvc.lemmas import count_fn, add_count_lemmas, pred_fn
import contracts.C10 as C10

CL = "evaluation.metrics.tracking.clear"
OR = "evaluation.result.object_result"
OM = "evaluation.matching.object_matching"


def models(P):
    idx = P.index
    C10.models(P)
    P.model(ClassModel("MatchingMethod", {"value": TOpt(TReal())}, repo_class=idx.lookup(f"{OM}:MatchingMethod")))
    P.model(ClassModel("DynamicObjectWithPerceptionResult", {
        "estimated_object": TSObj("DynamicObject"), "ground_truth_object": TSObj("DynamicObject", nullable=True)},
        repo_class=idx.lookup(f"{OR}:DynamicObjectWithPerceptionResult")))


def same_track(c, p):
    """both results paired, same estimated track (uuid and label) and same ground-truth track"""
    return (f"({c}.ground_truth_object is not None and {p}.ground_truth_object is not None and "
            f"{c}.estimated_object.uuid == {p}.estimated_object.uuid and {c}.estimated_object.semantic_label.label is {p}.estimated_object.semantic_label.label and "
            f"{c}.ground_truth_object.uuid == {p}.ground_truth_object.uuid)")


def switched(c, p):
    """both paired; exactly one of (estimated track, ground-truth track) is shared"""
    se = f"({c}.estimated_object.uuid == {p}.estimated_object.uuid and {c}.estimated_object.semantic_label.label is {p}.estimated_object.semantic_label.label)"
    sg = f"({c}.ground_truth_object.uuid == {p}.ground_truth_object.uuid)"
    return f"({c}.ground_truth_object is not None and {p}.ground_truth_object is not None and ({se} != {sg}))"


def score_init_task(P):
    """TrackingMetricsScore.__init__: the i-th CLEAR is built for the i-th target label from THAT label's history and ground-truth count and the i-th threshold,
    whatever order the dictionaries list the labels in (two labels, both orders)"""
    idx = P.index
    TM = "evaluation.metrics.tracking.tracking_metrics_score"
    AL = idx.lookup("common.label:AutowareLabel")
    MM = idx.lookup(f"{OM}:MatchingMode")
    CLR = idx.lookup(f"{CL}:CLEAR")
    names = [n for n, _ in AL.enum_members(idx)]
    lab = lambda n: member(idx, "common.label:AutowareLabel", n)
    RT2 = TSList(TSList(TSObj("DynamicObjectWithPerceptionResult")))
    ctor = Contract(f"{CL}:CLEAR.__init__", params={},
                    assigns={"self.seen_results": "object_results", "self.seen_num_gt": "num_ground_truth", "self.seen_label": "target_labels[0]",
                             "self.seen_n_labels": "len(target_labels)", "self.seen_mode": "matching_mode", "self.seen_threshold": "matching_threshold_list[0]",
                             "self.seen_n_thresholds": "len(matching_threshold_list)"})
    for order in (("CAR", "PEDESTRIAN"), ("PEDESTRIAN", "CAR")):
        def dicts(it, order=order):
            res = it.ctx.new_cell("dict", ([lab(n) for n in order], [RT2.fresh(it.ctx, "history_" + n) for n in order]))
            num = it.ctx.new_cell("dict", ([lab(n) for n in reversed(order)], [TInt().fresh(it.ctx, "num_gt_" + n) for n in reversed(order)]))
            return res, num
        P.verify(f"{TM}:TrackingMetricsScore.__init__", name=f"TrackingMetricsScore.__init__[dictionaries list {order[0]} first]",
                 contract=Contract(f"{TM}:TrackingMetricsScore.__init__", cut=False,
                                   params={"self": lambda it: it.ctx.new_cell("obj", {}, idx.lookup(f"{TM}:TrackingMetricsScore")),
                                           "object_results_dict": lambda it, order=order: dicts(it, order)[0],
                                           "num_ground_truth_dict": lambda it, order=order: dicts(it, order)[1],
                                           "target_labels": lambda it: it.ctx.new_cell("list", [lab("CAR"), lab("PEDESTRIAN")]),
                                           "matching_mode": TEnum(MM),
                                           "matching_threshold_list": lambda it: it.ctx.new_cell("list", [VReal(it.ctx.fresh("thr_car", R)), VReal(it.ctx.fresh("thr_ped", R))])},
                                   ensures=E("one_clear_per_target_label_in_their_order", "len(self.clears) == 2",
                                             "each_from_its_own_labels_history_count_and_threshold",
                                             " and ".join(f"self.clears[{i}].seen_results is object_results_dict[target_labels[{i}]] and "
                                                          f"self.clears[{i}].seen_num_gt == num_ground_truth_dict[target_labels[{i}]] and "
                                                          f"self.clears[{i}].seen_label is target_labels[{i}] and self.clears[{i}].seen_n_labels == 1 and "
                                                          f"self.clears[{i}].seen_mode is matching_mode and self.clears[{i}].seen_threshold == matching_threshold_list[{i}] and "
                                                          f"self.clears[{i}].seen_n_thresholds == 1" for i in range(2)))),
                 extra_contracts={idx.lookup(f"{CL}:CLEAR.__init__").fq: ctor})


def build(P):
    idx = P.index
    models(P)
    P.min_obligations = 60
    P.install(lambda it: it.spec_funcs.update(opt_value=__import__("contracts.C03", fromlist=["x"]).opt_value))
    add_count_lemmas(P)
    RES = TSObj("DynamicObjectWithPerceptionResult")
    RT = TSList(RES)
    AL = TEnum(idx.lookup("common.label:AutowareLabel"))
    MM = idx.lookup(f"{OM}:MatchingMode")
    CLR = idx.lookup(f"{CL}:CLEAR")
    TPA = idx.lookup("evaluation.metrics.detection.tp_metrics:TPMetricsAp")
    # ---------------------------------------------------------------- the two predicates
    two = {"cur_object_result": RES, "prev_object_result": RES}
    P.verify(f"{CL}:CLEAR._is_same_match", name="CLEAR._is_same_match",
             contract=Contract(f"{CL}:CLEAR._is_same_match", cut=False, params=two,
                               ensures=E("same_match_iff_same_estimated_and_ground_truth_track", "result == " + same_track("cur_object_result", "prev_object_result"))))
    P.verify(f"{CL}:CLEAR._is_id_switched", name="CLEAR._is_id_switched",
             contract=Contract(f"{CL}:CLEAR._is_id_switched", cut=False, params=two,
                               ensures=E("switched_iff_exactly_one_track_is_shared", "result == " + switched("cur_object_result", "prev_object_result"))))

    # ---------------------------------------------------------------- scores
    def make_clear(it, **f):
        o = it.ctx.new_cell("obj", {}, CLR)
        it.ctx.cell(o).update(f)
        return o
    sc = lambda it: make_clear(it, _num_ground_truth=TInt().fresh(it.ctx, "num_gt"), tp=TReal().fresh(it.ctx, "tp"), fp=TReal().fresh(it.ctx, "fp"),
                               id_switch=TInt().fresh(it.ctx, "idsw"), tp_matching_score=TReal().fresh(it.ctx, "score"))
    P.verify(f"{CL}:CLEAR._calculate_score", name="CLEAR._calculate_score",
             contract=Contract(f"{CL}:CLEAR._calculate_score", cut=False, params={"self": sc},
                               requires=E("counts_not_negative", "self._num_ground_truth >= 0 and self.tp >= 0"),
                               ensures=E("mota_is_clamped_ratio", "implies(self._num_ground_truth > 0, result[0] == max(0, (self.tp - self.fp - self.id_switch) / self._num_ground_truth))",
                                         "mota_is_never_negative", "implies(self._num_ground_truth > 0, result[0] >= 0)",
                                         "motp_is_mean_matching_score_over_tp", "implies(self.tp > 0, result[1] == self.tp_matching_score / self.tp)")))
    # ---------------------------------------------------------------- one frame against its predecessor
    CUR, PREV = "cur_object_results", "prev_object_results"
    labelof = lambda r: f"({r}.ground_truth_object.semantic_label.label if {r}.ground_truth_object is not None else {r}.estimated_object.semantic_label.label)"
    thr_none = lambda r: f"uf_bool('thr_none', {labelof(r)}, self._target_labels, self._matching_threshold_list)"
    thr_val = lambda r: f"uf_real('thr', {labelof(r)}, self._target_labels, self._matching_threshold_list)"
    correct = lambda x, r: f"uf_bool('correct', {x}, self._matching_mode, False, {thr_val(r)})"      # x judged at the threshold of the current result r
    cur = lambda k: f"{CUR}[{k}]"
    prv = lambda j: f"{PREV}[{j}]"
    # ghost predicates (defined below, once): hit(k, j) = previous result j is a TP at k's threshold and shares a track with current result k;
    # sw(k, j) = ... and exactly one track is shared
    hit_x = lambda k, j: f"({correct(prv(j), cur(k))} and ({switched(cur(k), prv(j))} or {same_track(cur(k), prv(j))}))"
    sw_x = lambda k, j: switched(cur(k), prv(j))
    hitg, hitd = pred_fn("hit")
    swpg, swpd = pred_fn("sw")
    hit = lambda k, j: f"hit({k}, {j})"
    first = lambda k, j: f"({hit(k, j)} and forall(m, 0, {j}, not {hit(k, 'm')}))"
    SW = lambda k: f"exists(j, 0, len({PREV}), {first(k, 'j')} and sw({k}, j))"
    SAME = lambda k: f"exists(j, 0, len({PREV}), {first(k, 'j')} and not sw({k}, j))"
    considered = lambda k: f"(not {thr_none(cur(k))})"
    now = lambda k: correct(cur(k), cur(k))
    is_tp = lambda k: f"({considered(k)} and (({SAME(k)}) or {now(k)}))"
    is_fp = lambda k: f"({considered(k)} and not ({SAME(k)}) and not {now(k)})"
    is_sw = lambda k: f"({considered(k)} and not ({SAME(k)}) and {now(k)} and ({SW(k)}))"
    tpg, tpd = count_fn("tp_before")
    fpg, fpd = count_fn("fp_before")
    swg, swd = count_fn("switch_before")
    # the matching score a TP contributes (MOTP's numerator): that of the PREVIOUS result when the pairing continues (the first previous TP that shares both tracks),
    # its own otherwise — in the matching mode of this CLEAR
    from pyvc.lemmas import running_total, int_fn
    fhg = int_fn("first_hit", 1)
    fh_def = ("first_hit.def", f"forall(k, 0, len({CUR}), implies(exists(j, 0, len({PREV}), {first('k', 'j')}), 0 <= first_hit(k) and first_hit(k) < len({PREV}) and {first('k', 'first_hit(k)')}))")
    mscore = lambda r: f"uf_real('match_score', {r}, self._matching_mode)"
    score_term = lambda k: f"(({mscore(prv(f'first_hit({k})'))} if ({SAME(k)}) else ({mscore(cur(k))} if {now(k)} else 0.0)) if {considered(k)} else 0.0)"
    scg, scd = running_total("score_before", real=True)
    outer = E("tp_is_number_of_tp_so_far", "tp == tp_before(i)", "fp_is_number_of_fp_so_far", "fp == fp_before(i)",
              "switches_so_far", "num_id_switch == switch_before(i)", "matching_score_of_the_tps_so_far", "tp_matching_score == score_before(i)")
    inner = E("outer_accumulators_unchanged", "tp == tp_before(i) and fp == fp_before(i) and num_id_switch == switch_before(i) and tp_matching_score == score_before(i)",
              "current_result_is_considered", f"0 <= i and i < len({CUR}) and cur_obj_result is {cur('i')} and {considered('i')} and "
                                              f"(matching_threshold_ is not None) and matching_threshold_ == {thr_val(cur('i'))}",
              "no_hit_among_previous_results_seen", f"forall(m, 0, j, not {hit('i', 'm')})",
              "flags_still_clear", "is_same_match == False and is_id_switched == False")
    named_thr = Contract("common.threshold:get_label_threshold", params={}, returns=Opt(TReal()),
                         ensures=E("none_flag", "(result is None) == uf_bool('thr_none', semantic_label.label, target_labels, threshold_list)",
                                   "value", "opt_value(result) == uf_real('thr', semantic_label.label, target_labels, threshold_list)"))
    named_correct = Contract(f"{OR}:DynamicObjectWithPerceptionResult.is_result_correct", params={}, returns=TBool(),
                             ensures=E("named", "result == uf_bool('correct', self, matching_mode, matching_threshold is None, opt_value(matching_threshold))"))
    named_matching = Contract(f"{OR}:DynamicObjectWithPerceptionResult.get_matching", params={}, returns=TSObj("MatchingMethod"),
                              ensures=E("score", "opt_value(result.value) == uf_real('match_score', self, matching_mode)",
                                        "number_when_paired", "implies(self.ground_truth_object is not None, result.value is not None)"))
    cut_same = Contract(f"{CL}:CLEAR._is_same_match", params={}, returns=TBool(), ensures=E("def", "result == " + same_track("cur_object_result", "prev_object_result")))
    cut_sw = Contract(f"{CL}:CLEAR._is_id_switched", params={}, returns=TBool(), ensures=E("def", "result == " + switched("cur_object_result", "prev_object_result")))
    mk = lambda it: make_clear(it, _target_labels=Opt(TSList(AL)).fresh(it.ctx, "targets"), _matching_threshold_list=Opt(TSList(TReal())).fresh(it.ctx, "thresholds"),
                               _matching_mode=TEnum(MM).fresh(it.ctx, "mode"), _tp_metrics=it.ctx.new_cell("obj", {}, TPA))
    n = f"len({CUR})"
    P.verify(f"{CL}:CLEAR._calculate_tp_fp", name="CLEAR._calculate_tp_fp",
             contract=Contract(
                 f"{CL}:CLEAR._calculate_tp_fp", cut=False,
                 params={"self": mk, CUR: RT, PREV: RT},
                 locals={"tp": TReal(), "fp": TReal(), "num_id_switch": TInt(), "tp_matching_score": TReal(), "is_same_match": TBool(), "is_id_switched": TBool(),
                         "is_tp_prev": TBool(), "is_tp_cur": TBool(), "matching_threshold_": Opt(TReal())},
                 ghosts={"tp_before": tpg, "fp_before": fpg, "switch_before": swg, "hit": hitg, "sw": swpg, "first_hit": fhg, "score_before": scg},
                 defs=hitd(hit_x, n, f"len({PREV})") + swpd(sw_x, n, f"len({PREV})") + tpd(is_tp, n) + fpd(is_fp, n) + swd(is_sw, n) + [fh_def] + scd(score_term, n),
                 requires=E("correct_results_are_paired", f"forall(k, 0, {n}, implies({now('k')}, {cur('k')}.ground_truth_object is not None))"),
                 loops={1: LoopSpec(index="i", invariants=outer), 2: LoopSpec(index="j", invariants=inner)},
                 ensures=E("every_considered_result_is_exactly_one_of_tp_fp", f"result[0] == tp_before({n}) and result[1] == fp_before({n})",
                           "id_switches_counted_once_per_tp_whose_pairing_changed", f"result[2] == switch_before({n})",
                           "matching_score_of_a_tp_is_that_of_the_continued_pairing_or_its_own", f"result[3] == score_before({n})")),
             extra_contracts={idx.lookup("common.threshold:get_label_threshold").fq: named_thr,
                              idx.lookup(f"{OR}:DynamicObjectWithPerceptionResult.is_result_correct").fq: named_correct,
                              idx.lookup(f"{OR}:DynamicObjectWithPerceptionResult.get_matching").fq: named_matching,
                              idx.lookup(f"{CL}:CLEAR._is_same_match").fq: cut_same, idx.lookup(f"{CL}:CLEAR._is_id_switched").fq: cut_sw})

    # ---------------------------------------------------------------- CLEAR.__init__: totals over consecutive frame pairs, then the scores
    from pyvc.lemmas import running_total
    OBJ = "object_results"
    CFG = "target_labels, matching_mode, matching_threshold_list"
    SELF_CFG = "self._target_labels, self._matching_mode, self._matching_threshold_list"
    frame_fn = lambda what, cur_, prev_, cfg: f"uf_{'int' if what == 'switch' else 'real'}('frame_{what}', {cur_}, {prev_}, {cfg})"
    named_frame = Contract(f"{CL}:CLEAR._calculate_tp_fp", params={}, returns=TTuple(TReal(), TReal(), TInt(), TReal()),
                           ensures=E("named", " and ".join(f"result[{i}] == {frame_fn(w, 'cur_object_results', 'prev_object_results', SELF_CFG)}"
                                                           for i, w in enumerate(("tp", "fp", "switch", "score")))))
    totals, tdefs = {}, []
    nP = f"max(len({OBJ}) - 1, 0)"          # number of consecutive frame pairs
    for w in ("tp", "fp", "switch", "score"):
        g, d = running_total(f"total_{w}", real=(w != "switch"))
        totals[f"total_{w}"] = g
        tdefs += d(lambda gg, w=w: frame_fn(w, f"{OBJ}[{gg} + 1]", f"{OBJ}[{gg}]", CFG), nP)
    g, d = running_total("total_results")
    totals["total_results"] = g
    tdefs += d(lambda gg: f"len({OBJ}[{gg} + 1])", nP)
    ATTR = {"tp": "tp", "fp": "fp", "switch": "id_switch", "score": "tp_matching_score"}
    inv_init = E(*[x for w, a in ATTR.items() for x in (f"{a}_is_the_total_over_the_frame_pairs_so_far", f"self.{a} == total_{w}(t)")],
                 "number_of_results_so_far", "self.objects_results_num == total_results(t)",
                 "configuration_kept", "self._target_labels is target_labels and self._matching_mode is matching_mode and "
                                       "self._matching_threshold_list is matching_threshold_list and self._num_ground_truth == num_ground_truth",
                 "input_untouched", f"len({OBJ}) == old(len({OBJ})) and forall(k, 0, len({OBJ}), {OBJ}[k] is old({OBJ}[k]))")
    T_ = lambda w: f"total_{w}({nP})"
    P.verify(f"{CL}:CLEAR.__init__", name="CLEAR.__init__",
             contract=Contract(
                 f"{CL}:CLEAR.__init__", cut=False,
                 params={"self": lambda it: it.ctx.new_cell("obj", {}, CLR), OBJ: TSList(RT), "num_ground_truth": TInt(), "target_labels": Opt(TSList(AL)),
                         "matching_mode": TEnum(MM), "matching_threshold_list": Opt(TSList(TReal())),
                         "tp_metrics": lambda it: it.ctx.new_cell("obj", {}, TPA), "metrics_field": NONE},
                 ghosts=totals, defs=tdefs,
                 requires=E("ground_truth_count_not_negative", "num_ground_truth >= 0"),
                 loops={1: LoopSpec(index="t", invariants=inv_init)},
                 modifies=[("attrs", "self")],
                 ensures=E("each_total_sums_every_frame_against_its_predecessor",
                           " and ".join(f"self.{a} == {T_(w)}" for w, a in ATTR.items()) + f" and self.objects_results_num == total_results({nP})",
                           "mota_is_the_clamped_ratio_of_the_totals",
                           f"implies(num_ground_truth > 0, self.mota == max(0, ({T_('tp')} - {T_('fp')} - {T_('switch')}) / num_ground_truth))",
                           "motp_is_the_mean_matching_score_over_tp", f"implies({T_('tp')} != 0, self.motp == {T_('score')} / {T_('tp')})")),
             extra_contracts={idx.lookup(f"{CL}:CLEAR._calculate_tp_fp").fq: named_frame})

    # tp + fp == number of considered results (exactly one of the two), as a lemma over the three counts
    def partition(z3):
        I, B = z3.IntSort(), z3.BoolSort()
        ct, cf, cc = z3.Function("ct", I, I), z3.Function("cf", I, I), z3.Function("cc", I, I)
        cons, same, nowp = z3.Function("cons", I, B), z3.Function("same", I, B), z3.Function("nowp", I, B)
        k = z3.Int("k")
        tpk = z3.And(cons(k), z3.Or(same(k), nowp(k)))
        fpk = z3.And(cons(k), z3.Not(same(k)), z3.Not(nowp(k)))
        hy = [k >= 0, ct(k) + cf(k) == cc(k),
              ct(k + 1) == ct(k) + z3.If(tpk, 1, 0), cf(k + 1) == cf(k) + z3.If(fpk, 1, 0), cc(k + 1) == cc(k) + z3.If(cons(k), 1, 0)]
        return hy, ct(k + 1) + cf(k + 1) == cc(k + 1)
    P.lemma("tp_plus_fp_equals_considered.step", partition)
    P.trust("TPMetricsAp.get_value is 1.0 (inlined from its body); matching scores and correctness are named functions of (result, mode, threshold): C03 / C06")
    P.assume("the TP weight is TPMetricsAp (CLEAR's default); `correct` at a threshold is C03's is_result_correct")
    score_init_task(P)
    P.uncover("TrackingMetricsScore._sum_clear (not in the statement) and the scenario "
              "lemmas (perfect tracker, new id on a continuing target, exchanged identities): native harness only in this build")
