"""C16 native harness (bounded): T4 / nuScenes-format dataset directories are GENERATED (tables written from a scene description), loaded with the
real load_all_datasets for both frame ids and the 3-D tasks, and every loaded frame / object is compared with the generator's own tables."""
import json
import math
import os
import random
import shutil
import struct
import sys
import tempfile
import zlib

from common import main, budget

VIS = [("none", "v0-40"), ("partial", "v40-60"), ("most", "v60-80"), ("full", "v80-100")]
# how the visibility table spells its tokens: T4 style (token = level name), nuScenes style ("1".."4"), hashed; the level is what the annotation means
VIS_TOKENS = {"t4": {t: t for t, _ in VIS}, "nuscenes": {t: str(i + 1) for i, (t, _) in enumerate(VIS)}, "hashed": {t: f"{i + 7:032x}" for i, (t, _) in enumerate(VIS)}}
CATEGORIES = ["car", "truck", "bus", "bicycle", "motorbike", "pedestrian", "animal", "vehicle.car", "human.pedestrian.adult", "movable_object.barrier", "unknown"]
ATTRIBUTES = ["vehicle.moving", "vehicle.parked", "pedestrian.standing", "cycle.with_rider"]


def tok(kind, i):
    return f"{kind}{i:04d}".ljust(32, "0")


def quat(yaw, pitch=0.0, roll=0.0):
    """w, x, y, z of Rz(yaw) * Ry(pitch) * Rx(roll)"""
    cy, sy, cp, sp, cr, sr = math.cos(yaw / 2), math.sin(yaw / 2), math.cos(pitch / 2), math.sin(pitch / 2), math.cos(roll / 2), math.sin(roll / 2)
    return [cr * cp * cy + sr * sp * sy, sr * cp * cy - cr * sp * sy, cr * sp * cy + sr * cp * sy, cr * cp * sy - sr * sp * cy]


def tiny_png(path):
    def chunk(t, d):
        c = struct.pack(">I", len(d)) + t + d
        return c + struct.pack(">I", zlib.crc32(t + d) & 0xFFFFFFFF)
    raw = b"\x00\x00"
    open(path, "wb").write(b"\x89PNG\r\n\x1a\n" + chunk(b"IHDR", struct.pack(">IIBBBBB", 1, 1, 8, 0, 0, 0, 0)) + chunk(b"IDAT", zlib.compress(raw)) + chunk(b"IEND", b""))


def write_dataset(root, case):
    """case: dict(samples=[dict(t, ego=(x,y,yaw), anns=[dict(inst, x, y, z, yaw, size, pts, vis, attrs)])], instances=[category index], lidar_channel)"""
    ann_dir = os.path.join(root, "annotation")
    os.makedirs(ann_dir, exist_ok=True)
    os.makedirs(os.path.join(root, "maps"), exist_ok=True)
    tiny_png(os.path.join(root, "maps", "m.png"))
    T = {}
    T["log"] = [dict(token=tok("log", 0), logfile="gen", vehicle="v", date_captured="2026-01-01", location="singapore-onenorth")]
    T["map"] = [dict(category="semantic_prior", token=tok("map", 0), filename="maps/m.png", log_tokens=[tok("log", 0)])]
    T["category"] = [dict(token=tok("cat", i), name=n, description="") for i, n in enumerate(CATEGORIES)]
    T["attribute"] = [dict(token=tok("att", i), name=n, description="") for i, n in enumerate(ATTRIBUTES)]
    vtok = VIS_TOKENS[case.get("vis_style", "t4")]
    T["visibility"] = [dict(token=vtok[t], level=l, description="") for t, l in VIS] if case.get("visibility", True) else []
    T["sensor"] = [dict(token=tok("sen", 0), channel=case["lidar_channel"], modality="lidar"), dict(token=tok("sen", 1), channel="CAM_FRONT", modality="camera")]
    T["calibrated_sensor"] = [dict(token=tok("cal", 0), sensor_token=tok("sen", 0), translation=[0.0, 0.0, 0.0], rotation=[1.0, 0.0, 0.0, 0.0], camera_intrinsic=[]),
                              dict(token=tok("cal", 1), sensor_token=tok("sen", 1), translation=[1.5, 0.0, 1.2], rotation=quat(0.1), camera_intrinsic=[[1000, 0, 500], [0, 1000, 300], [0, 0, 1]])]
    n = len(case["samples"])
    T["scene"] = [dict(token=tok("scn", 0), log_token=tok("log", 0), nbr_samples=n, first_sample_token=tok("smp", 0), last_sample_token=tok("smp", n - 1), name="scene-gen", description="")]
    T["sample"], T["sample_data"], T["ego_pose"], T["sample_annotation"] = [], [], [], []
    per_inst = {}
    aidx = 0
    for i, s in enumerate(case["samples"]):
        T["sample"].append(dict(token=tok("smp", i), timestamp=s["t"], prev=tok("smp", i - 1) if i else "", next=tok("smp", i + 1) if i + 1 < n else "", scene_token=tok("scn", 0)))
        for k, (chan, cal, ext) in enumerate(((case["lidar_channel"], 0, "pcd.bin"), ("CAM_FRONT", 1, "jpg"))):
            sd = 2 * i + k
            T["ego_pose"].append(dict(token=tok("ego", sd), timestamp=s["t"], rotation=quat(*s["ego"][2:]), translation=[s["ego"][0], s["ego"][1], 0.0]))
            # a sensor sweep is stamped close to, not exactly at, its sample's time stamp (nuScenes schema)
            T["sample_data"].append(dict(token=tok("sdt", sd), sample_token=tok("smp", i), ego_pose_token=tok("ego", sd), calibrated_sensor_token=tok("cal", cal),
                                         timestamp=s["t"] + (1234 if k == 0 else -777) * (1 + i % 3),
                                         fileformat=ext.split(".")[0], is_key_frame=True, height=0 if k == 0 else 600, width=0 if k == 0 else 1000,
                                         filename=f"data/{chan}/{i}.{ext}", prev=tok("sdt", sd - 2) if i else "", next=tok("sdt", sd + 2) if i + 1 < n else "",
                                         sensor_modality="lidar" if k == 0 else "camera", channel=chan))
        for a in s["anns"]:
            rec = dict(token=tok("ann", aidx), sample_token=tok("smp", i), instance_token=tok("ins", a["inst"]), visibility_token=vtok[a["vis"]],
                       attribute_tokens=[tok("att", j) for j in a["attrs"]], translation=[a["x"], a["y"], a["z"]], size=list(a["size"]), rotation=quat(a["yaw"]),
                       prev="", next="", num_lidar_pts=a["pts"], num_radar_pts=0, category_name=CATEGORIES[case["instances"][a["inst"]]])
            if a["inst"] in per_inst:
                prev = per_inst[a["inst"]][-1]
                prev["next"] = rec["token"]
                rec["prev"] = prev["token"]
            per_inst.setdefault(a["inst"], []).append(rec)
            T["sample_annotation"].append(rec)
            a["token"] = rec["token"]
            aidx += 1
    # the ROWS of the sample table need not be in time order (e.g. a later-recorded scene listed first): "dataset order" is the table's order
    r = case.get("rot", 0) % max(n, 1)
    T["sample"] = T["sample"][r:] + T["sample"][:r]
    T["instance"] = [dict(token=tok("ins", j), category_token=tok("cat", c), nbr_annotations=len(per_inst.get(j, [])),
                          first_annotation_token=per_inst[j][0]["token"] if j in per_inst else "", last_annotation_token=per_inst[j][-1]["token"] if j in per_inst else "")
                     for j, c in enumerate(case["instances"])]
    for name, rows in T.items():
        json.dump(rows, open(os.path.join(ann_dir, name + ".json"), "w"))
    for extra in ("object_ann", "surface_ann"):
        json.dump([], open(os.path.join(ann_dir, extra + ".json"), "w"))


def to_ego(a, ego):
    """annotated global pose moved by the inverse ego pose (rotation: yaw, pitch, roll) -> (position, Quaternion)"""
    import numpy as np
    from pyquaternion import Quaternion
    qe = Quaternion(quat(*ego[2:]))
    p = qe.inverse.rotate(np.array([a["x"] - ego[0], a["y"] - ego[1], a["z"]]))
    return p, qe.inverse * Quaternion(quat(a["yaw"]))


def wrap(x):
    return math.atan2(math.sin(x), math.cos(x))


def check(case):
    import numpy as np
    from perception_eval.common.dataset import load_all_datasets
    from perception_eval.common.evaluation_task import EvaluationTask
    from perception_eval.common.label import LabelConverter
    from perception_eval.common.schema import FrameID, Visibility
    root = tempfile.mkdtemp(prefix="c16-")
    try:
        write_dataset(root, case)
        for task in case["tasks"]:
            et = EvaluationTask(task)
            for merge in ([False, True] if case.get("merge") else [False]):
                for frame in ("base_link", "map"):
                    conv = LabelConverter(et, merge, "autoware")
                    oracle = LabelConverter(et, merge, "autoware")
                    frames_ = load_all_datasets([root], et, conv, FrameID.from_value(frame))
                    ctx = f"[{task}, {frame}, merge={merge}]"
                    if len(frames_) != len(case["samples"]):
                        return f"{ctx} {len(frames_)} frames for {len(case['samples'])} samples"
                    nS = len(case["samples"])
                    order = [(k + case.get("rot", 0) % max(nS, 1)) % nS for k in range(nS)]      # frame k is the k-th ROW of the sample table
                    for k, fr in enumerate(frames_):
                        i = order[k]
                        s = case["samples"][i]
                        if fr.unix_time != s["t"] or fr.frame_name != str(k):
                            return f"{ctx} frame {k}: time {fr.unix_time} / name {fr.frame_name}, row {k} of the sample table is the sample stamped {s['t']}"
                        if len(fr.objects) != len(s["anns"]):
                            return f"{ctx} frame {i}: {len(fr.objects)} objects for {len(s['anns'])} annotations"
                        by_uuid = {}
                        for o in fr.objects:
                            by_uuid.setdefault(o.uuid, []).append(o)
                        for a in s["anns"]:
                            objs = by_uuid.get(tok("ins", a["inst"]), [])
                            if len(objs) != 1:
                                return f"{ctx} frame {i}: instance {a['inst']} appears {len(objs)} times"
                            o = objs[0]
                            names = [ATTRIBUTES[j] for j in a["attrs"]]
                            want = oracle.convert_label(CATEGORIES[case["instances"][a["inst"]]], names)
                            if o.semantic_label.label != want.label or list(o.semantic_label.attributes) != names or o.semantic_label.name != CATEGORIES[case["instances"][a["inst"]]]:
                                return f"{ctx} frame {i}: instance {a['inst']} label {o.semantic_label.label}/{o.semantic_label.attributes}, annotation {CATEGORIES[case['instances'][a['inst']]]}/{names}"
                            if tuple(o.state.size) != tuple(a["size"]) or o.pointcloud_num != a["pts"]:
                                return f"{ctx} frame {i}: instance {a['inst']} size {o.state.size} points {o.pointcloud_num}, annotation {a['size']} / {a['pts']}"
                            want_vis = Visibility.from_value(dict(VIS)[a["vis"]]) if case.get("visibility", True) else None
                            if o.visibility != want_vis or (o.visibility is None) != (want_vis is None):
                                return f"{ctx} frame {i}: instance {a['inst']} visibility {o.visibility}, annotation level {a['vis']}"
                            if o.frame_id != FrameID.from_value(frame) or o.unix_time != s["t"]:
                                return f"{ctx} frame {i}: object frame {o.frame_id} / time {o.unix_time}"
                            from pyquaternion import Quaternion as _Q
                            if frame == "map":
                                want_p, want_q = (a["x"], a["y"], a["z"]), _Q(quat(a["yaw"]))
                            else:
                                want_p, want_q = to_ego(a, s["ego"])
                            gq = o.state.orientation
                            if max(abs(o.state.position[k] - want_p[k]) for k in range(3)) > 1e-6 or min(_Q.absolute_distance(gq, want_q), _Q.absolute_distance(gq, -want_q)) > 1e-6:
                                return (f"{ctx} frame {i}: instance {a['inst']} pose {tuple(round(v, 4) for v in o.state.position)} / {gq}, "
                                        f"expected {tuple(round(float(v), 4) for v in want_p)} / {want_q}")
                            # the stored ego->map transform maps the ego pose onto the global pose
                            if frame == "base_link":
                                p, q = fr.transforms.transform((FrameID.BASE_LINK, FrameID.MAP), o.state.position, o.state.orientation)
                                if max(abs(p[0] - a["x"]), abs(p[1] - a["y"]), abs(p[2] - a["z"])) > 1e-6 or abs(wrap(q.yaw_pitch_roll[0] - a["yaw"])) > 1e-6:
                                    return f"{ctx} frame {i}: the frame's ego->map transform sends the ego pose to {tuple(round(v, 4) for v in p)}, annotated global pose is ({a['x']}, {a['y']}, {a['z']})"
                            if task == "tracking" and frame == "map":
                                # poses of the same instance in the preceding samples (within 3 s), most recent first
                                past = [(b["x"], b["y"], b["z"]) for j in range(i - 1, -1, -1) for b in case["samples"][j]["anns"]
                                        if b["inst"] == a["inst"] and s["t"] - case["samples"][j]["t"] <= 3.0e6]
                                got = [tuple(st.position) for st in (o.tracked_path or [])]
                                if len(got) != len(past) or any(max(abs(u - v) for u, v in zip(g, w)) > 1e-6 for g, w in zip(got, past)):
                                    return f"{ctx} frame {i}: instance {a['inst']} tracked positions {got}, its preceding annotations are {past}"
                            if task != "tracking" and o.tracked_path is not None:
                                return f"{ctx} frame {i}: tracked positions present in a {task} task"
        return None
    finally:
        shutil.rmtree(root, ignore_errors=True)


def gen(rng):
    n_inst = rng.randint(0, 5)
    instances = [rng.randrange(len(CATEGORIES)) for _ in range(n_inst)]
    if n_inst >= 2 and rng.random() < 0.4:
        # two instances of one category the label table does not know (each annotation still carries its OWN attributes and name)
        instances[0] = instances[1] = CATEGORIES.index(rng.choice(["movable_object.barrier", "human.pedestrian.adult"]))
    samples = []
    t = 1_600_000_000_000_000
    poses = {j: [rng.uniform(-30, 30), rng.uniform(-30, 30), rng.uniform(-1, 1), rng.uniform(-3, 3)] for j in range(n_inst)}
    for i in range(rng.randint(1, 4)):
        t += rng.choice([100_000, 500_000, 2_000_000])
        ego = (round(rng.uniform(-40, 40), 3), round(rng.uniform(-40, 40), 3), round(rng.uniform(-3.1, 3.1), 3),
               rng.choice([0.0, round(rng.uniform(-0.2, 0.2), 3)]), rng.choice([0.0, round(rng.uniform(-0.1, 0.1), 3)]))
        anns = []
        for j in range(n_inst):
            if rng.random() < 0.75:
                p = poses[j]
                p[0] += rng.uniform(-1, 1); p[1] += rng.uniform(-1, 1); p[3] += rng.uniform(-0.2, 0.2)
                anns.append(dict(inst=j, x=round(p[0], 3), y=round(p[1], 3), z=round(p[2], 3), yaw=round(p[3], 3), size=(round(rng.uniform(0.3, 3), 2), round(rng.uniform(0.3, 12), 2), round(rng.uniform(0.5, 4), 2)),
                                 pts=rng.randint(0, 500), vis=rng.choice([v for v, _ in VIS]), attrs=sorted(rng.sample(range(len(ATTRIBUTES)), rng.randint(0, 2)))))
        samples.append(dict(t=t, ego=ego, anns=anns))
    return dict(samples=samples, instances=instances, lidar_channel=rng.choice(["LIDAR_TOP", "LIDAR_CONCAT"]), visibility=rng.random() < 0.85, vis_style=rng.choice(["t4", "nuscenes", "hashed"]),
                tasks=rng.choice([["detection"], ["tracking"], ["sensing"], ["detection", "tracking"]]), merge=rng.random() < 0.4, rot=rng.choice([0, 0, 1, 2]))


def search(item, seed):
    rng = random.Random((seed or 0) * 19 + 16)
    for _ in range(budget(12)):
        case = gen(rng)
        try:
            why = check(case)
        except Exception as ex:
            import traceback
            why = f"raised {type(ex).__name__}: {ex} | {traceback.format_exc()[-300:]}"
        if why:
            return dict(function="load_all_datasets", input=case, observed=why)
    return None


def replay(payload):
    case = payload["input"]
    for s in case["samples"]:
        s["ego"] = tuple(s["ego"])
        for a in s["anns"]:
            a["size"] = tuple(a["size"])
    why = check(case)
    return (why is None, why or "ok")


if __name__ == "__main__":
    sys.exit(main("C16", search, replay))
