"""C05 native harness: the real CLEAR on small histories (unique ids per frame) against the definitions of the statement."""
import itertools
import random
import sys

from common import main, budget
import build


def mk_results(frame, far=50.0):
    """frame: list of (est_id, est_label, gt_id | None, ok: bool) -> real result objects (ok: within threshold)"""
    from perception_eval.evaluation.result.object_result import DynamicObjectWithPerceptionResult
    out = []
    for i, (eid, lab, gid, ok) in enumerate(frame):
        x = 3.0 * i
        e = build.obj3d(dict(label=lab, x=x, y=0.0, uuid=eid))
        # ground truths are cars (the evaluated label); an estimate reported with another label and paired with a car is filed under "car" by the pipeline and is a
        # result like any other: it is not correct (label policy DEFAULT), hence an FP unless it continues a previous TP pairing
        g = None if gid is None else build.obj3d(dict(label="car", x=x + (0.2 if ok else far) + 0.001 * i, y=0.0, uuid=gid))
        out.append(DynamicObjectWithPerceptionResult(e, g))
    return out


def oracle(history, G):
    tp = fp = sw = 0
    score = 0.0
    prev = None
    for t, frame in enumerate(history):
        if t > 0:
            ptp = [p for p in prev if p[2] is not None and p[3] and p[1] == "car"]
            for (eid, lab, gid, ok) in frame:
                same = gid is not None and any(p[0] == eid and p[1] == lab and p[2] == gid for p in ptp)
                switched = gid is not None and any(((p[0] == eid and p[1] == lab) != (p[2] == gid)) for p in ptp)
                if same:
                    tp += 1
                elif gid is not None and ok and lab == "car":
                    tp += 1
                    if switched:
                        sw += 1
                else:
                    fp += 1
        prev = frame
    mota = float("inf") if G == 0 else max(0.0, (tp - fp - sw) / G)
    return tp, fp, sw, mota


MODES = {"Center Distance": 1.0, "Plane Distance": 1.0, "IoU 2D": 0.3, "IoU 3D": 0.3}      # matching mode -> threshold under which "ok" pairs pass and far ones fail


def run(history, G, mode="Center Distance", want_results=False):
    from perception_eval.common.label import AutowareLabel
    from perception_eval.evaluation.matching.object_matching import MatchingMode
    from perception_eval.evaluation.metrics.tracking.clear import CLEAR
    res = [mk_results(f) for f in history]
    c = CLEAR(res, G, [AutowareLabel.CAR], MatchingMode(mode), [MODES[mode]])
    return (c, res) if want_results else c


def expected_score(history, res, mode):
    """sum over TPs of the matching score IN THIS MODE: of the previous result when the pairing continues (first previous TP sharing both tracks), its own otherwise"""
    from perception_eval.evaluation.matching.object_matching import MatchingMode
    total = 0.0
    for t in range(1, len(history)):
        ptp = [(p, r) for p, r in zip(history[t - 1], res[t - 1]) if p[2] is not None and p[3] and p[1] == "car"]
        for (eid, lab, gid, ok), r in zip(history[t], res[t]):
            same = [pr for p, pr in ptp if gid is not None and p[0] == eid and p[1] == lab and p[2] == gid]
            if same:
                total += same[0].get_matching(MatchingMode(mode)).value
            elif gid is not None and ok and lab == "car":
                total += r.get_matching(MatchingMode(mode)).value
    return total


def check(case):
    history, G = [[tuple(x) for x in f] for f in case["history"]], case["G"]
    mode = case.get("mode", "Center Distance")
    try:
        c, res = run(history, G, mode, want_results=True)
    except Exception as ex:
        return f"CLEAR raised {type(ex).__name__}: {ex}"
    tp, fp, sw, mota = oracle(history, G)
    considered = sum(len(f) for f in history[1:])
    if c.tp + c.fp != considered:
        return f"TP {c.tp} + FP {c.fp} != {considered} results after the initial frame"
    if (c.tp, c.fp, c.id_switch) != (tp, fp, sw):
        return f"CLEAR counts (tp, fp, id switches) = {(c.tp, c.fp, c.id_switch)}, definitions give {(tp, fp, sw)} for history {history}"
    if abs(c.mota - mota) > 1e-9 and not (c.mota == mota):
        return f"MOTA {c.mota} != max(0, (TP - FP - IDsw)/G) = {mota}"
    if c.tp > 0 and abs(c.motp - c.tp_matching_score / c.tp) > 1e-9:
        return "MOTP is not the mean matching score over TPs"
    want_score = expected_score(history, res, mode)
    if abs(c.tp_matching_score - want_score) > 1e-9:
        return f"the TPs' matching scores ({mode}) add up to {want_score}, CLEAR accumulated {c.tp_matching_score}"
    # consistent renaming of track ids leaves the scores unchanged
    ren = lambda s: None if s is None else "r" + s[::-1]
    h2 = [[(ren(e), lab, ren(g), ok) for (e, lab, g, ok) in f] for f in history]
    c2 = run(h2, G, mode)
    if (c2.tp, c2.fp, c2.id_switch) != (c.tp, c.fp, c.id_switch):
        return f"renaming track ids changed the counts: {(c.tp, c.fp, c.id_switch)} -> {(c2.tp, c2.fp, c2.id_switch)}"
    return None


def check_score_init(order):
    """TrackingMetricsScore: the i-th CLEAR belongs to the i-th target label (its history, its ground-truth count, its threshold), whatever order the
    dictionaries list the labels in"""
    from perception_eval.common.label import AutowareLabel
    from perception_eval.evaluation.matching.object_matching import MatchingMode
    from perception_eval.evaluation.metrics.tracking.clear import CLEAR
    from perception_eval.evaluation.metrics.tracking.tracking_metrics_score import TrackingMetricsScore
    from perception_eval.evaluation.result.object_result import DynamicObjectWithPerceptionResult
    def hist(label, off):
        frames_ = []
        for t in range(3):
            e = build.obj3d(dict(label=label, x=2.0 * t, y=0.0, uuid="e" + label))
            g = build.obj3d(dict(label=label, x=2.0 * t + off, y=0.0, uuid="g" + label))
            frames_.append([DynamicObjectWithPerceptionResult(e, g)])
        return frames_
    labels = [AutowareLabel.CAR, AutowareLabel.PEDESTRIAN]
    thr = [0.5, 2.0]
    hists = {AutowareLabel.CAR: hist("car", 1.0), AutowareLabel.PEDESTRIAN: hist("pedestrian", 1.0)}
    gts = {AutowareLabel.CAR: 3, AutowareLabel.PEDESTRIAN: 2}
    res = {l: hists[l] for l in (labels if order == "same" else reversed(labels))}
    num = {l: gts[l] for l in (reversed(labels) if order == "same" else labels)}
    ts = TrackingMetricsScore(res, num, labels, MatchingMode.CENTERDISTANCE, thr)
    if len(ts.clears) != 2:
        return f"{len(ts.clears)} CLEAR scores for 2 target labels"
    for i, l in enumerate(labels):
        want = CLEAR(hists[l], gts[l], [l], MatchingMode.CENTERDISTANCE, [thr[i]])
        c = ts.clears[i]
        if c.target_labels != [l] or (c.tp, c.fp, c.id_switch, c.num_ground_truth) != (want.tp, want.fp, want.id_switch, want.num_ground_truth) or c.matching_threshold_list != [thr[i]]:
            return (f"score {i} (dictionaries listing the labels in {order} order): label {c.target_labels}, threshold {c.matching_threshold_list}, (TP, FP, switches, GT) = "
                    f"{(c.tp, c.fp, c.id_switch, c.num_ground_truth)}; for label {l} at threshold {thr[i]} it is {(want.tp, want.fp, want.id_switch, want.num_ground_truth)}")
    return None


def scenarios():
    yield "perfect tracker", dict(history=[[("a", "car", "A", True), ("b", "car", "B", True)]] * 4, G=6), (6, 0, 0)
    yield "new id on a continuing target", dict(history=[[("a", "car", "A", True)], [("a", "car", "A", True)], [("z", "car", "A", True)], [("z", "car", "A", True)]], G=3), (3, 0, 1)
    yield "two identities exchanged", dict(history=[[("a", "car", "A", True), ("b", "car", "B", True)], [("a", "car", "A", True), ("b", "car", "B", True)],
                                                   [("b", "car", "A", True), ("a", "car", "B", True)], [("b", "car", "A", True), ("a", "car", "B", True)]], G=6), (6, 0, 2)


def search(item, seed):
    from perception_eval.evaluation.metrics.tracking.clear import CLEAR
    for order in ("same", "reversed"):
        why = check_score_init(order)
        if why:
            return dict(function="TrackingMetricsScore", input=dict(order=order), observed=why)
    for name, case, want in scenarios():
        why = check(case)
        if why:
            return dict(function="CLEAR", input=case, observed=f"{name}: {why}")
        c = run([[tuple(x) for x in f] for f in case["history"]], case["G"])
        if (c.tp, c.fp, c.id_switch) != want:
            return dict(function="CLEAR", input=case, observed=f"{name}: counts {(c.tp, c.fp, c.id_switch)}, expected {want}")
    rnd = random.Random(seed * 101 + 9)
    eids, gids = ["a", "b", "c"], ["A", "B", "C", None]
    for _ in range(budget(400)):
        hist = []
        for t in range(rnd.randint(2, 4)):
            es = rnd.sample(eids, rnd.randint(0, 3))
            gs = rnd.sample(["A", "B", "C"], 3)
            frame = []
            for i, e in enumerate(es):
                g = rnd.choice([gs[i], gs[i], None])
                # an unpaired estimate is filed under its own label: only paired estimates may carry another label here
                frame.append((e, rnd.choice(["car", "car", "car", "pedestrian"]) if g is not None else "car", g, rnd.random() < 0.75))
            hist.append(frame)
        case = dict(history=hist, G=rnd.randint(0, 8), mode=rnd.choice(list(MODES)))
        why = check(case)
        if why:
            return dict(function="CLEAR", input=case, observed=why)
    return None


def replay(payload):
    if payload.get("function") == "TrackingMetricsScore":
        why = check_score_init(payload["input"]["order"])
        return (why is None, why or "ok")
    why = check(payload["input"])
    return (why is None, why or "ok")


if __name__ == "__main__":
    sys.exit(main("C05", search, replay))
