"""Discharging obligations: z3 in stages (quantifier-free hypotheses only -> e-matching only -> defaults),
cvc5 on what z3 leaves open.  Verdicts: unsat = discharged, sat = counterexample candidate, unknown."""
from __future__ import annotations

import os
import subprocess
import tempfile
import time

import z3

from .ctx import has_quant


_UMUL = z3.Function("uf_mul", z3.RealSort(), z3.RealSort(), z3.RealSort())
_UDIV = z3.Function("uf_div", z3.RealSort(), z3.RealSort(), z3.RealSort())
_UMULI = z3.Function("uf_muli", z3.IntSort(), z3.IntSort(), z3.IntSort())


def _is_num(t):
    return z3.is_int_value(t) or z3.is_rational_value(t)


def uf_abstract(f, cache, found):
    """replace nonlinear * and / by uninterpreted functions (sound weakening: unsat with UFs implies unsat over the reals)"""
    key = f.get_id()
    if key in cache:
        return cache[key]
    if z3.is_quantifier(f):
        body = uf_abstract(f.body(), cache, found)
        if body.eq(f.body()):
            r = f
        else:
            vs = [z3.Const(f.var_name(i), f.var_sort(i)) for i in range(f.num_vars())]
            b2 = z3.substitute_vars(body, *reversed(vs))
            r = z3.ForAll(vs, b2) if f.is_forall() else (z3.Exists(vs, b2) if f.is_exists() else z3.Lambda(vs, b2))
        cache[key] = r
        return r
    if not z3.is_app(f) or f.num_args() == 0:
        cache[key] = f
        return f
    args = [uf_abstract(a, cache, found) for a in f.children()]
    k = f.decl().kind()
    r = None
    if k == z3.Z3_OP_MUL:
        nn = [a for a in args if not _is_num(a)]
        if len(nn) >= 2:
            found.append(1)
            U = _UMUL if f.sort() == z3.RealSort() else _UMULI
            acc = nn[0]
            for a in nn[1:]:
                acc = U(acc, a)
            for a in args:
                if _is_num(a):
                    acc = a * acc
            r = acc
    elif k == z3.Z3_OP_DIV and not _is_num(args[1]):
        found.append(1)
        r = _UDIV(args[0], args[1])
    if r is None:
        try:
            r = f.decl()(*args) if any(not a.eq(b) for a, b in zip(args, f.children())) else f
        except z3.Z3Exception:
            r = f
    cache[key] = r
    return r


def serialize(o):
    """(qf_smt2 | None, full_smt2, trivially_true); full_smt2 may be a tuple (uf_abstraction, exact)"""
    g = z3.simplify(o.goal)
    if z3.is_true(g):
        return (None, None, True, None)
    ng = z3.Not(o.goal)
    sv = z3.Solver()
    qfh = []
    anyq = False
    for h in o.hyps:
        sv.add(h)
        if has_quant(h):
            anyq = True
        else:
            qfh.append(h)
    sv.add(ng)
    full = sv.to_smt2()
    cache, found = {}, []
    try:
        abst = [uf_abstract(h, cache, found) for h in o.hyps] + [uf_abstract(ng, cache, found)]
    except Exception:
        found = []
    if found:
        sa = z3.Solver()
        sa.add(*abst)
        full = (sa.to_smt2(), full)
    sr = z3.Solver()
    sr.add(*o.hyps)
    sr.add(o.goal)
    refute = sr.to_smt2()
    qf = None
    if anyq:
        sq = z3.Solver()
        sq.add(*qfh)
        sq.add(ng)
        qf = sq.to_smt2()
    return (qf, full, False, refute)


def _z3_check(smt, timeout_ms, opts):
    s = z3.Solver()
    s.set("timeout", timeout_ms)
    for k, v in opts.items():
        s.set(k, v)
    s.from_string(smt)
    r = s.check()
    model = None
    reason = ""
    if r == z3.sat:
        try:
            m = s.model()
            # constants only: function interpretations are large and not needed for replay
            parts = []
            for d in m.decls():
                if d.arity() == 0:
                    parts.append(f"(define-fun {d.name()} () {d.range().sexpr()} {m[d].sexpr()})")
            model = "\n".join(parts)
        except Exception:
            model = None
    elif r == z3.unknown:
        reason = s.reason_unknown()
    return str(r), model, reason


def _cvc5_check(smt, timeout_ms):
    exe = "/usr/bin/cvc5"
    if not os.path.exists(exe):
        return "unknown", "cvc5 missing"
    text = "(set-logic ALL)\n" + smt
    with tempfile.NamedTemporaryFile("w", suffix=".smt2", delete=False) as f:
        f.write(text)
        path = f.name
    try:
        p = subprocess.run([exe, "--lang", "smt2", f"--tlimit={timeout_ms}", "--strings-exp", path],
                           capture_output=True, text=True, timeout=timeout_ms / 1000 + 10)
        out = p.stdout.strip().splitlines()
        r = out[0].strip() if out else "unknown"
        if r not in ("sat", "unsat", "unknown"):
            return "unknown", (p.stdout + p.stderr)[:300]
        return r, ""
    except subprocess.TimeoutExpired:
        return "unknown", "timeout"
    finally:
        os.unlink(path)


EMATCH_PORTFOLIO = [{"smt.relevancy": 0}, {"smt.random_seed": 1}, {"smt.random_seed": 2, "smt.qi.eager_threshold": 100.0},
                    {"smt.relevancy": 0, "smt.random_seed": 3, "smt.qi.eager_threshold": 100.0}]


def solve_one(job):
    """job = (idx, qf_smt2, full_smt2, trivial, timeout_ms, use_cvc5, both)"""
    idx, qf, full, trivial, timeout_ms, use_cvc5, both = job[:7]
    expect = job[7] if len(job) > 7 else "unsat"
    refute = job[8] if len(job) > 8 else None
    if expect == "sat":
        timeout_ms = min(timeout_ms, 2000)      # vacuity canaries: a model or "unknown" is fine, only "unsat" is an error
    t = time.time()
    if trivial:
        return dict(idx=idx, verdict="unsat", backend="simplifier", stage="syntactic", time_s=0.0, model=None, reason="")
    if len(job) > 9 and job[9] and time.time() > job[9]:
        return dict(idx=idx, verdict="unknown", backend="-", stage="not-attempted", time_s=0.0, model=None, reason="the solving budget of this check was used up before this obligation was reached")
    verdict, model, reason, stage = "unknown", None, "", ""
    backend_override, early_cvc5 = None, None
    stages = []
    if isinstance(full, tuple):
        stages.append(("uf-abstraction", full[0], {}))
        full = full[1]
    if qf is not None:
        stages.append(("qf-only", qf, {}))
        stages.append(("ematch", full, {"smt.mbqi": False, "smt.auto_config": False}))
    stages.append(("full", full, {}))
    for stage, smt, opts in stages:
        try:
            # the cheap abstractions get a short budget; e-matching and the full run the whole budget each (a proof found by
            # e-matching in a second must not be lost to a slow machine)
            budget = timeout_ms if stage == "full" else min(timeout_ms, 5000) if stage == "ematch" else min(timeout_ms, 3000)
            verdict, model, reason = _z3_check(smt, budget, opts)
            if stage == "ematch" and verdict != "unsat" and expect == "unsat":
                # e-matching gives up ("incomplete quantifiers") within milliseconds, or wanders off, depending on relevancy filtering and the
                # instantiation order; a small portfolio of configurations makes the verdict independent of such accidents. The default
                # configuration gets a short first pass, then the portfolio, then the whole budget (a proof found by e-matching must not be lost to a slow machine)
                for extra in EMATCH_PORTFOLIO + [None]:
                    if extra is None:
                        if timeout_ms <= 5000:
                            break
                        v2, m2, r2 = _z3_check(smt, timeout_ms, opts)
                    else:
                        v2, m2, r2 = _z3_check(smt, min(timeout_ms, 6000), dict(opts, **extra))
                    if v2 == "unsat":
                        verdict, model, reason = v2, m2, r2
                        break
        except z3.Z3Exception as ex:
            verdict, model, reason = "unknown", None, f"z3 exception: {ex}"
        if verdict == "unsat":
            break
        if stage == "ematch" and use_cvc5 and expect == "unsat":
            # cvc5's enumerative instantiation often closes in a second what z3's MBQI stage then spends its whole budget on
            r5, why5 = _cvc5_check(full, min(timeout_ms, 8000))
            early_cvc5 = r5
            if r5 == "unsat":
                verdict, model, reason, stage = "unsat", None, why5, "cvc5-early"
                backend_override = "cvc5"
                break
        if verdict == "sat" and stage == "full":
            break
        if verdict == "sat" and stage == "qf-only":
            # sat with fewer hypotheses proves nothing; continue
            verdict = "unknown"
        if verdict == "sat" and stage in ("ematch", "uf-abstraction"):
            verdict = "unknown"
    backend = backend_override or "z3"
    if verdict == "unknown" and refute is not None and expect == "unsat":
        # is the goal *contradicted* by the path condition?  (hyps and goal) unsat  ==>  the obligation fails on every state of this path
        try:
            v2, _, _ = _z3_check(refute, min(timeout_ms, 5000), {"smt.mbqi": False, "smt.auto_config": False})
            if v2 != "unsat":
                v2, _, _ = _z3_check(refute, min(timeout_ms, 5000), {})
        except z3.Z3Exception:
            v2 = "unknown"
        if v2 == "unsat":
            verdict, reason, stage = "sat", "the goal contradicts the path condition (hypotheses and goal are jointly unsatisfiable)", "refuted"
    out = dict(idx=idx, verdict=verdict, backend=backend, stage=stage, time_s=round(time.time() - t, 3), model=model, reason=reason)
    if (verdict == "unknown" and use_cvc5) or both:
        r, why = _cvc5_check(full, timeout_ms)
        out["cvc5"] = r
        if verdict == "unknown" and r in ("unsat", "sat"):
            out.update(verdict=r, backend="cvc5", stage="full", reason=why)
        elif both and r in ("sat", "unsat") and verdict in ("sat", "unsat") and r != verdict:
            out.update(verdict="unknown", reason=f"solver disagreement z3={verdict} cvc5={r}")
        out["time_s"] = round(time.time() - t, 3)
    return out
