"""Symbolic values and type descriptors of the VC generator.

A Python value is represented with a *concrete spine* wherever the code makes the spine concrete
(tuples, list/dict literals, objects allocated on the path, enum members, constants) and by SMT
terms at the leaves.  Unbounded data (lists of unknown length, objects reached through them) lives
in an SMT heap: `VSList` / `VSObj` are references (Int) into maps `len`, `item`, `field`.
"""
from __future__ import annotations

import itertools

import z3

I, R, B, S = z3.IntSort(), z3.RealSort(), z3.BoolSort(), z3.StringSort()


class EngineError(Exception):
    """the engine cannot read / encode something: exit 3, never a pass, never a violation"""


def zconst(z):
    """python constant of a z3 term if it is a literal, else None"""
    if z3.is_true(z):
        return True
    if z3.is_false(z):
        return False
    if z3.is_int_value(z):
        return z.as_long()
    if z3.is_rational_value(z):
        from fractions import Fraction
        return Fraction(z.numerator_as_long(), z.denominator_as_long())
    if z3.is_string_value(z):
        return z.as_string()
    return None


class Val:
    kind = "?"


class VNoneT(Val):
    kind = "none"

    def __repr__(self):
        return "None"


NONE = VNoneT()


class VBool(Val):
    kind = "bool"

    def __init__(self, z):
        if isinstance(z, bool):
            z = z3.BoolVal(z)
        self.z = z

    @property
    def const(self):
        if z3.is_true(self.z):
            return True
        if z3.is_false(self.z):
            return False
        return None

    def __repr__(self):
        return f"VBool({self.z})"


class VInt(Val):
    kind = "int"

    def __init__(self, z):
        if isinstance(z, int):
            z = z3.IntVal(z)
        self.z = z

    @property
    def const(self):
        return self.z.as_long() if z3.is_int_value(self.z) else None

    def __repr__(self):
        return f"VInt({self.z})"


class VReal(Val):
    kind = "real"

    def __init__(self, z, special=None):
        if isinstance(z, (int, float)):
            z = z3.RealVal(repr(float(z)) if isinstance(z, float) else z)
        self.z = z
        self.special = special   # None | 'nan' | 'inf' | '-inf'  (sentinel floats used by the code)

    @property
    def const(self):
        if self.special:
            return None
        return zconst(self.z) if z3.is_rational_value(self.z) else None

    def __repr__(self):
        return f"VReal({self.special or self.z})"


class VStr(Val):
    kind = "str"

    def __init__(self, z):
        if isinstance(z, str):
            z = z3.StringVal(z)
        self.z = z

    @property
    def const(self):
        return self.z.as_string() if z3.is_string_value(self.z) else None

    def __repr__(self):
        return f"VStr({self.z})"


class VEnum(Val):
    """member of a repository Enum class; idx is the position in the class body (int or z3 Int)"""
    kind = "enum"

    def __init__(self, ecls, idx):
        self.ecls, self.idx = ecls, idx

    @property
    def const(self):
        if isinstance(self.idx, int):
            return self.idx
        if z3.is_int_value(self.idx):
            return self.idx.as_long()
        return None

    @property
    def z(self):
        return z3.IntVal(self.idx) if isinstance(self.idx, int) else self.idx

    def __repr__(self):
        return f"VEnum({self.ecls.name}#{self.idx})"


class VTuple(Val):
    kind = "tuple"

    def __init__(self, items):
        self.items = tuple(items)

    def __repr__(self):
        return f"VTuple{self.items}"


class VRef(Val):
    """reference into the concrete heap: rkind in list|dict|obj|set"""
    kind = "ref"

    def __init__(self, rkind, addr, cls=None):
        self.rkind, self.addr, self.cls = rkind, addr, cls

    def __repr__(self):
        return f"VRef({self.rkind}@{self.addr}{':' + self.cls.name if self.cls else ''})"


class VSList(Val):
    """reference to a list in the SMT heap; ref 0 is None when nullable"""
    kind = "slist"

    def __init__(self, z, elem, nullable=False):
        self.z, self.elem, self.nullable = z, elem, nullable

    def __repr__(self):
        return f"VSList({self.z}:{self.elem})"


class VSObj(Val):
    """reference to an object in the SMT heap (class model `cname`); ref 0 is None when nullable"""
    kind = "sobj"

    def __init__(self, z, cname, nullable=False):
        self.z, self.cname, self.nullable = z, cname, nullable

    def __repr__(self):
        return f"VSObj({self.z}:{self.cname})"


class VOpt(Val):
    """optional scalar: `isnone` (z3 Bool) and the payload used when it is not None"""
    kind = "opt"

    def __init__(self, isnone, inner):
        self.isnone, self.inner = isnone, inner

    def __repr__(self):
        return f"VOpt({self.isnone},{self.inner})"


class VOpaque(Val):
    """value of an abstract sort (numpy array, Polygon, Quaternion, ...) known only through externals"""
    kind = "opaque"

    def __init__(self, tag, z=None, data=None):
        self.tag, self.z, self.data = tag, z, data or {}

    def __repr__(self):
        return f"VOpaque({self.tag},{self.z})"


class VClass(Val):
    kind = "class"

    def __init__(self, cls):
        self.cls = cls    # ClassInfo | str (builtin / external class name)

    def __repr__(self):
        return f"VClass({self.cls})"


class VFunc(Val):
    kind = "func"

    def __init__(self, fi, self_val=None, closure=None):
        self.fi, self.self_val, self.closure = fi, self_val, closure

    def __repr__(self):
        return f"VFunc({self.fi})"


class VLambda(Val):
    kind = "lambda"

    def __init__(self, node, frame, module):
        self.node, self.frame, self.module = node, frame, module


class VModule(Val):
    kind = "module"

    def __init__(self, mod):
        self.mod = mod   # ModuleInfo | External


class VExt(Val):
    """external / builtin callable or attribute, by dotted name; bound receiver optional"""
    kind = "ext"

    def __init__(self, dotted, recv=None):
        self.dotted, self.recv = dotted, recv

    def __repr__(self):
        return f"VExt({self.dotted})"


class VMaybe(Val):
    """local bound on some merged branches only: `defined` is the condition under which it is bound"""
    kind = "maybe"

    def __init__(self, defined, inner):
        self.defined, self.inner = defined, inner


class VSpecFn(Val):
    """ghost function usable in spec expressions: fn(interp, [Val]) -> Val"""
    kind = "specfn"

    def __init__(self, fn, name="ghost"):
        self.fn, self.name = fn, name


class VExc(Val):
    kind = "exc"

    def __init__(self, cname, args=()):
        self.cname, self.args = cname, args

    def __repr__(self):
        return f"VExc({self.cname})"


class VNotImplemented(Val):
    kind = "notimpl"


NOTIMPL = VNotImplemented()


# ----------------------------------------------------------------------------------- type descriptors
class T:
    nullable = False

    def comps(self):
        """[(path, sort)] of the SMT components of a value of this type"""
        raise NotImplementedError

    def pack(self, v, ctx):
        raise NotImplementedError

    def unpack(self, zs):
        raise NotImplementedError

    def fresh(self, ctx, name):
        zs = [ctx.fresh(name + p, s) for p, s in self.comps()]
        v = self.unpack(zs)
        for f in self.facts(v, ctx):
            ctx.assume(f)
        return v

    def facts(self, v, ctx):
        return []


class TInt(T):
    def comps(self): return [("", I)]
    def pack(self, v, ctx):
        if v.kind == "bool":
            return [z3.If(v.z, 1, 0)]
        if v.kind != "int":
            raise EngineError(f"expected int, got {v}")
        return [v.z]
    def unpack(self, zs): return VInt(zs[0])
    def __repr__(self): return "int"


class TReal(T):
    def comps(self): return [("", R)]
    def pack(self, v, ctx):
        if v.kind == "int":
            return [z3.ToReal(v.z)]
        if v.kind != "real" or v.special:
            raise EngineError(f"expected real, got {v}")
        return [v.z]
    def unpack(self, zs): return VReal(zs[0])
    def __repr__(self): return "real"


class TBool(T):
    def comps(self): return [("", B)]
    def pack(self, v, ctx):
        if v.kind != "bool":
            raise EngineError(f"expected bool, got {v}")
        return [v.z]
    def unpack(self, zs): return VBool(zs[0])
    def __repr__(self): return "bool"


class TStr(T):
    def comps(self): return [("", S)]
    def pack(self, v, ctx):
        if v.kind != "str":
            raise EngineError(f"expected str, got {v}")
        return [v.z]
    def unpack(self, zs): return VStr(zs[0])
    def __repr__(self): return "str"


class TEnum(T):
    def __init__(self, ecls, nullable=False):
        self.ecls, self.nullable = ecls, nullable   # ClassInfo ; nullable: idx -1 is None
    def comps(self): return [("", I)]
    def pack(self, v, ctx):
        if v.kind == "none" and self.nullable:
            return [z3.IntVal(-1)]
        if v.kind != "enum" or v.ecls is not self.ecls:
            raise EngineError(f"expected {self.ecls.name}, got {v}")
        return [v.z]
    def unpack(self, zs):
        return VEnum(self.ecls, zs[0])
    def facts(self, v, ctx):
        n = len(ctx.enum_members(self.ecls))
        return [z3.And((-1 if self.nullable else 0) <= v.z, v.z < n)]
    def __repr__(self): return f"enum {self.ecls.name}"


class TTuple(T):
    def __init__(self, *ts): self.ts = ts
    def comps(self):
        return [(f".{k}{p}", s) for k, t in enumerate(self.ts) for p, s in t.comps()]
    def pack(self, v, ctx):
        if v.kind != "tuple" or len(v.items) != len(self.ts):
            raise EngineError(f"expected {len(self.ts)}-tuple, got {v}")
        return [z for t, x in zip(self.ts, v.items) for z in t.pack(x, ctx)]
    def unpack(self, zs):
        out, k = [], 0
        for t in self.ts:
            n = len(t.comps())
            out.append(t.unpack(zs[k:k + n]))
            k += n
        return VTuple(out)
    def facts(self, v, ctx):
        return [f for t, x in zip(self.ts, v.items) for f in t.facts(x, ctx)]
    def __repr__(self): return f"tuple{self.ts}"


_TYPE_TAGS = {}
REF_TYPE = z3.Function("ref_type", I, I)      # dynamic type tag of a heap reference: differently typed objects never alias


def type_tag(desc):
    if desc not in _TYPE_TAGS:
        _TYPE_TAGS[desc] = len(_TYPE_TAGS) + 1
    return _TYPE_TAGS[desc]


class TSList(T):
    def __init__(self, elem, nullable=False): self.elem, self.nullable = elem, nullable
    def tag(self): return type_tag("list:" + repr(self.elem).replace("opt[", "").replace("]", ""))
    def comps(self): return [("", I)]
    def pack(self, v, ctx):
        if v.kind == "none":
            return [z3.IntVal(0)]
        if v.kind != "slist":
            raise EngineError(f"expected SMT list, got {v}")
        return [v.z]
    def unpack(self, zs): return VSList(zs[0], self.elem, self.nullable)
    def facts(self, v, ctx):
        t = REF_TYPE(v.z) == self.tag()
        return [z3.Or(v.z == 0, t)] if self.nullable else [v.z != 0, t]
    def __repr__(self): return f"list[{self.elem}]"


class TSObj(T):
    def __init__(self, cname, nullable=False): self.cname, self.nullable = cname, nullable
    def comps(self): return [("", I)]
    def pack(self, v, ctx):
        if v.kind == "none":
            return [z3.IntVal(0)]
        if v.kind != "sobj":
            raise EngineError(f"expected SMT object {self.cname}, got {v}")
        return [v.z]
    def unpack(self, zs): return VSObj(zs[0], self.cname, self.nullable)
    def tag(self): return type_tag("obj:" + self.cname)
    def facts(self, v, ctx):
        t = REF_TYPE(v.z) == self.tag()
        return [z3.Or(v.z == 0, t)] if self.nullable else [v.z != 0, t]
    def __repr__(self): return f"obj {self.cname}"


class TOpt(T):
    """optional scalar (int/real/bool/str/tuple of those)"""
    def __init__(self, inner): self.inner = inner
    def comps(self): return self.inner.comps() + [("?", B)]
    def pack(self, v, ctx):
        if v.kind == "none":
            return [ctx.default_of(s) for _, s in self.inner.comps()] + [z3.BoolVal(True)]
        if v.kind == "opt":
            return self.inner.pack(v.inner, ctx) + [v.isnone]
        return self.inner.pack(v, ctx) + [z3.BoolVal(False)]
    def unpack(self, zs): return VOpt(zs[-1], self.inner.unpack(zs[:-1]))
    def facts(self, v, ctx): return [z3.Implies(z3.Not(v.isnone), f) for f in self.inner.facts(v.inner, ctx)]
    def __repr__(self): return f"opt[{self.inner}]"


class TOpaque(T):
    """value of an uninterpreted sort, e.g. a numpy array handled only by externals"""
    def __init__(self, tag, sort=None): self.tag, self.sort = tag, sort or I
    def comps(self): return [("", self.sort)]
    def pack(self, v, ctx): return [v.z]
    def unpack(self, zs): return VOpaque(self.tag, zs[0])
    def __repr__(self): return f"opaque {self.tag}"


def Opt(t):
    """nullable version of a type descriptor"""
    if isinstance(t, TSList):
        return TSList(t.elem, nullable=True)
    if isinstance(t, TSObj):
        return TSObj(t.cname, nullable=True)
    if isinstance(t, TEnum):
        return TEnum(t.ecls, nullable=True)
    return TOpt(t)
