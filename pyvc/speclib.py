"""Generic spec functions available to every contract: uninterpreted functions of arbitrary arguments."""
import z3
from .values import *


def _zs(interp, vals):
    zs = []
    for v in vals:
        if v.kind == "none":
            zs.append(z3.IntVal(0))
        elif v.kind == "class":
            name = v.cls if isinstance(v.cls, str) else v.cls.name
            zs.append(z3.IntVal(sum((i + 1) * ord(ch) for i, ch in enumerate(name))))
        elif v.kind == "enum":
            zs.append(v.z)
        elif v.kind == "tuple":
            zs.extend(_zs(interp, v.items))
        elif v.kind == "opt":
            zs.extend([v.isnone] + _zs(interp, [v.inner]))
        elif getattr(v, "z", None) is not None:
            zs.append(v.z)
        else:
            raise EngineError(f"uf argument {v}")
    return zs


def _uf(sort, wrap):
    def f(interp, e, fr):
        name = interp.ev(e.args[0], fr).const
        zs = _zs(interp, [interp.ev(a, fr) for a in e.args[1:]])
        fn = z3.Function("uf_" + name, *[z.sort() for z in zs], sort)
        return wrap(fn(*zs))
    return f


SPEC_FUNCS = {"uf_bool": _uf(B, VBool), "uf_real": _uf(R, VReal), "uf_int": _uf(I, VInt)}
