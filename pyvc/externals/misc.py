"""small library calls that are opaque to the heap model"""
import z3
from ..values import *


def _deepcopy_unsupported(interp, args, kwargs, node):
    raise EngineError("copy.deepcopy needs a per-class model")


def _noop(interp, args, kwargs, node):
    return NONE


def _tqdm(interp, args, kwargs, node):
    return args[0]


def _shallow_copy(interp, args, kwargs, node):
    """copy.copy(obj): a new object of the same class whose fields hold the same values (shallow)"""
    import z3
    from ..values import REF_TYPE, TSObj
    o = args[0]
    if o.kind == "sobj":
        cm = interp.class_models[o.cname]
        r = interp.ctx.new_sref("copy_" + o.cname)
        interp.ctx.assume(REF_TYPE(r) == TSObj(o.cname).tag())
        new = VSObj(r, o.cname)
        for fname, t in cm.fields.items():
            for (p, srt) in t.comps():
                m = interp.ctx.field_map(o.cname, fname, p, srt)
                interp.ctx.sheap[("f", o.cname, fname, p)] = z3.Store(m, r, z3.Select(m, o.z))
        return new
    if o.kind == "ref" and o.rkind == "obj":
        return interp.ctx.new_cell("obj", dict(interp.ctx.cell(o)), o.cls)
    if o.kind == "ref" and o.rkind == "list":
        return interp.ctx.new_cell("list", list(interp.ctx.cell(o)))
    if o.kind == "slist":
        return interp.slist_copy(o, node)
    raise EngineError(f"copy.copy of {o}")


def _signature(interp, args, kwargs, node):
    c = args[0]
    if c.kind != "class" or isinstance(c.cls, str):
        raise EngineError("inspect.signature of a non-repository class")
    return VOpaque("signature", data={"cls": c.cls})


def _sig_parameters(interp, o, node):
    """parameter names of the class's __init__ (without self), read from the AST"""
    init = o.data["cls"].find_method(interp.index, "__init__")
    a = init.node.args
    names = [p.arg for p in a.posonlyargs + a.args][1:] + [p.arg for p in a.kwonlyargs]
    return interp.ctx.new_cell("dict", ([VStr(n) for n in names], [NONE for _ in names]))


HANDLERS = {
    "inspect.signature": (_signature, "inspect.signature(cls).parameters are the parameters of cls.__init__ (read from the AST)"),
    "copy.copy": (_shallow_copy, "copy.copy(x) is a new object of the same class with the same field values"),
    "tqdm.tqdm": (_tqdm, "tqdm(x) iterates x"),
    "os.makedirs": (_noop, "filesystem call, outside the heap model"),
}
ATTRS = {("signature", "parameters"): _sig_parameters}
