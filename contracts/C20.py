"""C20 — configuration strings parse to the enum member they name.

Top-level postconditions are taken from the property statement:
  for every member m:  parse(m.value) is m   (and parse(str(m)) is m where the class prints its value);
  documented case variants (FrameID: upper case accepted; MatchingLabelPolicy: lower case accepted);
  any other string: rejected (ValueError / AssertionError) or the documented fallback;
  string-or-enum arguments (Shape, TransformKey, HomogeneousMatrix labels) behave identically.
The member tables are read from the class bodies on every run; `name` is a symbolic string.
"""
from pyvc.api import *

SCHEMA = "common.schema"


def enum_parser(P, target, cls_spec, cls_name, *, keyed="name == m.value", extra_ensures=(), raises=None,
                fallback=None, has_str=True):
    idx = P.index
    ens = [
        ("value_parses_to_its_member", f"all([implies({keyed}, result is m) for m in {cls_name}])"),
        ("result_is_a_member", f"isinstance(result, {cls_name})"),
    ]
    if keyed != "name == m.value":
        ens.append(("own_value_parses_to_its_member", f"all([implies(name == m.value, result is m) for m in {cls_name}])"))
    if has_str:
        ens.append(("printed_form_parses_back", f"all([implies(name == str(m), result is m) for m in {cls_name}])"))
    if fallback:
        ens.append(("non_member_maps_to_fallback", fallback))
    else:
        ens.append(("non_member_never_returns", f"any([{keyed} for m in {cls_name}])"))
    ens += list(extra_ensures)
    P.contract(Contract(target, params={"cls": const_class(idx, cls_spec), "name": TStr()},
                        returns=TEnum(idx.lookup(cls_spec)), ensures=ens, raises=raises or {}))


def build(P):
    idx = P.index
    P.min_obligations = 40
    none_named = lambda cls, keyed="name == m.value": f"not any([{keyed} or name == m.value for m in {cls}])"

    enum_parser(P, "common.evaluation_task:EvaluationTask.from_value", "common.evaluation_task:EvaluationTask", "EvaluationTask",
                raises={"ValueError": none_named("EvaluationTask")})
    enum_parser(P, f"{SCHEMA}:FrameID.from_value", f"{SCHEMA}:FrameID", "FrameID", keyed="lower(name) == m.value",
                raises={"ValueError": none_named("FrameID", "lower(name) == m.value")})
    enum_parser(P, f"{SCHEMA}:Visibility.from_value", f"{SCHEMA}:Visibility", "Visibility",
                fallback="implies(not any([name == m.value for m in Visibility]), result is ("
                         "Visibility.NONE if name == 'v0-40' else Visibility.PARTIAL if name == 'v40-60' else "
                         "Visibility.MOST if name == 'v60-80' else Visibility.FULL if name == 'v80-100' else Visibility.UNAVAILABLE))")
    enum_parser(P, f"{SCHEMA}:SensorModality.from_value", f"{SCHEMA}:SensorModality", "SensorModality",
                raises={"ValueError": none_named("SensorModality")})
    enum_parser(P, "common.shape:ShapeType.from_value", "common.shape:ShapeType", "ShapeType",
                raises={"ValueError": none_named("ShapeType")})
    # label policy: documented spelling is the member name, lower case accepted (docs: `name.upper()`)
    P.contract(Contract("evaluation.matching.object_matching:MatchingLabelPolicy.from_str",
                        params={"cls": const_class(idx, "evaluation.matching.object_matching:MatchingLabelPolicy"), "name": TStr()},
                        returns=TEnum(idx.lookup("evaluation.matching.object_matching:MatchingLabelPolicy")),
                        ensures=E("value_parses_to_its_member", "all([implies(name == m.value, result is m) for m in MatchingLabelPolicy])",
                                  "lower_case_accepted", "all([implies(name == m.value.lower(), result is m) for m in MatchingLabelPolicy])",
                                  "printed_form_parses_back", "all([implies(name == str(m), result is m) for m in MatchingLabelPolicy])",
                                  "result_is_a_member", "isinstance(result, MatchingLabelPolicy)",
                                  "non_member_never_returns", "any([name.upper() == m.value for m in MatchingLabelPolicy])"),
                        raises={"AssertionError": "not any([name.upper() == m.value or name == str(m) for m in MatchingLabelPolicy])"}))
    # set_task_lists: the list form - one member per member name, in the order of the names (other strings are skipped)
    from pyvc.lemmas import count_fn, add_count_lemmas
    add_count_lemmas(P)
    NAMES = "evaluation_tasks_str"
    is_name = lambda k: f"any([{NAMES}[{k}] == m.value for m in EvaluationTask])"
    gm, dm = count_fn("names_before", step_trigger=True)
    TL = TSList(TEnum(idx.lookup("common.evaluation_task:EvaluationTask")))
    at = lambda lst, k: f"all([implies({NAMES}[{k}] == m.value, {lst}[names_before({k})] is m) for m in EvaluationTask])"
    P.verify("common.evaluation_task:set_task_lists", name="set_task_lists",
             contract=Contract("common.evaluation_task:set_task_lists", cut=False, params={NAMES: TSList(TStr())}, returns=TL, locals={"task_lists": TL},
                               ghosts={"names_before": gm}, defs=dm(is_name, f"len({NAMES})"),
                               loops={1: LoopSpec(index="i", invariants=E(
                                   "one_member_per_member_name_so_far", f"not is_old(task_lists) and allocated(task_lists) and len(task_lists) == names_before(i)",
                                   "in_the_order_of_the_names", f"forall(k, 0, i, {at('task_lists', 'k')})",
                                   "input_untouched", f"len({NAMES}) == old(len({NAMES})) and forall(k, 0, len({NAMES}), {NAMES}[k] == old({NAMES}[k]))"))},
                               ensures=E("one_member_per_member_name", f"len(result) == names_before(len({NAMES}))",
                                         "the_kth_member_name_gives_the_kth_member", f"forall(k, 0, len({NAMES}), {at('result', 'k')})")))
    # set_task: held to the round trip only (its None for unknown strings is guarded by _check_tasks)
    P.contract(Contract("common.evaluation_task:set_task", params={"task_name": TStr()},
                        ensures=E("value_parses_to_its_member", "all([implies(task_name == m.value, result is m) for m in EvaluationTask])",
                                  "member_or_none", "result is None or isinstance(result, EvaluationTask)",
                                  "none_only_for_non_members", "implies(result is None, not any([task_name == m.value for m in EvaluationTask]))")),
               )

    # ---- string-or-enum call sites: identical behaviour for both spellings
    ShapeCls = idx.lookup("common.shape:Shape")
    new_shape = lambda it: it.ctx.new_cell("obj", {}, ShapeCls)
    footprint = lambda it: VOpaque("polygon", it.ctx.fresh("footprint", I))
    size = lambda it: VTuple([VReal(it.ctx.fresh(n, R)) for n in ("w", "l", "h")])
    P.verify("common.shape:Shape.__init__", name="Shape.__init__[str]",
             contract=Contract("common.shape:Shape.__init__", cut=False,
                               params={"self": new_shape, "shape_type": TStr(), "size": size, "footprint": footprint},
                               ensures=E("string_spelling_selects_the_member", "all([implies(shape_type == m.value, self.type is m) for m in ShapeType])",
                                         "type_is_a_member", "isinstance(self.type, ShapeType)"),
                               raises={"ValueError": "not any([shape_type == m.value for m in ShapeType])"}))
    P.verify("common.shape:Shape.__init__", name="Shape.__init__[enum]",
             contract=Contract("common.shape:Shape.__init__", cut=False,
                               params={"self": new_shape, "shape_type": TEnum(idx.lookup("common.shape:ShapeType")), "size": size, "footprint": footprint},
                               ensures=E("enum_spelling_is_kept", "self.type is shape_type")))
    TK = idx.lookup("common.transform:TransformKey")
    new_tk = lambda it: it.ctx.new_cell("obj", {}, TK)
    FID = TEnum(idx.lookup(f"{SCHEMA}:FrameID"))
    for kinds in (("str", "str"), ("str", "enum"), ("enum", "str"), ("enum", "enum")):
        params = {"self": new_tk}
        ens = []
        for pn, k in zip(("src", "dst"), kinds):
            if k == "str":
                params[pn] = TStr()
                ens += [(f"{pn}_string_selects_the_member", f"all([implies(lower({pn}) == m.value or {pn} == m.value, self.{pn} is m) for m in FrameID])"),
                        (f"{pn}_is_a_member", f"isinstance(self.{pn}, FrameID)")]
            else:
                params[pn] = FID
                ens += [(f"{pn}_enum_is_kept", f"self.{pn} is {pn}")]
        unknown = " or ".join(f"not any([lower({pn}) == m.value or {pn} == m.value for m in FrameID])" for pn, k in zip(("src", "dst"), kinds) if k == "str") or "False"
        P.verify("common.transform:TransformKey.__init__", name=f"TransformKey.__init__[{kinds[0]},{kinds[1]}]",
                 contract=Contract("common.transform:TransformKey.__init__", cut=False, params=params, ensures=ens,
                                   raises={"ValueError": unknown}))
    import contracts.C18 as C18
    C18.label_tasks(P)      # HomogeneousMatrix(..., src, dst): the same string-or-member convention
    # TransformDict.transform with the key's frames spelled as strings: the same entry / the same X -> X shortcut as with the members (C18's tasks, re-verified here)
    n0_, mo_ = len(P.tasks), P.min_obligations
    C18.build(P)
    P.tasks[n0_:] = [t for t in P.tasks[n0_:] if t.name.startswith("TransformDict.transform[string")]
    P.min_obligations = mo_
    # equality of keys built from either spelling: TransformKey.__eq__ compares the members
    def two_keys(it):
        a = it.ctx.new_cell("obj", {}, TK)
        b = it.ctx.new_cell("obj", {}, TK)
        for o, sfx in ((a, "a"), (b, "b")):
            cell = it.ctx.cell(o)
            cell["src"] = FID.fresh(it.ctx, "src_" + sfx)
            cell["dst"] = FID.fresh(it.ctx, "dst_" + sfx)
        return {"self": a, "other": b}
    P.verify("common.transform:TransformKey.__eq__", name="TransformKey.__eq__",
             contract=Contract("common.transform:TransformKey.__eq__", cut=False, params={}, 
                               ensures=E("equal_iff_same_members", "result == (self.src is other.src and self.dst is other.dst)")),
             args_builder=two_keys)

    P.trust("z3 sequence theory for string equality; str.lower/str.upper as uninterpreted idempotent functions with "
            "ground instances at every literal the code or the contract compares with")
    P.assume("enum classes have exactly the members assigned in their class body (read from the AST on every run)")
    P.assume("TransformKey/Shape instances have exactly the fields their __init__ assigns")
