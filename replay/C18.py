"""C18 native harness: real HomogeneousMatrix / TransformDict on random rigid transforms (any axis/angle, both quaternion signs)."""
import math
import random
import sys

import numpy as np

from common import main

FRAMES = ["base_link", "map", "lidar_top", "cam_front"]


def rq(rnd):
    from pyquaternion import Quaternion
    axis = [rnd.uniform(-1, 1) for _ in range(3)]
    if sum(a * a for a in axis) < 1e-3:
        axis = [0.0, 0.0, 1.0]
    q = Quaternion(axis=axis, radians=rnd.uniform(-math.pi, math.pi))
    return -q if rnd.random() < 0.5 else q


def close_q(a, b):
    return np.allclose(a.rotation_matrix, b.rotation_matrix, atol=1e-8)


def check(seed):
    from pyquaternion import Quaternion
    from perception_eval.common.schema import FrameID
    from perception_eval.common.transform import HomogeneousMatrix, TransformDict
    rnd = random.Random(seed)
    # translations / positions are given as floats, as whole numbers (ints, the way configuration files and tests spell them) or mixed
    def t():
        k = rnd.random()
        if k < 0.25:
            return tuple(rnd.randint(-50, 50) for _ in range(3))
        if k < 0.35:
            return (rnd.randint(-50, 50), rnd.uniform(-50, 50), 0)
        return tuple(rnd.uniform(-50, 50) for _ in range(3))
    ab = HomogeneousMatrix(t(), rq(rnd), src="base_link", dst=FrameID.MAP)
    bc = HomogeneousMatrix(np.array(t()), rq(rnd).rotation_matrix if rnd.random() < 0.5 else rq(rnd), src=FrameID.MAP, dst="lidar_top")
    # special operands: the identity between two different frames (a sensor mounted at the origin), a pure translation, a pure rotation
    k = rnd.random()
    ident = lambda src, dst: HomogeneousMatrix((0, 0, 0) if rnd.random() < 0.5 else (0.0, 0.0, 0.0), Quaternion() if rnd.random() < 0.5 else np.eye(3), src=src, dst=dst)
    if k < 0.12:
        ab = ident("base_link", FrameID.MAP)
    elif k < 0.24:
        bc = ident(FrameID.MAP, "lidar_top")
    elif k < 0.30:
        ab, bc = ident("base_link", FrameID.MAP), ident(FrameID.MAP, "lidar_top")
    elif k < 0.36:
        ab = HomogeneousMatrix(t(), Quaternion(), src="base_link", dst=FrameID.MAP)
    elif k < 0.42:
        bc = HomogeneousMatrix((0.0, 0.0, 0.0), rq(rnd), src=FrameID.MAP, dst="lidar_top")
    p, q = t(), rq(rnd)
    if rnd.random() < 0.35:
        # a transform built from the caller's work buffer (an ndarray position, or a 4x4 array through from_matrix) that the caller then refills for the
        # next pose: whatever pose the transform holds afterwards, its position-only route, its pose route and its matrix describe the same one
        if rnd.random() < 0.5:
            buf = np.array(t(), dtype=float)
            m = HomogeneousMatrix(buf, rq(rnd), src="base_link", dst=FrameID.MAP)
            buf += np.array([4.5, 2.5, 0.1])
        else:
            buf = HomogeneousMatrix(t(), rq(rnd), src="base_link", dst=FrameID.MAP).matrix.copy()
            m = HomogeneousMatrix.from_matrix(buf, src="base_link", dst=FrameID.MAP)
            buf[:3, 3] += np.array([4.5, 2.5, 0.1])
        hom = m.matrix.dot(np.array([p[0], p[1], p[2], 1.0]))[:3]
        p_only = m.transform(p)
        p_pose, _ = m.transform(p, q)
        if not (np.allclose(p_only, hom, atol=1e-7) and np.allclose(p_pose, hom, atol=1e-7)):
            return f"after the caller refilled the buffer the transform was built from: transform(p) = {tuple(p_only)}, transform(p, q) = {tuple(p_pose)}, matrix @ p = {tuple(hom)}"
        back = m.inv().transform(m.transform(p))
        if not np.allclose(back, p, atol=1e-7):
            return f"after the caller refilled the buffer the transform was built from: inverse round trip {p} -> {tuple(back)}"
    # inverse round trip
    p1, q1 = ab.transform(p, q)
    p2, q2 = ab.inv().transform(p1, q1)
    if not (np.allclose(p2, p, atol=1e-7) and close_q(q2, q)):
        return f"inverse round trip: {p} -> {tuple(p2)}"
    if ab.inv().src != FrameID.MAP or ab.inv().dst != FrameID.BASE_LINK:
        return "inv() does not swap the frame labels"
    # composition
    ac = bc.dot(ab)
    if ac.src != FrameID.BASE_LINK or ac.dst != FrameID.LIDAR_TOP:
        return f"composition labelled {ac.src}->{ac.dst}"
    pa, qa = ac.transform(p, q)
    pb, qb = bc.transform(*ab.transform(p, q))
    if not (np.allclose(pa, pb, atol=1e-7) and close_q(qa, qb)):
        return "composition differs from transforming in two steps"
    try:
        ab.dot(bc)
        return "composition with mismatched frames accepted"
    except ValueError:
        pass
    # ... also through the matrix-argument route of transform (x.transform(y) is y after x: y must start where x ends)
    for call in (lambda: bc.transform(ab), lambda: bc.transform(matrix=ab)):
        try:
            call()
            return "transform(matrix) composed two transforms whose frames do not chain (lidar_top is not base_link)"
        except ValueError:
            pass
    chained = ab.transform(bc)
    if chained.src != FrameID.BASE_LINK or chained.dst != FrameID.LIDAR_TOP or not np.allclose(chained.matrix, bc.matrix.dot(ab.matrix), atol=1e-7):
        return "transform(matrix) of two chaining transforms is not their composition"
    # pose agrees with the homogeneous matrices
    h = np.eye(4)
    h[:3, :3] = q.rotation_matrix
    h[:3, 3] = p
    m = ab.matrix.dot(h)
    if not (np.allclose(m[:3, 3], p1, atol=1e-7) and np.allclose(m[:3, :3], q1.rotation_matrix, atol=1e-7)):
        return "transform(p, q) disagrees with the matrix product"
    if not np.allclose(ab.transform(p), p1, atol=1e-7) or not np.allclose(ab.transform(position=p), p1, atol=1e-7):
        return "transform(position) disagrees with transform(position, rotation)"
    # registry
    reg = TransformDict([ab, bc])
    for spell in (("base_link", "map"), (FrameID.BASE_LINK, FrameID.MAP), ("BASE_LINK", FrameID.MAP)):
        if not np.allclose(reg.transform(spell, p), p1, atol=1e-7):
            return f"registry lookup with key spelling {spell} differs"
    back = reg.transform((FrameID.MAP, "base_link"), p1, q1)
    if not (np.allclose(back[0], p, atol=1e-7) and close_q(back[1], q)):
        return "registry does not answer map->base_link with the inverse of base_link->map"
    for key in (("map", FrameID.MAP), ("MAP", FrameID.MAP), (FrameID.MAP, "Map"), ("BASE_LINK", "base_link")):
        try:
            same = reg.transform(key, p)
        except Exception as ex:
            return f"X->X with key {key} raised {type(ex).__name__}: {ex}"
        if tuple(same) != tuple(p):
            return f"X->X with key {key} changed its input"
    same2 = reg.transform((FrameID.MAP, FrameID.MAP), p, q)
    if tuple(same2[0]) != tuple(p) or same2[1] is not q:
        return "X->X (position, rotation) changed its input"
    try:
        reg.transform((FrameID.CAM_FRONT, FrameID.MAP), p)
        return "unregistered key did not raise"
    except KeyError:
        pass
    return None


def search(item, seed):
    for k in range(150):
        s = seed * 1000 + k
        try:
            why = check(s)
        except Exception as ex:
            why = f"raised {type(ex).__name__}: {ex}"
        if why:
            return dict(function="transform", input=dict(seed=s), observed=why)
    return None


def replay(payload):
    try:
        why = check(payload["input"]["seed"])
    except Exception as ex:
        why = f"raised {type(ex).__name__}: {ex}"
    return (why is None, why or "ok")


if __name__ == "__main__":
    sys.exit(main("C18", search, replay))
