"""C07 — evaluation results do not depend on the coordinate frame of the objects.

The property relates two executions (ego rendering / map rendering of one scene).  Contracts speak about one call, so it is decided as
*leaf agreements*: every function that reads a position or an orientation is verified to compute a function of the object's
EGO-FRAME pose — the registry's transform (frame_id -> BASE_LINK) of its stored pose, which is the stored pose itself for an ego-frame
object (assumed registry contract: X -> X returns its argument; proved for the real TransformDict under C18) — plus lemmas that two
renderings with the same ego-frame pose and otherwise equal attributes get the same verdict.  Re-run here on every check:
 * C10's `_is_target_object` with a registry: the keep predicate is stated over the ego-frame position;
 * C03's `evaluate_frame` wiring: both critical filters receive the frame's own transforms;
 * C09's `get_heading_bev` / APH weight in both frame branches;
 * new: `get_distance` / `get_distance_bev` (ego-relative norms), the frame-independence lemma over C10's predicate text.
Not reached by a contract: PlaneDistanceMatching's corner ranking through the transforms (numpy), the metric pipelines end to end —
bounded native harness: the same scene evaluated in both renderings (detection and tracking) must give the same lists and scores.
"""
from pyvc.api import *
import contracts.C03 as C03
import contracts.C09 as C09
import contracts.C10 as C10

OB = "common.object"


def build(P):
    idx = P.index
    # ---------------------------------------------------------------- leaf agreements already stated elsewhere, re-verified here
    C10.build(P, tf_options=(True,), filters=False)
    n0 = len(P.tasks)
    C03.build(P)
    P.tasks[n0:] = [t for t in P.tasks[n0:] if t.name.startswith("PerceptionFrameResult.evaluate_frame")]
    n0 = len(P.tasks)
    C09.build(P)
    P.tasks[n0:] = [t for t in P.tasks[n0:] if t.name.startswith(("get_heading_bev", "TPMetricsAph"))]
    n0 = len(P.tasks)
    import contracts.C18 as C18
    C18.build(P)
    # the registry: a query answers from the registered matrices (X -> X: its argument; else X -> Y or the inverse of Y -> X) and does not write the registry —
    # a registry that caches what it computed would carry one frame's ego pose into a frame copied from it
    P.tasks[n0:] = [t for t in P.tasks[n0:] if t.name.startswith("TransformDict.transform")]
    P.min_obligations = 80
    P.uncovered[:] = []
    from pyvc.externals import vec

    def install_vec(it):
        # numpy vectors for the two distance functions only (np.linalg.norm of a position)
        saved = dict(it.externals)
        vec.install(it)
        for k in ("opaque.getitem", "numpy.array"):
            if k in saved:
                it.externals[k] = saved[k]
    P.install(install_vec)
    DO = TSObj("DynamicObject")
    tf = lambda it: VOpaque("transformdict", it.ctx.fresh("transforms", I))
    EGO = "(self.state.position if self.frame_id is FrameID.BASE_LINK else transforms.transform((self.frame_id, FrameID.BASE_LINK), self.state.position))"
    sq = lambda i: f"{EGO}[{i}] * {EGO}[{i}]"
    for fn, dims in (("get_distance", 3), ("get_distance_bev", 2)):
        P.verify(f"{OB}:DynamicObject.{fn}", name=f"DynamicObject.{fn}[transforms given]",
                 contract=Contract(f"{OB}:DynamicObject.{fn}", cut=False, params={"self": DO, "transforms": tf},
                                   ensures=E("norm_of_the_ego_frame_position", "result >= 0 and result * result == " + " + ".join(sq(i) for i in range(dims)))))
        P.verify(f"{OB}:DynamicObject.{fn}", name=f"DynamicObject.{fn}[no transforms]",
                 contract=Contract(f"{OB}:DynamicObject.{fn}", cut=False, params={"self": DO, "transforms": NONE},
                                   raises={"ValueError": "self.frame_id is not FrameID.BASE_LINK"},
                                   ensures=E("norm_of_the_stored_position_of_an_ego_frame_object",
                                             "result >= 0 and result * result == " + " + ".join(f"self.state.position[{i}] * self.state.position[{i}]" for i in range(dims)))))
    # ---------------------------------------------------------------- the keep predicate gives one verdict for the two renderings of an object
    pr = C10.params(True)
    pr["target_labels"] = Opt(TSList(TEnum(idx.lookup("common.label:AutowareLabel"))))
    same = ["o_ego.frame_id is FrameID.BASE_LINK", "o_map.frame_id is FrameID.MAP",
            "transforms.transform((o_map.frame_id, FrameID.BASE_LINK), o_map.state.position) == o_ego.state.position",
            "o_ego.semantic_label is o_map.semantic_label", "o_ego.semantic_score == o_map.semantic_score", "o_ego.pointcloud_num == o_map.pointcloud_num",
            "o_ego.uuid == o_map.uuid",
            "implies(min_point_numbers is not None and is_gt, o_ego.pointcloud_num is not None and o_map.pointcloud_num is not None)"]
    fp_e, cl_e = C10.keep("o_ego", "is_gt", "transforms", parts=True)
    fp_m, cl_m = C10.keep("o_map", "is_gt", "transforms", parts=True)
    hyps = same + [tx for _, tx in C10.list_requires()]
    P.spec_lemma("same_verdict_in_both_renderings.false_positive_label", "evaluation.matching.objects_filter", params=dict(pr, o_ego=DO, o_map=DO), hyps=hyps,
                 goal=f"{fp_e} == {fp_m}")
    for (nm, ce), (_, cm_) in zip(cl_e, cl_m):
        # the keep predicate is `fp or (c1 and ... and c9)`: clause-wise agreement gives agreement of the whole verdict
        P.spec_lemma(f"same_verdict_in_both_renderings.{nm}", "evaluation.matching.objects_filter", params=dict(pr, o_ego=DO, o_map=DO), hyps=hyps,
                     goal=f"({ce}) == ({cm_})")
    P.bounded.append(dict(what="one scene evaluated in the ego rendering and in the map rendering (random ego pose): same TP / FP / FN / TN lists by uuid, same per-pair scores, "
                               "same AP / APH per matching mode, same CLEAR counts and MOTA / MOTP over a two-frame history",
                          bound="40 random scenes per run (up to 5 objects per side, decisions kept away from their thresholds by construction)", where="replay/C07.py"))
    P.uncover("PlaneDistanceMatching ranks the ground truth's corners by ego distance through the transforms (numpy argsort): bounded harness only")
    P.uncover("the composition 'every leaf is a function of the ego-frame pose => every metric agrees' is an argument over the call graph, not a discharged obligation; "
              "the end-to-end agreement is bounded (harness)")
    P.assume("both renderings carry the same non-geometric attributes (label object, score, point count, uuid) and the registry maps the map pose onto the ego pose")
