"""Induction lemmas over ghost spec functions, proved on every run (two VCs each: base, step).

The induction principle over the naturals is the only meta-level step; each VC is discharged by z3."""
import z3

I, B = z3.IntSort(), z3.BoolSort()


def count_fn(name):
    """ghost prefix-count function and its defining axioms as spec text.
    returns (ghost builder, defs(pred_of_k, n))"""
    from .values import VSpecFn, VInt
    from .ops import to_int_z
    f = z3.Function(name, I, I)
    ghost = lambda it, fr: VSpecFn(lambda interp, args: VInt(f(to_int_z(args[0]))), name)

    def defs(pred, n):
        """pred: python function index-text -> spec text"""
        return [
            (f"{name}.def.zero", f"{name}(0) == 0"),
            (f"{name}.def.step", f"forall(k, 0, {n}, {name}(k + 1) == {name}(k) + (1 if ({pred('k')}) else 0))"),
            # consequences proved abstractly by the lemma tasks of add_count_lemmas (stated pairwise, DESIGN 2.5)
            (f"{name}.lemma.monotone", f"forall(j, 0, {n} + 1, forall(k, 0, {n} + 1, implies(j <= k, {name}(j) <= {name}(k))))"),
            (f"{name}.lemma.bounded", f"forall(k, 0, {n} + 1, 0 <= {name}(k) and {name}(k) <= k)"),
            (f"{name}.lemma.increments_at_most_one", f"forall(j, 0, {n} + 1, forall(k, 0, {n} + 1, implies(j <= k, {name}(k) - {name}(j) <= k - j)))"),
            (f"{name}.lemma.strict_after_hit", f"forall(j, 0, {n}, forall(k, 0, {n} + 1, implies(j < k and ({pred('j')}), {name}(j) < {name}(k))))"),
        ]
    return ghost, defs


def pred_fn(name, arity=2):
    """ghost predicate over integer indices: keeps large definitions out of the quantifier bodies that use them.
    returns (ghost builder, defs(expansion(k, j), n, m))"""
    from .values import VSpecFn, VBool
    from .ops import to_int_z
    f = z3.Function(name, *([I] * arity), B)
    ghost = lambda it, fr: VSpecFn(lambda interp, args: VBool(f(*[to_int_z(a) for a in args])), name)

    def defs(expansion, n, m=None):
        if arity == 1:
            return [(f"{name}.def", f"forall(k, 0, {n}, {name}(k) == ({expansion('k')}))")]
        return [(f"{name}.def", f"forall(k, 0, {n}, forall(j, 0, {m}, {name}(k, j) == ({expansion('k', 'j')})))")]
    return ghost, defs


def add_count_lemmas(P):
    """abstract statements about any prefix count c of any predicate p, by induction on k"""
    c = z3.Function("c", I, I)
    p = z3.Function("p", I, B)
    k, j, n = z3.Ints("k j n")
    defs = [c(0) == 0, z3.ForAll([k], z3.Implies(k >= 0, c(k + 1) == c(k) + z3.If(p(k), 1, 0)))]

    def mono_base(z):
        return defs, z3.ForAll([j], z3.Implies(z3.And(0 <= j, j <= 0), c(j) <= c(0)))

    def mono_step(z):
        ih = z3.ForAll([j], z3.Implies(z3.And(0 <= j, j <= k), c(j) <= c(k)))
        return defs + [k >= 0, ih], z3.ForAll([j], z3.Implies(z3.And(0 <= j, j <= k + 1), c(j) <= c(k + 1)))

    def bound_base(z):
        return defs, z3.And(0 <= c(0), c(0) <= 0)

    def bound_step(z):
        return defs + [k >= 0, 0 <= c(k), c(k) <= k], z3.And(0 <= c(k + 1), c(k + 1) <= k + 1)

    def strict_base(z):
        # j < k and p(j) => c(j) < c(k): induction on k from j+1
        return defs + [j >= 0, p(j)], c(j) < c(j + 1)

    def strict_step(z):
        return defs + [j >= 0, k > j, c(j) < c(k)], c(j) < c(k + 1)

    def lip_base(z):
        return defs + [j >= 0], c(j) - c(j) <= 0

    def lip_step(z):
        return defs + [j >= 0, k >= j, c(k) - c(j) <= k - j], c(k + 1) - c(j) <= k + 1 - j

    P.lemma("count.increments_at_most_one.base", lip_base)
    P.lemma("count.increments_at_most_one.step", lip_step)
    for nm, b in (("count.monotone.base", mono_base), ("count.monotone.step", mono_step), ("count.bounded.base", bound_base),
                  ("count.bounded.step", bound_step), ("count.strict_after_hit.base", strict_base), ("count.strict_after_hit.step", strict_step)):
        P.lemma(nm, b)
