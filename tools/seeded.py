#!/usr/bin/env python3
"""Confirm and evaluate a seeded change delivered by a sub-agent in /tmp/out-<name>/ with worktree /tmp/wt-<name>.

usage: tools/seeded.py <name> <property-id> [--tests] [--keep-as <seeded-id>]
 1. demo exits non-zero with the change, zero without (git stash in the worktree)
 2. optionally the repository's test suite passes with the change (run in the worktree)
 3. the patch is applied to /repo, the property's check is run, the patch is undone (git checkout -- .)
 4. with --keep-as the change is stored under /verif/seeded/<id>/ with meta.json
"""
import json, os, shutil, subprocess, sys, time

VERIF = os.path.dirname(os.path.dirname(os.path.abspath(__file__)))


def sh(cmd, **kw):
    return subprocess.run(cmd, shell=True, capture_output=True, text=True, **kw)


def main():
    name, pid = sys.argv[1], sys.argv[2]
    wt, out = f"/tmp/wt-{name}", f"/tmp/out-{name}"
    env = dict(os.environ, PYTHONPATH=f"{wt}/perception_eval")
    rec = dict(name=name, property=pid, ran=[])
    if not os.path.exists(f"{out}/patch.diff") or os.path.getsize(f"{out}/patch.diff") == 0:
        open(f"{out}/patch.diff", "w").write(sh(f"git -C {wt} diff").stdout)
    demo = f"/venv/bin/python {out}/demo.py"
    # never `git stash` here: the stash is shared between worktrees; make the tree clean, apply / un-apply the patch file
    sh(f"git -C {wt} checkout -- .")
    sh(f"git -C {wt} apply {out}/patch.diff")
    r1 = sh(demo, env=env)
    sh(f"git -C {wt} apply -R {out}/patch.diff")
    r0 = sh(demo, env=env)
    sh(f"git -C {wt} apply {out}/patch.diff")
    rec["demo_with_change_rc"], rec["demo_without_change_rc"] = r1.returncode, r0.returncode
    rec["demo_message"] = (r1.stdout + r1.stderr).strip().splitlines()[-1][:400] if (r1.stdout + r1.stderr).strip() else ""
    rec["ran"].append(f"PYTHONPATH={wt}/perception_eval {demo}  (with the patch applied: rc {r1.returncode}; with the patch reverted: rc {r0.returncode})")
    print(f"demo: with change rc={r1.returncode}, without rc={r0.returncode}")
    if "--tests" in sys.argv:
        t = sh(f"cd {wt} && /venv/bin/python -m pytest -q -p no:cacheprovider --timeout=900 perception_eval/test 2>&1 | tail -1", env=env)
        rec["tests_with_change"] = t.stdout.strip()
        rec["ran"].append(f"cd {wt} && PYTHONPATH={wt}/perception_eval /venv/bin/python -m pytest -q -p no:cacheprovider perception_eval/test -> {t.stdout.strip()}")
        print("tests:", t.stdout.strip())
    scratch = None
    if "--scratch" in sys.argv:
        # evaluate on a scratch copy (PYVC_REPO) instead of patching /repo: safe while other runs read /repo
        import tempfile
        scratch = tempfile.mkdtemp(prefix="pyvc-seed-", dir="/tmp")
        shutil.copytree("/repo/perception_eval", os.path.join(scratch, "perception_eval"), ignore=shutil.ignore_patterns("__pycache__", "*.pyc", "test"))
        a = sh(f"cd {scratch} && patch -p1 -s < {out}/patch.diff")
    else:
        a = sh(f"git -C /repo apply {out}/patch.diff")
    if a.returncode != 0:
        print("patch does not apply to /repo:", a.stderr)
        return 2
    try:
        t0 = time.time()
        c = sh(f"{VERIF}/check {pid}", env=dict(os.environ, PYVC_EVIDENCE_DIR="/tmp/seeded-evidence", **({"PYVC_REPO": scratch} if scratch else {})))
        rec["check_rc"] = c.returncode
        rec["check_wall_s"] = round(time.time() - t0, 1)
        lines = c.stdout.strip().splitlines()
        rec["check_lines"] = [l[:300] for l in lines if l.startswith(("VIOLATION", "UNDECIDED", "ENGINE", "[", "  obligation"))][:12]
        print("\n".join(rec["check_lines"][:8]))
        print(f"check {pid}: rc={c.returncode}")
        # keep one replay file for the record
        for l in lines:
            if l.startswith("VIOLATION") and "replay=" in l:
                rp = l.split("replay=")[1].split()[0]
                if os.path.exists(rp):
                    rec["replay_excerpt"] = open(rp).read()[:1500]
                break
    finally:
        if scratch:
            shutil.rmtree(scratch, ignore_errors=True)
        else:
            sh("git -C /repo checkout -- .")
    if "--keep-as" in sys.argv:
        sid = sys.argv[sys.argv.index("--keep-as") + 1]
        d = os.path.join(VERIF, "seeded", sid)
        os.makedirs(d, exist_ok=True)
        shutil.copy(f"{out}/patch.diff", d)
        shutil.copy(f"{out}/demo.py", d)
        if os.path.exists(f"{out}/notes.md"):
            shutil.copy(f"{out}/notes.md", d)
        meta = dict(id=sid, breaks_property=pid, source="independent sub-agent given only the property text",
                    needs_to_manifest=open(f"{out}/notes.md").read()[:1500] if os.path.exists(f"{out}/notes.md") else "",
                    confirmed=rec)
        json.dump(meta, open(os.path.join(d, "meta.json"), "w"), indent=1)
    return 0


if __name__ == "__main__":
    sys.exit(main())
